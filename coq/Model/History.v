(* Model of the state that survives a call of check/run (C18, history part):
     pandora/state_machine.py   attributes of PandoraMachine (never reset by __init__ again),
                                run_prepare / the run callbacks / run_exit
     pandora/matching_cost/*.py the class-level dictionary AbstractMatchingCost.schema shared
                                by the matching-cost classes
     pandora/check_configuration.py  the module-level input_configuration_schema

   The datum (Gen/History.v, translator/gen_history.py) gives, per run callback and per value
   of the two flags (multiscale?, right products?): the attributes read before being written
   by the callback itself, those assigned on every path, those assigned on some path; and per
   shared dictionary its literal keys and, per writer, the keys overwritten before validating.

   (1) attribute stores: a callback is ANY function of the store that respects its frame
       ([respects]): what it leaves in the attributes it reads (they may be mutated in place)
       or assigns depends only on what it read; an attribute it assigns only on some paths is
       assigned or kept alike in two stores where it agreed; everything else is untouched.
   (2) [covered]: boolean obligation -- run_prepare reads nothing but the persistent attribute
       (step; right_disp_map is reassigned by run_prepare on every path), the callbacks of the first trigger read only what run_prepare
       or they themselves have assigned, every other callback reads only that.
   (3) shared dictionaries: a writer overwrites its keys and validates with the result.

   Definitions only. *)
From Coq Require Import List String Bool ZArith.
From Pandora Require Import Model.Machine.
Import ListNotations.
Open Scope string_scope.

Record cbinfo := mkCb {
  cb_name : string;
  cb_reads : list string;     (* read before written by the callback itself *)
  cb_must : list string;      (* assigned on every path *)
  cb_may : list string }.     (* assigned on some path *)

Record shared := mkShared {
  sd_name : string;
  sd_base : list string;                        (* keys of the literal *)
  sd_writers : list (string * list string) }.   (* writer, keys it overwrites before validating *)

Definition mem_s (x : string) (l : list string) : bool := existsb (String.eqb x) l.
Definition subset_s (a b : list string) : bool := forallb (fun x => mem_s x b) a.

(* the attributes whose value at the start of a run is NOT recomputed by the run.
   (right_disp_map was one of them until run_prepare got its `else: self.right_disp_map = None`:
   it is now assigned on every path of run_prepare, which [covered] demands of the regenerated
   frame: right_disp_map is read by every run callback, so it must be in [cb_must prep].) *)
Definition persist : list string := ["step"].
(* what pandora.run returns *)
Definition products : list string := ["left_disparity"; "right_disparity"].

Definition find_cb (n : string) (l : list cbinfo) : option cbinfo :=
  find (fun c => String.eqb (cb_name c) n) l.

(* walk a sequence of callback names: every one must read only attributes on which two runs
   are known to agree; the agreement set grows with what it assigns on every path *)
Fixpoint walk (cbs : list cbinfo) (names : list string) (A : list string) : option (list string) :=
  match names with
  | [] => Some A
  | n :: r =>
    match find_cb n cbs with
    | Some c => if subset_s (cb_reads c) A then walk cbs r (cb_must c ++ A) else None
    | None => None
    end
  end.

(* [skip]: callbacks that cannot execute under the flags (run_multiscale without multiscale) *)
Definition covered (prep : cbinfo) (cbs : list cbinfo) (first skip : list string) : bool :=
  subset_s (cb_reads prep) persist &&
  subset_s products (cb_must prep) &&
  match walk cbs first (cb_must prep ++ persist) with
  | Some A => forallb (fun c => mem_s (cb_name c) skip || subset_s (cb_reads c) A) cbs
  | None => false
  end.

(* the run callbacks never assign `step`; right_disp_map is assigned by run_prepare only
   (from the configuration) *)
Definition persist_only_prepared (prep : cbinfo) (cbs : list cbinfo) : bool :=
  negb (mem_s "step" (cb_may prep)) &&
  forallb (fun c => negb (mem_s "step" (cb_may c)) && negb (mem_s "right_disp_map" (cb_may c))) cbs.

(* ---------------------------------------------------------------- stores and callbacks *)
Section Stores.
  Variable value : Type.
  Definition store := string -> value.
  Definition agree (A : list string) (s1 s2 : store) : Prop := forall a, In a A -> s1 a = s2 a.

  Definition respects (c : cbinfo) (f : store -> store) : Prop :=
    (forall s1 s2, agree (cb_reads c) s1 s2 ->
       (forall a, In a (cb_reads c) \/ In a (cb_must c) -> f s1 a = f s2 a) /\
       (forall a, In a (cb_may c) -> s1 a = s2 a -> f s1 a = f s2 a)) /\
    (forall s a, ~ In a (cb_may c) -> ~ In a (cb_must c) -> ~ In a (cb_reads c) -> f s a = s a).

  (* meaning of the callbacks: by name and by configured step (its parameters) *)
  Variable sem : string -> Z -> store -> store.

  Fixpoint exec (l : list (string * Z)) (s : store) : store :=
    match l with
    | [] => s
    | (n, id) :: r => exec r (sem n id s)
    end.
End Stores.

(* ---------------------------------------------------------------- from the C01 trace to callbacks *)
Definition trigger_name (k : kind) : string :=
  match k with
  | MC => "matching_cost" | Agg => "aggregation" | Seg => "semantic_segmentation" | Opt => "optimization"
  | Dsp => "disparity" | Flt => "filter" | Ref => "refinement" | Val => "validation" | Msc => "multiscale"
  | Cvc => "cost_volume_confidence"
  end.

Definition callbacks_of (tbl : list (string * list string)) (k : kind) : list string :=
  match find (fun x => String.eqb (fst x) (trigger_name k)) tbl with
  | Some (_, l) => l
  | None => []
  end.

(* one left event = one execution of the callbacks of the trigger (the right event of the same
   step is the second half of the same callback execution) *)
Definition cbs_of_trace (tbl : list (string * list string)) (tr : list ev) : list (string * Z) :=
  flat_map (fun e => match e with
                     | Ev id k _ false => map (fun n => (n, id)) (callbacks_of tbl k)
                     | Ev _ _ _ true => []
                     end) tr.

(* ---------------------------------------------------------------- shared dictionaries *)
Section Dicts.
  Variable V : Type.
  Definition dict := list (string * V).
  Fixpoint lookup (k : string) (d : dict) : option V :=
    match d with
    | [] => None
    | (k', v) :: r => if String.eqb k' k then Some v else lookup k r
    end.
  (* Python  d[k] = v  : replace in place, or append *)
  Fixpoint dset (k : string) (v : V) (d : dict) : dict :=
    match d with
    | [] => [(k, v)]
    | (k', v') :: r => if String.eqb k' k then (k', v) :: r else (k', v') :: dset k v r
    end.
  (* a writer: overwrite its keys with its own values (a function of the writer), in order *)
  Definition write_all (kvs : list (string * V)) (d : dict) : dict :=
    fold_left (fun d kv => dset (fst kv) (snd kv) d) kvs d.
End Dicts.

Definition same_keys (a b : list string) : bool := subset_s a b && subset_s b a.

(* every writer overwrites the same set of keys (so whatever another writer left is replaced
   before this writer validates), and none of them is a key of the literal that another
   writer would rely on *)
Definition shared_wf (d : shared) : bool :=
  match sd_writers d with
  | [] => true
  | (_, ks0) :: _ => forallb (fun w => same_keys (snd w) ks0) (sd_writers d)
  end.

(* ---------------------------------------------------------------- history of calls on one machine,
   with the persistent attribute `step` (assigned by matching_cost_check_conf only) *)
Section Hist.
  Variable check_tbl run_tbl : list transition.
  Variable step_ok : step -> bool -> bool.
  Variable mc_step : Z.          (* the `step` parameter of the pipeline's matching-cost step *)

  Inductive hcall := HCheck | HRun.
  (* what a caller observes, plus the persistent pair as the callbacks of that run read it *)
  Inductive houtcome :=
  | HAccepted | HRejected | HFailed
  | HRan (tr : list ev) (rdm_seen : bool) (step_seen : Z).

  Definition do_hcall (n : nat) (p : list step) (ms : machine * Z) (c : hcall) : (machine * Z) * houtcome :=
    let '(m, st) := ms in
    match c with
    | HCheck => match check_conf check_tbl step_ok m p with
                | Accepted m' => ((m', mc_step), HAccepted)
                | Rejected m' => ((m', st), HRejected)
                end
    | HRun => match run run_tbl m p n with
              | RunOk m' tr => ((m', st), HRan tr (has_kind Val p) st)
              | RunError m' _ => ((m', st), HFailed)
              end
    end.

  Fixpoint hhistory (n : nat) (p : list step) (ms : machine * Z) (h : list hcall) : list houtcome :=
    match h with
    | [] => []
    | c :: r => let '(ms', o) := do_hcall n p ms c in o :: hhistory n p ms' r
    end.
End Hist.

(* ---------------------------------------------------------------- several machine objects in one process *)
(* Machine objects are told apart by an identity; a call names the object, the pipeline and the
   number of scales.  Objects share nothing but the class-level dictionaries (modelled above:
   validity of a step is a function of the step, [step_ok]). *)
Section World.
  Variable check_tbl run_tbl : list transition.
  Variable step_ok : step -> bool -> bool.
  Variable mc_step_of : list step -> Z.    (* the `step` parameter of a pipeline's matching-cost step *)

  Definition world := Z -> machine * Z.
  Record wop := mkWop { w_mid : Z; w_call : hcall; w_n : nat; w_p : list step }.

  Definition wstep (w : world) (o : wop) : world * houtcome :=
    let '(ms', out) := do_hcall check_tbl run_tbl step_ok (mc_step_of (w_p o)) (w_n o) (w_p o) (w (w_mid o)) (w_call o) in
    (fun j => if Z.eqb j (w_mid o) then ms' else w j, out).

  (* outcomes of the calls made on object [a], in order *)
  Fixpoint whistory (a : Z) (w : world) (ops : list wop) : list houtcome :=
    match ops with
    | [] => []
    | o :: r => let '(w', out) := wstep w o in
                if Z.eqb (w_mid o) a then out :: whistory a w' r else whistory a w' r
    end.
End World.
