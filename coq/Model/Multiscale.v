(* Model of the multiscale data flow of Pandora:
     pandora/check_configuration.py   read_multiscale_params
     pandora/state_machine.py         run_prepare (interval / sf^n, right interval negated),
                                      matching_cost_prepare (x sf), run_multiscale
     pandora/multiscale/fixed_zoom_pyramid.py  disparity_range (block loop B = 100, zoom order 0)
     pandora/multiscale/multiscale.py mask_invalid_disparities
     pandora/img_tools.py             prepare_pyramid sizes, masks_pyramid ([::sf])
   The sequencing (which step runs at which scale) is the model of C01 (Model/Machine.v).
   The radiometry of the Gaussian pyramid (skimage) is not modelled: the disparity map and the
   validity mask computed at each coarse level are INPUTS of this model.
   Definitions only (no proofs). *)
From Coq Require Import ZArith QArith List Bool.
From Pandora Require Import Lib.Blocks Model.Dataset Model.Machine.
Import ListNotations.
Open Scope Z_scope.

(* ------------------------------------------------------------------ read_multiscale_params *)

(* a step of cfg["pipeline"]: is its name "multiscale[.suffix]", and its optional parameters *)
Record step_cfg := mkStepCfg { sc_is_msc : bool; sc_num_scales : option Z; sc_scale_factor : option Z }.

Definition dflt (o : option Z) (d : Z) : Z := match o with Some z => z | None => d end.

(* the first multiscale step of the pipeline section decides; (1, 1) without one.
   [dn], [dsf] = _PYRAMID_NUM_SCALES, _PYRAMID_SCALE_FACTOR of the multiscale class (Gen/MsConst.v) *)
Definition read_multiscale_params (dn dsf : Z) (steps : list step_cfg) : Z * Z :=
  match filter sc_is_msc steps with
  | s :: _ => (dflt (sc_num_scales s) dn, dflt (sc_scale_factor s) dsf)
  | [] => (1, 1)
  end.

(* ------------------------------------------------------------------ pyramid sizes *)

(* skimage pyramid_reduce: out_shape = ceil(shape / downscale);  msk[::sf] has the same length *)
Definition ceil_div (a b : Z) : Z := (a + b - 1) / b.

(* size of level k (0 = original image), one reduction per level *)
Fixpoint level_size (k : nat) (n sf : Z) : Z :=
  match k with O => n | S k' => ceil_div (level_size k' n sf) sf end.

(* masks_pyramid: tmp_msk[::scale_factor, ::scale_factor] *)
Definition decimate {A} (sf : Z) (m : arr A) : arr A :=
  mkArr (ceil_div (nr m) sf) (ceil_div (nc m) sf) (fun r c => px m (sf * r) (sf * c)).

(* ------------------------------------------------------------------ disparity intervals *)

Definition qz (z : Z) : Q := inject_Z z.

(* run_prepare: disparity / scale_factor ** num_scales; the right interval is the negated one *)
Definition run_prepare_interval (dmin dmax sf : Z) (n : nat) : Q * Q :=
  ((qz dmin / qz (sf ^ Z.of_nat n))%Q, (qz dmax / qz (sf ^ Z.of_nat n))%Q).
Definition right_interval (i : Q * Q) : Q * Q := ((- snd i)%Q, (- fst i)%Q).

(* matching_cost_prepare / run_multiscale: x scale_factor *)
Definition scale_interval (sf : Z) (i : Q * Q) : Q * Q := ((fst i * qz sf)%Q, (snd i * qz sf)%Q).

(* int(x): truncation toward zero *)
Definition qtrunc (q : Q) : Z := Z.quot (Qnum q) (Zpos (Qden q)).

(* ------------------------------------------------------------------ disparity_range *)

(* chunk_size = 100 of FixedZoomPyramid.disparity_range; the double block loop is the generic
   combinator Lib/Blocks.loop2 (np.array_split of the window array with split points taken
   from the size of the disparity map, running y_begin / x_begin starting at offset) *)
Definition CHUNK : Z := 100.

Definition qmin2 (a b : Q) : Q := if Qle_bool a b then a else b.
Definition qmax2 (a b : Q) : Q := if Qle_bool a b then b else a.
Definition qfold (f : Q -> Q -> Q) (l : list Q) : option Q :=
  match l with [] => None | x :: r => Some (fold_left f r x) end.

Section DisparityRange.
  Variable invalid_bits : Z.            (* cst.PANDORA_MSK_PIXEL_INVALID *)
  Variables ws marge sf : Z.            (* disp.attrs["window_size"], cfg marge, scale_factor *)
  Variable D : arr (option Q).          (* disp["disparity_map"] of the coarse level (None = NaN) *)
  Variable V : arr Z.                   (* disp["validity_mask"] *)
  Variables umin umax : Q.              (* dmin_user / dmax_user of that level (after x sf) *)
  (* scipy.ndimage.zoom(a, sf, order=0) as an index map per axis: output row r reads input row
     zrow r, output column c reads input column zcol c.  The maps are DATA (the harness
     observes them on the very zoom calls of the run); the theorems hold for every pair of
     maps satisfying the order-0 contract (Spec.zoom_contract); [zoom_idx] below is the exact
     rational formula, which scipy follows except on exact ties *)
  Variables zrow zcol : Z -> Z.

  Definition rows : Z := nr D.
  Definition cols : Z := nc D.
  Definition offset : Z := (ws - 1) / 2.

  (* mask_invalid_disparities *)
  Definition invalid (r c : Z) : bool := negb (Z.land (px V r c) invalid_bits =? 0).
  Definition tmp_disp (r c : Z) : option Q := if invalid r c then None else px D r c.
  (* invalid_ind = np.where(np.isnan(tmp_disp_map)) *)
  Definition isnan_tmp (r c : Z) : bool := match tmp_disp r c with None => true | Some _ => false end.

  (* the non-NaN values of sliding window (i, j): rows i..i+ws-1, columns j..j+ws-1 *)
  Definition win_vals (i j : Z) : list Q :=
    flat_map (fun di => flat_map (fun dj => match tmp_disp (i + di) (j + dj) with
                                             | Some q => [q] | None => [] end)
                                 (zrange 0 ws)) (zrange 0 ws).

  Definition fallback_min : Q := qz (qtrunc umin).   (* int(np.nanmin(disp_min)) *)
  Definition fallback_max : Q := qz (qtrunc umax).
  Definition fallback : option Q * option Q := (Some fallback_min, Some fallback_max).

  (* np.nanmin(window) - marge, np.nanmax(window) + marge; None = NaN (All-NaN window) *)
  Definition win_range (i j : Z) : option Q * option Q :=
    let vals := win_vals i j in
    (option_map (fun m => (m - qz marge)%Q) (qfold qmin2 vals),
     option_map (fun m => (m + qz marge)%Q) (qfold qmax2 vals)).

  (* np.full_like(..., int(nanmin/nanmax)) then the chunked double loop; B = chunk size *)
  Definition looped (B : Z) : Z -> Z -> option Q * option Q :=
    loop2 win_range B rows cols (rows - ws + 1) (cols - ws + 1) offset offset (fun _ _ => fallback).

  (* disp_min_range / disp_max_range before the zoom:  range[invalid_ind] = int(user) *)
  Definition range_at_B (B r c : Z) : option Q * option Q :=
    if isnan_tmp r c then fallback else looped B r c.
  Definition range_at : Z -> Z -> option Q * option Q := range_at_B CHUNK.

  (* disparity_range(...) : the two zoomed maps, of shape (sf * rows, sf * cols) *)
  Definition disparity_range : arr (option Q * option Q) :=
    mkArr (sf * rows) (sf * cols) (fun r c => range_at (zrow r) (zcol c)).

  (* ... then matching_cost_prepare of the next level: x scale_factor *)
  Definition scale_pair (p : option Q * option Q) : option Q * option Q :=
    (option_map (fun x => (x * qz sf)%Q) (fst p), option_map (fun x => (x * qz sf)%Q) (snd p)).
  Definition next_grids : arr (option Q * option Q) :=
    mkArr (sf * rows) (sf * cols) (fun r c => scale_pair (px disparity_range r c)).
End DisparityRange.

(* scipy.ndimage.zoom(a, sf, order=0), exact arithmetic: output index o reads input index
   floor(o * (n - 1) / (sf * n - 1) + 1/2) *)
Definition zoom_idx (sf n o : Z) : Z := (2 * o * (n - 1) + (sf * n - 1)) / (2 * (sf * n - 1)).

(* ------------------------------------------------------------------ the whole data flow *)

(* what one coarse level hands to run_multiscale: the left products and, when the right
   disparity map is computed (validation), the right ones *)
Record level := mkLevel {
  lv_ws : Z;
  lv_left : arr (option Q) * arr Z;
  lv_right : option (arr (option Q) * arr Z);
  lv_zoom : (Z -> Z) * (Z -> Z) }.       (* row and column index maps of the zoom calls of this level *)

(* the grids (disp_min, disp_max) seen by one execution of matching_cost_run *)
Inductive grids :=
| GConst (h w : Z) (i : Q * Q)                 (* a constant grid of shape h x w *)
| GMap (g : arr (option Q * option Q)).

(* levels are listed from the coarsest (scale n-1) to scale 1; [user] = dmin_user/dmax_user
   before the multiplication done by run_multiscale.  Returns, for each following scale,
   the left grids and the right grids. *)
Fixpoint finer_grids (invalid_bits marge sf : Z) (user : Q * Q) (lvls : list level)
  : list (grids * option grids) :=
  match lvls with
  | [] => []
  | l :: rest =>
    let u := scale_interval sf user in
    let gl := next_grids invalid_bits (lv_ws l) marge sf (fst (lv_left l)) (snd (lv_left l)) (fst u) (snd u)
                         (fst (lv_zoom l)) (snd (lv_zoom l)) in
    let ur := right_interval u in
    let gr := option_map (fun dv => GMap (next_grids invalid_bits (lv_ws l) marge sf (fst dv) (snd dv)
                                                     (fst ur) (snd ur) (fst (lv_zoom l)) (snd (lv_zoom l))))
                         (lv_right l) in
    (GMap gl, gr) :: finer_grids invalid_bits marge sf u rest
  end.

(* pandora.run with a multiscale step: the grids of the n executions of matching_cost_run,
   coarse to fine.  (H, W) = size of the input images: run_prepare derives the first grids
   from the full-resolution disparity variable. *)
Definition run_grids (invalid_bits marge sf dmin dmax H W : Z) (n : nat) (with_right : bool)
           (lvls : list level) : list (grids * option grids) :=
  let i0 := run_prepare_interval dmin dmax sf n in
  let first := scale_interval sf i0 in
  (GConst H W first, if with_right then Some (GConst H W (right_interval first)) else None)
  :: finer_grids invalid_bits marge sf i0 lvls.

(* ------------------------------------------------------------------ images of the scale loop *)

(* prepare_pyramid: pyramid_gaussian / masks_pyramid build level 0 (the original dataset),
   1, ..., n-1, each one reduction of the previous one; the list is reversed (coarse first) *)
Definition pyramid_sizes (n : nat) (H W sf : Z) : list (Z * Z) :=
  rev (map (fun k => (level_size k H sf, level_size k W sf)) (seq 0 n)).

(* run_prepare pops the first dataset; run_multiscale (left call of a multiscale step that
   fires) pops the next one:  left_img = img_left_pyramid.pop(0).  [pops] = number of pops
   done by run_multiscale before the callback execution [e] *)
Definition is_msc_left (e : ev) : bool :=
  match e with Ev _ Msc _ false => true | _ => false end.

Fixpoint annotate (pops : nat) (tr : list ev) : list (ev * nat) :=
  match tr with
  | [] => []
  | e :: r => (e, pops) :: annotate (if is_msc_left e then S pops else pops) r
  end.

(* the image (rows, cols) in machine.left_img / right_img during each callback execution *)
Definition image_sizes (n : nat) (H W sf : Z) (tr : list ev) : list (ev * (Z * Z)) :=
  map (fun ep => (fst ep, nth (snd ep) (pyramid_sizes n H W sf) (0, 0))) (annotate 0 tr).

(* pandora.run returns machine.left_disparity: the disparity dataset has the coordinates of
   the image of the last disparity execution *)
Definition output_size (n : nat) (H W sf : Z) (tr : list ev) : Z * Z :=
  last (map snd (filter (fun ep => match fst ep with Ev _ Dsp _ false => true | _ => false end)
                        (image_sizes n H W sf tr))) (0, 0).
