(* Model of check_configuration.check_pipeline_section restricted to what C05 is about:
   update_conf of the user's pipeline section, then, step by step, the <kind>_check_conf
   callback of PandoraMachine (registry dispatch, class check_conf, band rule for the matching
   cost, interpolation / disparity-grid rules for validation), a second round with the images
   exchanged when a validation step is present, and the final update_conf with the completed
   steps.  Sequencing of the steps is C01's subject: this model is only used on pipelines of
   the documented language, on a fresh machine.  Definitions only. *)
From Coq Require Import ZArith List Bool String Ascii.
From Pandora Require Import Model.Json Model.Checker.
Import ListNotations.
Open Scope string_scope.

(* the step kind is the part of the step name before the first "." *)
Fixpoint kind_of_step (name : string) : string :=
  match name with
  | EmptyString => EmptyString
  | String a r => if Ascii.eqb a "."%char then EmptyString else String a (kind_of_step r)
  end.

Inductive disp_source := SrcNone | SrcList | SrcGrid.

Record images := mkImages {
  bands_left : list jv;      (* coords band_im of the left image: JStr names, or [JNull] *)
  bands_right : list jv;
  src_left : disp_source;    (* attrs["disparity_source"] *)
  src_right : disp_source;
}.

Definition swap_images (i : images) : images :=
  mkImages (bands_right i) (bands_left i) (src_right i) (src_left i).

Definition is_grid (s : disp_source) : bool := match s with SrcGrid => true | _ => false end.

Definition falsy (v : jv) : bool :=
  match v with
  | JNull | JBool false | JStr EmptyString | JList [] | JDict [] => true
  | JInt z => Z.eqb z 0
  | _ => false
  end.

(* PandoraMachine.check_band_pipeline for the band of a matching-cost step (a str or None
   once the class schema has accepted it): no band => the image must be monoband, else the
   band must be one of the image's band names *)
Definition band_ok (band_list : list jv) (band : jv) : bool :=
  if falsy band then Nat.eqb (List.length band_list) 1
  else match band with
       | JStr s => existsb (fun b => match b with JStr t => String.eqb s t | _ => false end) band_list
       | _ => false
       end.

Section Pipeline.
  Variable classes : list class_def.
  Variable interpolation_methods : list string.

  Definition step_full (im : images) (kind : string) (cfg : dict) : option dict :=
    let grids := is_grid (src_left im) || is_grid (src_right im) in
    match step_check no_oracle classes grids kind cfg with
    | None => None
    | Some done =>
      if String.eqb kind "matching_cost" then
        match lookup "band" done with
        | Some b => if band_ok (bands_left im) b && band_ok (bands_right im) b then Some done else None
        | None => None
        end
      else if String.eqb kind "validation" then
        let interp_ok :=
          match lookup "interpolated_disparity" done with
          | None => true
          | Some (JStr m) => mem_str m interpolation_methods
          | Some _ => false
          end in
        let grid_rule := is_grid (src_left im) && match src_right im with SrcNone => true | _ => false end in
        if interp_ok && negb grid_rule then Some done else None
      else if String.eqb kind "filter" then
        (* filter_check_conf then reads filter_.margins: the bilateral filter computes
           int(3 * sigma_space + 1), an OverflowError when sigma_space is +inf *)
        match lookup "filter_method" done, lookup "sigma_space" done with
        | Some (JStr m), Some (JInf false) => if String.eqb m "bilateral" then None else Some done
        | _, _ => Some done
        end
      else Some done
    end.

  Fixpoint check_steps (im : images) (steps : dict) : option dict :=
    match steps with
    | [] => Some []
    | (name, JDict cfg) :: r =>
      match step_full im (kind_of_step name) cfg with
      | Some done =>
        match check_steps im r with
        | Some rest => Some ((name, JDict done) :: rest)
        | None => None
        end
      | None => None
      end
    | _ :: _ => None
    end.

  Definition has_validation (steps : dict) : bool :=
    existsb (fun kv => String.eqb (kind_of_step (fst kv)) "validation") steps.

  (* user : the dictionary given to check_pipeline_section; result: what it returns *)
  Definition pipeline_check (im : images) (user : dict) : option dict :=
    match update_conf [("pipeline", JDict [])] user with
    | None => None
    | Some cfg1 =>
      match lookup "pipeline" cfg1 with
      | Some (JDict steps) =>
        match check_steps im steps with
        | None => None
        | Some done =>
          if has_validation steps && negb (match check_steps (swap_images im) steps with Some _ => true | None => false end)
          then None
          else
            match update_conf cfg1 [("pipeline", JDict done)] with
            | Some cfg2 =>
              match lookup "pipeline" cfg2 with
              | Some p => Some [("pipeline", p)]
              | None => None
              end
            | None => None
            end
        end
      | _ => None
      end
    end.
End Pipeline.
