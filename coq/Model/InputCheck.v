(* C17, second half: model of check_input_section / check_disparities_from_input /
   check_images / check_image_dimension / rasterio_can_open(_mandatory) / update_conf of
   pandora/check_configuration.py, in the code's order, with the class of the exception.

   The json-checker semantics is Model/Checker.v (shared with C05); the schemas and the default
   input configuration are parameters, instantiated with the regenerated Gen/Schemas.v.
   The file system is an oracle: a path is not openable by rasterio, or it has a width, a
   height, a band count and the truth value of (read(1) > read(2)).any().
   Definitions only (no proofs). *)
From Coq Require Import ZArith QArith List Bool String.
From Pandora Require Import Model.Json Model.Checker Model.DatasetCheck.
Import ListNotations.
Open Scope Z_scope.
Open Scope string_scope.

Record finfo := mkF {
  f_w : Z;            (* DatasetReader.width *)
  f_h : Z;            (* DatasetReader.height *)
  f_count : Z;        (* DatasetReader.count *)
  f_gt : bool;        (* (reader.read(1) > reader.read(2)).any() -- only read for 2-band files *)
}.

Definition bind {A B} (r : res A) (k : A -> res B) : res B :=
  match r with Ok a => k a | Raise e => Raise e end.
Notation "'do' x <- r ;; k" := (bind r (fun x => k)) (at level 200, x name, r at level 100, k at level 200).

(* ---- update_conf(def_cfg, user_cfg), faithfully: `config = deepcopy(def_cfg)` may be any
   value; it is only required to be a dict when the user mapping has at least one item
   (config.get -> AttributeError for a Mapping item, config[key] = ... -> TypeError otherwise).
   A Mapping item is merged into config.get(key) when that is itself a Mapping and into {}
   otherwise (no value, or a scalar / list / None default): the user's mapping then takes the
   place of the default and the schema decides. *)
Definition upd_base (ad : dict) (k : string) : jv :=
  match lookup k ad with Some (JDict x) => JDict x | _ => JDict [] end.

Fixpoint upd (dv : jv) (uv : jv) {struct uv} : res jv :=
  match uv with
  | JDict ud =>
    (fix go (l : dict) (acc : jv) {struct l} : res jv :=
       match l with
       | [] => Ok acc
       | (k, v) :: rest =>
         match v with
         | JDict _ =>
           match acc with
           | JDict ad =>
             match upd (upd_base ad k) v with
             | Ok nv => go rest (JDict (set_key k nv ad))
             | Raise e => Raise e
             end
           | _ => Raise EAttribute
           end
         | _ =>
           match acc with
           | JDict ad => go rest (JDict (set_key k (conv_special v) ad))
           | _ => Raise EType
           end
         end
       end) ud dv
  | _ => Raise EAttribute       (* user_cfg.items() on a non-mapping *)
  end.

(* update_conf BEFORE the repair (`config[key] = update_conf(config.get(key, {}), value)` for
   every Mapping item): an EMPTY user mapping over a non-dict default returned the default, a
   non-empty one raised.  Kept for the regression example of Props/C17.v only. *)
Fixpoint upd_before (dv : jv) (uv : jv) {struct uv} : res jv :=
  match uv with
  | JDict ud =>
    (fix go (l : dict) (acc : jv) {struct l} : res jv :=
       match l with
       | [] => Ok acc
       | (k, v) :: rest =>
         match v with
         | JDict _ =>
           match acc with
           | JDict ad =>
             match upd_before (match lookup k ad with Some x => x | None => JDict [] end) v with
             | Ok nv => go rest (JDict (set_key k nv ad))
             | Raise e => Raise e
             end
           | _ => Raise EAttribute
           end
         | _ =>
           match acc with
           | JDict ad => go rest (JDict (set_key k (conv_special v) ad))
           | _ => Raise EType
           end
         end
       end) ud dv
  | _ => Raise EAttribute
  end.

(* v[k] for a string key *)
Definition subscript (v : jv) (k : string) : res jv :=
  match v with
  | JDict d => match lookup k d with Some x => Ok x | None => Raise EKey end
  | _ => Raise EType
  end.

Definition is_list (v : jv) : bool := match v with JList _ => true | _ => false end.
Definition is_str (v : jv) : bool := match v with JStr _ => true | _ => false end.

Definition skey := (string * bool * schema)%type.

(* dict.update on a schema dictionary: replace the value of an existing key, else append *)
Fixpoint set_skey (k : string) (s : schema) (d : list skey) : list skey :=
  match d with
  | [] => [(k, false, s)]
  | (k', o, s') :: r => if String.eqb k k' then (k', o, s) :: r else (k', o, s') :: set_skey k s r
  end.

Definition schema_update (d u : list skey) : list skey :=
  fold_left (fun acc e => set_skey (fst (fst e)) (snd e) acc) u d.

Record input_schemas := mkSchemas {
  s_base_left : list skey;  s_base_right : list skey;       (* input_configuration_schema *)
  s_int_left : list skey;   s_int_right : list skey;        (* ..._integer_disparity *)
  s_gn_left : list skey;    s_gn_right : list skey;         (* ..._left_disparity_grids_right_none *)
  s_gg_left : list skey;    s_gg_right : list skey;         (* ..._left_disparity_grids_right_grids *)
}.

Section Input.
  Variable fs : string -> option finfo.       (* rasterio.open *)
  Variable SC : input_schemas.
  Variable default_input : dict.              (* default_short_configuration_input *)
  Variable images : list string.              (* the list ["mask", "classif", "segm"] of check_images *)

  Definition readable (p : string) : bool := match fs p with Some _ => true | None => false end.

  (* the two named validators of the schemas *)
  Definition orc (name : string) (v : jv) : option bool :=
    if String.eqb name "rasterio_can_open_mandatory" then
      Some (match v with JStr p => readable p | _ => false end)
    else if String.eqb name "rasterio_can_open" then
      Some (match v with
            | JNull => true
            | JStr p => String.eqb p "none" || readable p
            | _ => false
            end)
    else None.

  (* rasterio_open(x) *)
  Definition rasterio_open (v : jv) : res finfo :=
    match v with
    | JStr p => match fs p with Some f => Ok f | None => Raise EIO end
    | _ => Raise EType
    end.

  Definition check_image_dimension (a b : finfo) : res unit :=
    if negb (Z.eqb (f_w a) (f_w b)) || negb (Z.eqb (f_h a) (f_h b)) then Raise EAttribute else Ok tt.

  Definition check_disparities_from_input (disp img : jv) : res unit :=
    match disp with
    | JList l =>
      if negb (Nat.eqb (List.length l) 2) then Raise EValue
      else
        match num_of (nth 1 l JNull), num_of (nth 0 l JNull) with
        | Some hi, Some lo => if num_lt hi lo then Raise EValue else Ok tt
        | _, _ => Raise EType        (* unreachable after the schema: elements are ints *)
        end
    | JStr _ =>
      do fi <- rasterio_open img ;;
      do fd <- rasterio_open disp ;;
      if negb (Z.eqb (f_count fd) (2)) then Raise EAttribute
      else if negb (Z.eqb (f_w fd) (f_w fi)) || negb (Z.eqb (f_h fd) (f_h fi)) then Raise EAttribute
      else if f_gt fd then Raise EValue
      else Ok tt
    | _ => Ok tt
    end.

  (* `if img in side and side[img] is not None: check_image_dimension(ref, rasterio_open(side[img]))` *)
  Definition check_optional (ref : finfo) (side : jv) (img : string) : res unit :=
    match side with
    | JDict d =>
      match lookup img d with
      | None | Some JNull => Ok tt
      | Some v => do f <- rasterio_open v ;; check_image_dimension ref f
      end
    | _ => Raise EType
    end.

  Definition check_images (inp : jv) : res unit :=
    do l <- subscript inp "left" ;;
    do limg <- subscript l "img" ;;
    do fl <- rasterio_open limg ;;
    do r <- subscript inp "right" ;;
    do rimg <- subscript r "img" ;;
    do fr <- rasterio_open rimg ;;
    andthen (check_image_dimension fl fr)
    ((fix loop (names : list string) : res unit :=
       match names with
       | [] => Ok tt
       | img :: rest => andthen (check_optional fl l img) (andthen (check_optional fr r img) (loop rest))
       end) images).

  (* the schema the call validates against *)
  Definition chosen_schema (left_disp_is_list right_disp_is_str : bool) : schema :=
    let '(cl, cr) :=
      if left_disp_is_list then (s_int_left SC, s_int_right SC)
      else if right_disp_is_str then (s_gg_left SC, s_gg_right SC)
      else (s_gn_left SC, s_gn_right SC) in
    SDict [("input", false,
            SDict [("left", false, SDict (schema_update (s_base_left SC) cl));
                   ("right", false, SDict (schema_update (s_base_right SC) cr))])].

  (* everything check_input_section does after update_conf *)
  Definition check_completed (cfg : jv) : res unit :=
    do inp <- subscript cfg "input" ;;
    do l <- subscript inp "left" ;;
    do ld <- subscript l "disp" ;;
    do rstr <- (if is_list ld then Ok false
                else do r <- subscript inp "right" ;; do rd <- subscript r "disp" ;; Ok (is_str rd)) ;;
    if negb (accepts orc (chosen_schema (is_list ld) rstr) cfg) then Raise ESchema
    else
      do limg <- subscript l "img" ;;
      andthen (check_disparities_from_input ld limg)
      (do r <- subscript inp "right" ;;
       do rd <- subscript r "disp" ;;
       do rimg <- subscript r "img" ;;
       andthen (check_disparities_from_input rd rimg)
               (check_images inp)).

  Definition check_input_section (user : jv) : res jv :=
    do cfg <- upd (JDict default_input) user ;;
    do _ <- check_completed cfg ;;
    Ok cfg.
End Input.

(* get_config_input(user_cfg): `cfg = {}; if "input" in user_cfg: cfg["input"] = user_cfg["input"]` *)
Definition get_config_input (user : jv) : res jv :=
  match user with
  | JDict d => match lookup "input" d with Some v => Ok (JDict [("input", v)]) | None => Ok (JDict []) end
  | JList l =>                               (* membership, then list["input"] -> TypeError *)
    if existsb (fun x => match x with JStr k => String.eqb k "input" | _ => false end) l
    then Raise EType else Ok (JDict [])
  | JStr s =>                                (* substring test, then str["input"] -> TypeError *)
    match String.index 0 "input" s with Some _ => Raise EType | None => Ok (JDict []) end
  | _ => Raise EType                         (* argument of type ... is not iterable *)
  end.

(* ---- pandora.main / check_conf as sequences of calls (names from Gen/InputFlow.v): the
   calls run in order and the first one that raises ends the run. *)
Section Seq.
  Variable raises : string -> bool.       (* does this call raise on the given input *)

  (* the calls that are started, in order *)
  Fixpoint started (calls : list string) : list string :=
    match calls with
    | [] => []
    | c :: rest => c :: (if raises c then [] else started rest)
    end.
End Seq.

Fixpoint index_str (s : string) (l : list string) : option nat :=
  match l with
  | [] => None
  | x :: r => if String.eqb s x then Some O
              else match index_str s r with Some n => Some (S n) | None => None end
  end.
