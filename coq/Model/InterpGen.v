(* C14: the pixel bodies and the call plans regenerated from the Python source (Gen/InterpKernels.v)
   plugged into the hand-written glue of Model/Interp.v: a kernel = np.copy of its two inputs, then
   its pixel body on every (col, row) of the map, each iteration writing its own output pixel only
   (checked on the source by the translator) -- [kernel_disp] / [kernel_val]; a method = its kernels
   in the order of its call plan, each on the arrays the previous one returned, then mask_border
   when the plan says so and offset_row_col > 0.

   Definitions only; the proofs are in Proofs/InterpGenP.v. *)
From Coq Require Import ZArith QArith List Bool.
From Pandora Require Import Lib.FloatQ Model.CrossCheck Model.Interp Model.InterpPrims.
From Pandora Require Gen.InterpKernels.
Import ListNotations.
Open Scope Z_scope.

Module G := Pandora.Gen.InterpKernels.

(* the generated pixel body of a kernel *)
Definition gpixel (k : kname) (n0 n1 : Z) (disp : Z -> Z -> option Q) (valid : Z -> Z -> Z) : Z -> Z -> option Q * Z :=
  match k with
  | KOccMc => G.occ_mc_pixel n0 n1 disp valid
  | KMisMc => G.mis_mc_pixel n0 n1 disp valid
  | KOccSgm => G.occ_sgm_pixel n0 n1 disp valid
  | KMisSgm => G.mis_sgm_pixel n0 n1 disp valid
  end.

(* one kernel call: (out_disp, out_val) from (disp, valid) *)
Definition grun_kernel (n0 n1 : Z) (dv : (Z -> Z -> option Q) * (Z -> Z -> Z)) (k : kname)
  : (Z -> Z -> option Q) * (Z -> Z -> Z) :=
  let px := gpixel k n0 n1 (fst dv) (snd dv) in
  (kernel_disp n0 n1 px, kernel_val n0 n1 px).

Definition gplan (m : method) : list kname * bool :=
  match m with McCnn => G.mc_cnn_plan | Sgm => G.sgm_plan end.

(* interpolated_disparity(left) of the method, from the generated plan and pixel bodies *)
Definition ginterp (m : method) (n0 n1 off : Z) (disp : Z -> Z -> option Q) (valid : Z -> Z -> Z)
  : (Z -> Z -> option Q) * (Z -> Z -> Z) :=
  let dv := fold_left (grun_kernel n0 n1) (fst (gplan m)) (disp, valid) in
  (fst dv, if snd (gplan m) && (0 <? off) then mask_border n0 n1 off (snd dv) else snd dv).
