(* Model of pandora/img_tools.py: create_dataset_from_inputs, add_disparity, add_classif,
   add_segm, add_no_data, add_mask, get_metadata (the part of the image dataset that C16
   speaks about).  get_window itself is NOT written here: Gen/Window.v is regenerated from
   the source on every run; this file only gives its result type and the contract of the
   rasterio.windows.Window constructor it ends with.

   Conventions: a 2-D array is a record {nr; nc; px}; reads outside [0,nr) x [0,nc) are
   whatever [px] returns and every theorem carries the in-range condition.  A float32
   sample is NaN, +-inf or an exact rational.  Definitions only (no proofs). *)
From Coq Require Import ZArith QArith List Bool.
Import ListNotations.
Open Scope Z_scope.

(* ------------------------------------------------------------------ windows *)

(* result of img_tools.get_window: a rasterio Window(col_off, row_off, width, height), the
   ValueError "Roi specified is outside the image", or the ValueError raised by the Window
   constructor itself for a negative width/height *)
Inductive window_result :=
| Window (col_off row_off w h : Z)
| RaiseOutside
| RaiseNegative.

(* rasterio.windows.Window.__init__ : "Number of columns or rows must be non-negative" *)
Definition mk_window (col_off row_off w h : Z) : window_result :=
  if (w <? 0) || (h <? 0) then RaiseNegative else Window col_off row_off w h.

(* ------------------------------------------------------------------ arrays *)

Record arr (A : Type) := mkArr { nr : Z; nc : Z; px : Z -> Z -> A }.
Arguments mkArr {A}. Arguments nr {A}. Arguments nc {A}. Arguments px {A}.

(* np.arange(off, n + off) *)
Definition zrange (off n : Z) : list Z := map (fun i => off + Z.of_nat i) (seq 0 (Z.to_nat n)).

Definition const_arr {A} (h w : Z) (v : A) : arr A := mkArr h w (fun _ _ => v).

(* a[np.where(cond)] = v *)
Definition assign_where {A} (a : arr A) (cond : Z -> Z -> bool) (v : A) : arr A :=
  mkArr (nr a) (nc a) (fun r c => if cond r c then v else px a r c).

(* rasterio: DatasetReader.read(..., window=Window(co, ro, w, h)) returns the sub-array
   (the stated rasterio assumption of C16); window=None reads the whole band *)
Definition read {A} (win : option (Z * Z * Z * Z)) (a : arr A) : arr A :=
  match win with
  | None => a
  | Some (co, ro, w, h) => mkArr h w (fun r c => px a (ro + r) (co + c))
  end.

(* ------------------------------------------------------------------ samples *)

Inductive sample := SNaN | SInf (pos : bool) | SFin (q : Q).

Definition is_nan (s : sample) : bool := match s with SNaN => true | _ => false end.
Definition is_inf (s : sample) : bool := match s with SInf _ => true | _ => false end.
(* IEEE == : NaN is equal to nothing *)
Definition ieee_eqb (a b : sample) : bool :=
  match a, b with
  | SFin x, SFin y => Qeq_bool x y
  | SInf p, SInf q => Bool.eqb p q
  | _, _ => false
  end.

(* create_dataset_from_inputs, "No data": the three-way test
     if np.isnan(no_data): isnan(im)  elif np.isinf(no_data): isinf(im)  else: im == no_data *)
Definition nodata_test (nd s : sample) : bool :=
  match nd with
  | SNaN => is_nan s
  | SInf _ => is_inf s
  | SFin _ => ieee_eqb s nd
  end.

Definition special (nd : sample) : bool := is_nan nd || is_inf nd.

Definition minus9999 : sample := SFin (-9999 # 1).

(* no_data_pixels[0].size != 0 : some sample of some band passes the test *)
Definition any_px (p : sample -> bool) (data : list (arr sample)) : bool :=
  existsb (fun a => existsb (fun r => existsb (fun c => p (px a r c)) (zrange 0 (nc a)))
                            (zrange 0 (nr a))) data.

(* add_no_data: dataset["im"].data[no_data_pixels] = -9999 when the nodata value is NaN/inf
   and there is at least one such pixel; attrs["no_data_img"] *)
Definition add_no_data_im (nd : sample) (any : bool) (data : list (arr sample)) : list (arr sample) :=
  if any && special nd
  then map (fun a => assign_where a (fun r c => nodata_test nd (px a r c)) minus9999) data
  else data.
Definition add_no_data_attr (nd : sample) (any : bool) : sample :=
  if any && special nd then minus9999 else nd.

(* ------------------------------------------------------------------ mask *)

Definition valid_pixels : Z := 0.
Definition no_data_mask : Z := 1.

(* add_mask: the test applied to the input mask: np.where(input_mask != 0) *)
Definition mask_test (v : Z) : bool := negb (v =? 0).

(* (no_data_pixels[-2], no_data_pixels[-1]): the pixel is listed when some band matches *)
Definition nd_pixel (nd : sample) (data : list (arr sample)) (r c : Z) : bool :=
  existsb (fun a => nodata_test nd (px a r c)) data.

Definition add_mask (ny nx : Z) (mask : option (arr Z)) (any : bool) (ndp : Z -> Z -> bool)
  : option (arr Z) :=
  match mask, any with
  | None, false => None
  | _, _ =>
    let m0 := const_arr ny nx valid_pixels in
    let m1 := match mask with
              | None => m0
              | Some im => assign_where m0 (fun r c => mask_test (px im r c))
                                        (valid_pixels + no_data_mask + 1)
              end in
    Some (assign_where m1 ndp no_data_mask)
  end.

(* ------------------------------------------------------------------ inputs / dataset *)

Inductive disp_input :=
| DispNone                                   (* no "disp" key, or None *)
| DispPair (dmin dmax : Z)                   (* [min, max] *)
| DispGrid (gmin gmax : arr sample).         (* the two bands of the grid file *)

Record inputs := mkIn {
  i_img : list (arr sample);                 (* bands of the image file, read as float32 *)
  i_names : list Z;                          (* band descriptions of the image file *)
  i_nodata : sample;
  i_mask : option (arr Z);                   (* band 1 of the mask file *)
  i_disp : disp_input;
  i_classif : option (list Z * list (arr Z)); (* descriptions and bands of the classif file *)
  i_segm : option (arr Z) }.

Record dataset := mkDs {
  d_im : list (arr sample);                  (* one array per band *)
  d_band_im : option (list Z);               (* band_im coordinate; absent for one band *)
  d_row : list Z;
  d_col : list Z;
  d_nodata : sample;                         (* attrs["no_data_img"] *)
  d_msk : option (arr Z);
  d_disp : option (arr sample * arr sample);
  d_classif : option (list Z * list (arr Z));
  d_segm : option (arr Z) }.

Definition sz (z : Z) : sample := SFin (inject_Z z).

(* shape of the data that was read: data.shape *)
Definition shape_of (data : list (arr sample)) : Z * Z :=
  match data with a :: _ => (nr a, nc a) | [] => (0, 0) end.

Definition add_disparity (ny nx : Z) (win : option (Z * Z * Z * Z)) (d : disp_input)
  : option (arr sample * arr sample) :=
  match d with
  | DispNone => None
  | DispPair a b => Some (const_arr ny nx (sz a), const_arr ny nx (sz b))
  | DispGrid g1 g2 => Some (read win g1, read win g2)
  end.

Definition offsets (win : option (Z * Z * Z * Z)) : Z * Z :=
  match win with Some (co, ro, _, _) => (co, ro) | None => (0, 0) end.

(* create_dataset_from_inputs(input_config, roi) once the window is known *)
Definition create_dataset (inp : inputs) (win : option (Z * Z * Z * Z)) : dataset :=
  let '(col_off, row_off) := offsets win in
  let data := map (read win) (i_img inp) in
  let '(ny, nx) := shape_of data in
  let nd := i_nodata inp in
  let any := any_px (nodata_test nd) data in
  mkDs (add_no_data_im nd any data)
       (match data with [_] => None | _ => Some (i_names inp) end)
       (zrange row_off ny)
       (zrange col_off nx)
       (add_no_data_attr nd any)
       (add_mask ny nx (option_map (read win) (i_mask inp)) any (nd_pixel nd data))
       (add_disparity ny nx win (i_disp inp))
       (option_map (fun nb => (fst nb, map (read win) (snd nb))) (i_classif inp))
       (option_map (read win) (i_segm inp)).

(* get_metadata(img, disparity, classif, segm): coordinates and the optional variables *)
Definition get_metadata (inp : inputs) : list Z * list Z * list Z :=
  let '(ny, nx) := shape_of (i_img inp) in
  (i_names inp, zrange 0 ny, zrange 0 nx).
