(* Model of the sequencing layer of Pandora:
     pandora/state_machine.py  (PandoraMachine.check_conf / run / run_prepare / run_exit,
                                remove_transitions, is_not_last_scale)
     pandora/__init__.py       (run: the scale loop with its `break`)
   and of the part of the `transitions` library they rely on
   (Machine.add_transitions / remove_transition / trigger with
    auto_transitions=False and ignore_invalid_triggers unset).

   The two transition tables are NOT written here: they are parameters, and
   Gen/Tables.v (regenerated from /repo on every run) supplies them.
   This file contains definitions only (no proofs), so that it still runs
   for the correspondence check when a proof breaks. *)
From Coq Require Import ZArith List Bool.
Import ListNotations.
Open Scope Z_scope.

Inductive state := Begin | CostVolume | DispMap.
Inductive kind := MC | Agg | Seg | Opt | Dsp | Flt | Ref | Val | Msc | Cvc.
Inductive phase := PCheck | PRun.

Definition state_eqb (a b : state) : bool :=
  match a, b with
  | Begin, Begin | CostVolume, CostVolume | DispMap, DispMap => true
  | _, _ => false
  end.

Definition kind_code (k : kind) : Z :=
  match k with
  | MC => 0 | Agg => 1 | Seg => 2 | Opt => 3 | Dsp => 4
  | Flt => 5 | Ref => 6 | Val => 7 | Msc => 8 | Cvc => 9
  end.
Definition kind_eqb (a b : kind) : bool := Z.eqb (kind_code a) (kind_code b).
Definition phase_eqb (a b : phase) : bool :=
  match a, b with PCheck, PCheck | PRun, PRun => true | _, _ => false end.

Definition all_kinds : list kind := [MC; Agg; Seg; Opt; Dsp; Flt; Ref; Val; Msc; Cvc].
Definition all_states : list state := [Begin; CostVolume; DispMap].

(* One entry of a transition table.  [t_cond] = the entry carries the
   condition "is_not_last_scale". The trigger name is (phase, kind):
   "check_<kind>" for PCheck, "<kind>" for PRun. *)
Record transition := mkT {
  t_phase : phase; t_kind : kind; t_src : state; t_dst : state; t_cond : bool }.

Inductive fired := Fired (d : state) | CondFalse | NoTransition | UnknownEvent.

(* transitions.Event._process: the transitions registered for the current
   source state are tried in registration order; the first whose conditions
   pass is executed. *)
Fixpoint first_passing (ts : list transition) (cond : bool) : fired :=
  match ts with
  | [] => CondFalse
  | t :: r => if implb (t_cond t) cond then Fired (t_dst t) else first_passing r cond
  end.

Definition same_trigger (ph : phase) (k : kind) (t : transition) : bool :=
  phase_eqb (t_phase t) ph && kind_eqb (t_kind t) k.

(* Machine.trigger(name): unknown event -> AttributeError; event known but no
   transition from the current state -> MachineError; all conditions false ->
   returns False silently. *)
Definition fire (regs : list transition) (st : state) (ph : phase) (k : kind) (cond : bool) : fired :=
  match filter (same_trigger ph k) regs with
  | [] => UnknownEvent
  | ev =>
    match filter (fun t => state_eqb (t_src t) st) ev with
    | [] => NoTransition
    | ts => first_passing ts cond
    end
  end.

(* A configured step: [s_kind] is the kind spelled by name.split(".")[0]
   (None when it is not one of the ten kinds), [s_id] identifies the full
   name. *)
Record step := mkStep { s_id : Z; s_kind : option kind }.

Record machine := mkM {
  m_st : state;
  m_regs : list transition;      (* registered transitions, registration order *)
  m_rdm : bool;                  (* right_disp_map is set *)
  m_scale : Z }.                 (* current_scale *)

Definition machine0 : machine := mkM Begin [] false 0.

Definition set_st (m : machine) (s : state) := mkM s (m_regs m) (m_rdm m) (m_scale m).
Definition set_regs (m : machine) (r : list transition) := mkM (m_st m) r (m_rdm m) (m_scale m).
Definition set_rdm (m : machine) (b : bool) := mkM (m_st m) (m_regs m) b (m_scale m).
Definition set_scale (m : machine) (z : Z) := mkM (m_st m) (m_regs m) (m_rdm m) z.

(* PandoraMachine.remove_transitions(tbl): Machine.remove_transition(trigger)
   for every trigger name of the table: every registered transition with such
   a trigger goes. *)
Definition remove_table (tbl regs : list transition) : list transition :=
  filter (fun t => negb (existsb (same_trigger (t_phase t) (t_kind t)) tbl)) regs.

Definition is_kind (k : kind) (s : step) : bool :=
  match s_kind s with Some k' => kind_eqb k' k | None => false end.
Definition has_kind (k : kind) (p : list step) : bool := existsb (is_kind k) p.

Section WithTables.
  Variable check_tbl : list transition.
  Variable run_tbl : list transition.
  (* parameter validity of a step, as seen by its <step>_check_conf callback;
     the boolean says whether the two images are exchanged (second round). *)
  Variable step_ok : step -> bool -> bool.

  (* ---------------- check_conf ---------------- *)

  Fixpoint check_steps (m : machine) (swapped : bool) (p : list step) : machine * bool :=
    match p with
    | [] => (m, true)
    | s :: r =>
      match s_kind s with
      | None => (m, false)                          (* AttributeError: unknown event *)
      | Some k =>
        match fire (m_regs m) (m_st m) PCheck k true with
        | Fired d =>
          let m1 := set_st m d in
          if step_ok s swapped then
            check_steps (if kind_eqb k Val then set_rdm m1 true else m1) swapped r
          else (m1, false)                          (* the callback raised *)
        | CondFalse => check_steps m swapped r
        | NoTransition | UnknownEvent => (m, false) (* MachineError / AttributeError *)
        end
      end
    end.

  Definition check_round (m : machine) (swapped : bool) (p : list step) : machine * bool :=
    let m0 := set_regs m (m_regs m ++ check_tbl) in
    let '(m1, ok) := check_steps m0 swapped p in
    if ok then (set_st (set_regs m1 (remove_table check_tbl (m_regs m1))) Begin, true)
    else (m1, false).

  Inductive check_result := Accepted (m : machine) | Rejected (m : machine).

  (* PandoraMachine.check_conf (first round): a check starts from a clean
     request, `self.right_disp_map = None` (with pipeline_cfg and margins, which
     this model does not carry: Model/History.v and Model/Margins.v do), so
     nothing of a pipeline checked or run before on the same object leaks into
     this one.  The second round (images exchanged) runs iff a validation step
     of THIS pipeline set right_disp_map during the first round. *)
  Definition check_conf (m : machine) (p : list step) : check_result :=
    let '(m1, ok) := check_round (set_rdm m false) false p in
    if negb ok then Rejected m1
    else if m_rdm m1 then
      let '(m2, ok2) := check_round m1 true p in
      if ok2 then Accepted m2 else Rejected m2
    else Accepted m1.

  (* The same function as it was BEFORE the repair (fix: "a configuration check
     starts from a clean machine"): the right-disparity request of an earlier
     pipeline was kept.  Only used by the refuted-before-fix witness of
     Props/C01.v. *)
  Definition check_conf_before (m : machine) (p : list step) : check_result :=
    let '(m1, ok) := check_round m false p in
    if negb ok then Rejected m1
    else if m_rdm m1 then
      let '(m2, ok2) := check_round m1 true p in
      if ok2 then Accepted m2 else Rejected m2
    else Accepted m1.

  (* ---------------- run ---------------- *)

  (* one callback execution: step id, kind, scale, on the right data? *)
  Inductive ev := Ev (id : Z) (k : kind) (scale : Z) (right : bool).

  Inductive status := Cont | Broke | Err.

  Definition evs (rdm : bool) (scale : Z) (id : Z) (k : kind) : list ev :=
    Ev id k scale false :: (if rdm then [Ev id k scale true] else []).

  (* the inner loop of pandora.run:  for elem in pipeline: machine.run(elem);
     if machine.state == "begin": break *)
  Fixpoint run_steps (m : machine) (p : list step) (tr : list ev) : machine * list ev * status :=
    match p with
    | [] => (m, tr, Cont)
    | s :: r =>
      match s_kind s with
      | None => (m, tr, Err)
      | Some k =>
        match fire (m_regs m) (m_st m) PRun k (negb (m_scale m =? 0)) with
        | Fired d =>
          let m1 := set_st m d in
          (* validation_run needs the right disparity map *)
          if kind_eqb k Val && negb (m_rdm m) then (m1, tr, Err)
          else
            let tr1 := tr ++ evs (m_rdm m) (m_scale m) (s_id s) k in
            let m2 := if kind_eqb k Msc then set_scale m1 (m_scale m1 - 1) else m1 in
            if state_eqb d Begin then (m2, tr1, Broke) else run_steps m2 r tr1
        | CondFalse =>
          if state_eqb (m_st m) Begin then (m, tr, Broke) else run_steps m r tr
        | NoTransition | UnknownEvent => (m, tr, Err)
        end
      end
    end.

  Fixpoint scale_loop (n : nat) (m : machine) (p : list step) (tr : list ev)
    : machine * list ev * bool :=
    match n with
    | O => (m, tr, true)
    | S n' =>
      let '(m1, tr1, stt) := run_steps m p tr in
      match stt with
      | Err => (m1, tr1, false)
      | _ => scale_loop n' m1 p tr1
      end
    end.

  Inductive run_result := RunOk (m : machine) (tr : list ev) | RunError (m : machine) (tr : list ev).

  (* pandora.run(machine, left, right, cfg) with num_scales = n (n >= 1;
     n = 1 when there is no multiscale step) *)
  Definition run_from (m0 : machine) (p : list step) (n : nat) : run_result :=
    let '(m1, tr, ok) := scale_loop n m0 p [] in
    if ok then RunOk (set_st (set_regs m1 (remove_table run_tbl (m_regs m1))) Begin) tr
    else RunError m1 tr.

  (* run_prepare: right_disp_map is the request of THIS pipeline (the
     validation_method of its first validation step, None when it has none) *)
  Definition run (m : machine) (p : list step) (n : nat) : run_result :=
    run_from (mkM (m_st m) (m_regs m ++ run_tbl) (has_kind Val p) (Z.of_nat n - 1)) p n.

  (* run_prepare BEFORE the repair: right_disp_map was only ever set, never
     reset (`if validation_steps: self.right_disp_map = ...` without else).
     Only used by the refuted-before-fix witness of Props/C01.v. *)
  Definition run_before (m : machine) (p : list step) (n : nat) : run_result :=
    run_from (mkM (m_st m) (m_regs m ++ run_tbl) (m_rdm m || has_kind Val p) (Z.of_nat n - 1)) p n.

End WithTables.
