(* C17: the models of Model/DatasetCheck.v and Model/InputCheck.v instantiated with the data
   regenerated from the tree under test (Gen/Schemas.v, Gen/InputFlow.v).  Definitions only. *)
From Coq Require Import List String.
From Pandora Require Import Model.Json Model.Checker Model.DatasetCheck Model.InputCheck
  Gen.Schemas Gen.InputFlow.
Import ListNotations.

Definition gen_schemas : input_schemas :=
  mkSchemas input_configuration_schema_left input_configuration_schema_right
            input_configuration_schema_integer_disparity_left
            input_configuration_schema_integer_disparity_right
            input_configuration_schema_left_disparity_grids_right_none_left
            input_configuration_schema_left_disparity_grids_right_none_right
            input_configuration_schema_left_disparity_grids_right_grids_left
            input_configuration_schema_left_disparity_grids_right_grids_right.

(* check_configuration.check_datasets of the tree under test *)
Definition pandora_check_datasets (l r : dataset) : res unit :=
  check_datasets mandatory_attributes l r.

(* check_configuration.check_input_section of the tree under test, and its part after update_conf *)
Definition pandora_check_completed (fs : string -> option finfo) (cfg : jv) : res unit :=
  check_completed fs gen_schemas images_checked cfg.

Definition pandora_check_input_section (fs : string -> option finfo) (user : jv) : res jv :=
  check_input_section fs gen_schemas default_short_configuration_input images_checked user.

(* what check_conf does with the user configuration before anything else *)
Definition pandora_check_conf_input (fs : string -> option finfo) (user : jv) : res jv :=
  bind (get_config_input user) (pandora_check_input_section fs).
