(* Semantics of the Python / numpy / xarray / rasterio / json constructs met by translator/gen_save_fns.py in
     pandora/common.py            write_data_array, save_results, save_config
     pandora/output_tree_design.py get_out_dir, get_out_file_path
     pandora/check_configuration.py read_config_file
     pandora/__init__.py          main
   The generated file coq/Gen/SaveFns.v is a statement-by-statement translation of those bodies into terms over the
   definitions below; Proofs/SaveGenP.v proves at every run that the generated functions compute what the
   hand-written models (Model/Save.v, Model/SaveMain.v) compute, for ALL inputs.

   A Python function that returns nothing and writes files is a function into [option (list effect)]: None = a
   statement raises, Some fx = the files closed, in order.  Definitions only. *)
From Coq Require Import ZArith QArith List Bool String Ascii.
From Pandora Require Import Model.Json Model.JsonText Model.Save.
Import ListNotations.
Open Scope Z_scope.

(* ---- the error monad of the generated code *)
Definition bind {A B : Type} (x : option A) (f : A -> option B) : option B :=
  match x with Some a => f a | None => None end.
Notation "x <- e ;; r" := (bind e (fun x => r)) (at level 61, e at next level, right associativity).

(* ---- Python built-ins *)
Definition py_len {A : Type} (l : list A) : Z := Z.of_nat (List.length l).

(* range(a, b) *)
Definition zrange (a b : Z) : list Z := map (fun i => a + Z.of_nat i) (seq 0 (Z.to_nat (b - a))).

(* for i in l: s = body(i, s)   (s = the variables the body assigns) *)
Fixpoint for_each {S : Type} (l : list Z) (s : S) (body : Z -> S -> option S) : option S :=
  match l with
  | [] => Some s
  | i :: r => bind (body i s) (fun s' => for_each r s' body)
  end.

(* a, b = t  /  a, b, c = t : ValueError unless t has exactly that many items *)
Definition unpack2 (l : list Z) : option (Z * Z) := match l with [a; b] => Some (a, b) | _ => None end.
Definition unpack3 (l : list Z) : option (Z * Z * Z) := match l with [a; b; c] => Some (a, b, c) | _ => None end.

(* d[k] on a str -> str dictionary (KeyError = None) *)
Definition map_get (d : list (string * string)) (k : string) : option string := otd_lookup k d.

(* os.path.join(a, b) (posix) *)
Definition starts_with_slash (s : string) : bool :=
  match s with String c _ => Ascii.eqb c "/"%char | EmptyString => false end.
Fixpoint ends_with_slash (s : string) : bool :=
  match s with
  | EmptyString => false
  | String c EmptyString => Ascii.eqb c "/"%char
  | String _ r => ends_with_slash r
  end.
Definition path_join (a b : string) : string :=
  if starts_with_slash b then b
  else match a with
       | EmptyString => b
       | _ => if ends_with_slash a then (a ++ b)%string else (a ++ "/" ++ b)%string
       end.

(* ---- numpy arrays of 2 or 3 dimensions: Model.Save.arr (A2 rows | A3 depth rows-of-pixel-vectors) *)
Definition ncols {A : Type} (d : list (list A)) : Z := match d with [] => 0 | r :: _ => py_len r end.

(* a.shape ; the number of columns of an array without rows is not recoverable from the nested lists (read as 0) *)
Definition arr_shape (a : arr) : list Z :=
  match a with
  | A2 d => [py_len d; ncols d]
  | A3 depth d => [py_len d; ncols d; Z.of_nat depth]
  end.

(* a[:, :, k] : IndexError (None) on a 2-D array or when k is outside [-depth, depth); negative k counts from the end *)
Definition nd_slice_last (a : arr) (k : Z) : option arr :=
  match a with
  | A2 _ => None
  | A3 depth d =>
    let n := Z.of_nat depth in
    if (0 <=? k) && (k <? n) then Some (A2 (slice3 (Z.to_nat k) d))
    else if (- n <=? k) && (k <? 0) then Some (A2 (slice3 (Z.to_nat (k + n)) d))
    else None
  end.

(* ---- xarray.DataArray: the values and the `indicator` coordinate when it has one *)
Record xda := mkXda { xa_arr : arr; xa_indicator : option (list string) }.
Definition xda_shape (a : xda) : list Z := arr_shape (xa_arr a).
Definition xda_data (a : xda) : arr := xa_arr a.
(* a["<coord>"].data (KeyError = None) *)
Definition xda_coord (a : xda) (c : string) : option (list string) :=
  if String.eqb c "indicator" then xa_indicator a else None.

(* ---- configuration values (Model/Json.v jv) as Python objects *)
(* v[k] on a dictionary (KeyError / TypeError = None) *)
Definition jv_get (v : jv) (k : string) : option jv :=
  match v with JDict d => lookup k d | _ => None end.
(* v[i] on a list *)
Definition jv_idx (v : jv) (i : Z) : option jv :=
  match v with
  | JList l =>
    let n := py_len l in
    if (0 <=? i) && (i <? n) then nth_error l (Z.to_nat i)
    else if (- n <=? i) && (i <? 0) then nth_error l (Z.to_nat (i + n))
    else None
  | _ => None
  end.
Definition jv_is_none (v : jv) : bool := match v with JNull => true | _ => false end.
(* isinstance(v, str) *)
Definition jv_is_str (v : jv) : bool := match v with JStr _ => true | _ => false end.
(* -v (TypeError = None) *)
Definition jv_neg (v : jv) : option jv :=
  match v with
  | JInt z => Some (JInt (- z))
  | JBool b => Some (JInt (if b then -1 else 0))
  | JFloat q => Some (JFloat (Qred (- q)))
  | JNan => Some JNan
  | JInf b => Some (JInf (negb b))
  | _ => None
  end.
(* dict(v): a new dictionary with the same items (shallow copy) *)
Definition jv_dict_copy (v : jv) : option jv := match v with JDict d => Some (JDict d) | _ => None end.
(* v[k] = x *)
Definition jv_set (v : jv) (k : string) (x : jv) : option jv :=
  match v with JDict d => Some (JDict (set_key k x d)) | _ => None end.
(* root[p1]...[pn][k] = x, seen from root (a store through a variable that refers to root[p1]...[pn]) *)
Fixpoint jv_set_path (v : jv) (p : list string) (k : string) (x : jv) : option jv :=
  match p with
  | [] => jv_set v k x
  | a :: r => bind (jv_get v a) (fun sub => bind (jv_set_path sub r k x) (fun sub' => jv_set v a sub'))
  end.
Fixpoint jv_get_path (v : jv) (p : list string) : option jv :=
  match p with
  | [] => Some v
  | a :: r => bind (jv_get v a) (fun sub => jv_get_path sub r)
  end.

(* ---- text files *)
Record wtext := mkWt { t_path : string; t_text : string }.
(* open(path, mode) for writing *)
Definition open_w (path mode : string) : option wtext :=
  if String.eqb mode "w" then Some (mkWt path EmptyString) else None.
(* json.dump(obj, fp, indent=n): Model/JsonText.print gives the text up to the blanks and newlines that indent
   inserts between tokens (json.load skips them; the harness compares print with json.dumps(., indent=2) up to that
   white space on every run).  Every other keyword of json.dump is outside this model (the translator refuses it). *)
Definition json_dump (v : jv) (f : wtext) (indent : option Z) : option wtext :=
  Some (mkWt (t_path f) (t_text f ++ print v)).
(* json.load(fp) on the text of a file *)
Definition json_load (text : string) : option jv := parse text.

Section Prims.
  Variable rnd : Q -> Q.          (* the float32 rounding of the writer's cast (Model/Save.v) *)
  Variables C T : Type.           (* rasterio.crs.CRS or None, rasterio.Affine or None *)
  Notation G := (C * T)%type.

  (* ---- xarray.Dataset of products; None = the empty Dataset xr.Dataset() *)
  Definition xds := option (product G).

  (* ds["<var>"] (KeyError = None) *)
  Definition ds_get (ds : xds) (v : string) : option xda :=
    match ds with
    | None => None
    | Some p =>
      if String.eqb v "disparity_map" then Some (mkXda (A2 (p_disp p)) None)
      else if String.eqb v "validity_mask" then Some (mkXda (A2 (p_mask p)) None)
      else if String.eqb v "confidence_measure" then
        match p_conf p with
        | Some (names, d) => Some (mkXda (A3 (List.length names) d) (Some names))
        | None => None
        end
      else None
    end.
  (* "<var>" in ds *)
  Definition ds_has (ds : xds) (v : string) : bool := match ds_get ds v with Some _ => true | None => false end.
  (* ds.sizes (dimension -> length) *)
  Definition ds_sizes (ds : xds) : list (string * Z) :=
    match ds with
    | None => []
    | Some p =>
      [("row"%string, py_len (p_disp p)); ("col"%string, ncols (p_disp p))]
      ++ match p_conf p with Some (names, _) => [("indicator"%string, py_len names)] | None => [] end
    end.
  (* ds.attrs["crs"], ds.attrs["transform"] (KeyError on the empty Dataset) *)
  Definition ds_attr_crs (ds : xds) : option C := match ds with Some p => Some (fst (p_geo p)) | None => None end.
  Definition ds_attr_transform (ds : xds) : option T := match ds with Some p => Some (snd (p_geo p)) | None => None end.

  (* ---- a GeoTIFF opened for writing *)
  Record wfile := mkW {
    w_path : string; w_width : Z; w_height : Z; w_count : Z; w_dtype : dtype; w_crs : C; w_transform : T;
    w_writes : list (Z * list (list px));        (* (band index, samples as cast) in the order written *)
    w_desc : option (list string);
  }.

  (* rasterio.open(path, mode=, driver=, width=, height=, count=, dtype=, crs=, transform=) *)
  Definition rio_open_w (path mode driver : string) (width height count : Z) (t : dtype) (crs : C) (transform : T)
    : option wfile :=
    if (String.eqb mode "w+" || String.eqb mode "w") && String.eqb driver "GTiff" && (0 <=? count)
    then Some (mkW path width height count t crs transform [] None) else None.

  Definition rect (h w : Z) (d : list (list px)) : bool :=
    (py_len d =? h) && forallb (fun r => py_len r =? w) d.

  (* ds.write(a, idx): a 2-D array of the shape of the file into band idx (1-based), cast to the dtype of the file;
     anything else raises *)
  Definition rio_write (ds : wfile) (a : arr) (idx : Z) : option wfile :=
    match a with
    | A2 d =>
      if (1 <=? idx) && (idx <=? w_count ds) && rect (w_height ds) (w_width ds) d
      then Some (mkW (w_path ds) (w_width ds) (w_height ds) (w_count ds) (w_dtype ds) (w_crs ds) (w_transform ds)
                     (w_writes ds ++ [(idx, map (map (cast rnd (w_dtype ds))) d)]) (w_desc ds))
      else None
    | A3 _ _ => None
    end.

  (* ds.descriptions = names : ValueError unless one description per band *)
  Definition rio_set_descriptions (ds : wfile) (names : list string) : option wfile :=
    if py_len names =? w_count ds
    then Some (mkW (w_path ds) (w_width ds) (w_height ds) (w_count ds) (w_dtype ds) (w_crs ds) (w_transform ds)
                   (w_writes ds) (Some names))
    else None.

  (* the last write into band idx; a band never written holds zeros *)
  Fixpoint last_write (idx : Z) (ws : list (Z * list (list px))) (acc : option (list (list px)))
    : option (list (list px)) :=
    match ws with
    | [] => acc
    | (i, b) :: r => last_write idx r (if i =? idx then Some b else acc)
    end.
  Definition zero_px (t : dtype) : px := match t with F32 => PF (Some 0%Q) | U16 => PI 0 end.
  Definition zero_band (ds : wfile) : list (list px) :=
    repeat (repeat (zero_px (w_dtype ds)) (Z.to_nat (w_width ds))) (Z.to_nat (w_height ds)).
  Definition band_of (ds : wfile) (idx : Z) : list (list px) :=
    match last_write idx (w_writes ds) None with Some b => b | None => zero_band ds end.

  (* leaving the `with` block: the file as closed *)
  Definition rio_close (ds : wfile) : tif G :=
    mkTif (w_path ds) (w_dtype ds) (map (band_of ds) (zrange 1 (w_count ds + 1))) (w_desc ds)
          (w_crs ds, w_transform ds).

  (* ---- what a run leaves on disk *)
  Inductive effect := FTif (f : tif G) | FText (path text : string).
  Definition close_text (f : wtext) : effect := FText (t_path f) (t_text f).

  (* ---- what pandora.main calls and this development models elsewhere (C05/C17: check_conf; C16:
     create_dataset_from_inputs; C01..C15: run; C20: margins) *)
  Section Env.
    Variables M IMG : Type.       (* the PandoraMachine object, an image dataset *)
    Record env := mkEnv {
      e_read_file : string -> option string;                      (* the text of a file (None: cannot be opened) *)
      e_new_machine : M;                                          (* PandoraMachine() *)
      e_check_conf : jv -> M -> option (jv * M);                  (* check_conf(user_cfg, machine): cfg, machine after *)
      e_create_dataset : jv -> option IMG;                        (* create_dataset_from_inputs(input_config=.) *)
      e_check_datasets : IMG -> IMG -> option unit;               (* check_datasets(left, right) *)
      e_run : M -> IMG -> IMG -> jv -> option (xds * xds * M * jv);  (* run(machine, l, r, cfg): products, machine and
                                                                        cfg after (the run writes into cfg) *)
      e_margins_to_dict : M -> jv;                                (* machine.margins.to_dict() *)
    }.
    (* open(path, "r") *)
    Definition open_r (E : env) (path mode : string) : option string :=
      if String.eqb mode "r" then e_read_file E path else None.
  End Env.
End Prims.

Arguments FTif {C T}. Arguments FText {C T}.
Arguments mkW {C T}.
Arguments w_path {C T}. Arguments w_width {C T}. Arguments w_height {C T}. Arguments w_count {C T}.
Arguments w_dtype {C T}. Arguments w_crs {C T}. Arguments w_transform {C T}. Arguments w_writes {C T}.
Arguments w_desc {C T}.
Arguments e_read_file {C T M IMG}. Arguments e_new_machine {C T M IMG}. Arguments e_check_conf {C T M IMG}.
Arguments e_create_dataset {C T M IMG}. Arguments e_check_datasets {C T M IMG}. Arguments e_run {C T M IMG}.
Arguments e_margins_to_dict {C T M IMG}.
Arguments ds_get {C T}. Arguments ds_has {C T}. Arguments ds_sizes {C T}.
Arguments ds_attr_crs {C T}. Arguments ds_attr_transform {C T}.
Arguments rio_open_w {C T}. Arguments rio_write rnd {C T}. Arguments rio_set_descriptions {C T}.
Arguments last_write idx ws acc : simpl nomatch.
Arguments zero_band {C T}. Arguments band_of {C T}. Arguments rio_close {C T}.
Arguments close_text {C T}. Arguments open_r {C T M IMG}.
