(* Model of pandora/margins/margins.py (Margins, MarginDict, GlobalMargins,
   max_margins) and of the margin bookkeeping of PandoraMachine.check_conf
   (which <step>_check_conf registers which margins under which key).
   The per-class margin expressions and the registration table are
   parameters: Gen/Margins.v (regenerated from /repo) supplies them.
   Definitions only. *)
From Coq Require Import ZArith List Bool QArith.
From Pandora Require Import Model.Machine.
Import ListNotations.
Open Scope Z_scope.

(* (left, up, right, down) *)
Record margins := mkMg { mg_l : Z; mg_u : Z; mg_r : Z; mg_d : Z }.
Definition mg0 : margins := mkMg 0 0 0 0.
Definition mg_add (a b : margins) : margins :=
  mkMg (mg_l a + mg_l b) (mg_u a + mg_u b) (mg_r a + mg_r b) (mg_d a + mg_d b).
Definition mg_max (a b : margins) : margins :=
  mkMg (Z.max (mg_l a) (mg_l b)) (Z.max (mg_u a) (mg_u b))
       (Z.max (mg_r a) (mg_r b)) (Z.max (mg_d a) (mg_d b)).
Definition mg_nonneg (a : margins) : bool :=
  (0 <=? mg_l a) && (0 <=? mg_u a) && (0 <=? mg_r a) && (0 <=? mg_d a).

(* ordered dictionary: Python dict semantics (assignment to an existing key
   keeps its position) *)
Definition mdict := list (Z * margins).
Fixpoint md_mem (k : Z) (d : mdict) : bool :=
  match d with [] => false | (k', _) :: r => (k =? k') || md_mem k r end.
Fixpoint md_set (k : Z) (v : margins) (d : mdict) : mdict :=
  match d with
  | [] => [(k, v)]
  | (k', v') :: r => if k =? k' then (k', v) :: r else (k', v') :: md_set k v r
  end.
(* MarginDict.sum: reduce(operator.add, values, Margins(0,0,0,0)) *)
Definition md_sum (d : mdict) : margins := fold_left (fun acc kv => mg_add acc (snd kv)) d mg0.

Record gmargins := mkG { g_cum : mdict; g_non : mdict }.
Definition g0 : gmargins := mkG [] [].

(* add_cumulative / add_non_cumulative: KeyError when the key is in the other map *)
Definition add_cumulative (g : gmargins) (k : Z) (v : margins) : option gmargins :=
  if md_mem k (g_non g) then None else Some (mkG (md_set k v (g_cum g)) (g_non g)).
Definition add_non_cumulative (g : gmargins) (k : Z) (v : margins) : option gmargins :=
  if md_mem k (g_cum g) then None else Some (mkG (g_cum g) (md_set k v (g_non g))).

(* max_margins(seq): element-wise max (a one-element sequence is returned as is) *)
Definition max_margins (first : margins) (rest : list margins) : margins :=
  fold_left mg_max rest first.
Definition global_margins (g : gmargins) : margins :=
  max_margins (md_sum (g_cum g)) (map snd (g_non g)).

(* ------------------------------------------------------------------ *)
(* margin expressions (translated from the descriptors / properties)   *)

Inductive mexpr :=
| MConst (z : Z)
| MWin            (* instance._window_size *)
| MFilterSize     (* self._filter_size *)
| MStep           (* self._step *)
| MRows | MCols   (* self._image_shape *)
| MSigmaSpace3p1  (* int(3 * self._sigma_space + 1) *)
| MSub (a b : mexpr)
| MMul (a b : mexpr)
| MMin (a b : mexpr)
| MTruncDiv (a : mexpr) (d : Z).  (* int(a / d), true division then truncation toward zero *)

Record menv := mkEnv {
  e_win : Z; e_fsize : Z; e_step : Z; e_rows : Z; e_cols : Z; e_sigma : Q }.

Definition qtrunc (q : Q) : Z := Z.quot (Qnum q) (Zpos (Qden q)).

Fixpoint meval (en : menv) (e : mexpr) : Z :=
  match e with
  | MConst z => z
  | MWin => e_win en
  | MFilterSize => e_fsize en
  | MStep => e_step en
  | MRows => e_rows en
  | MCols => e_cols en
  | MSigmaSpace3p1 => qtrunc (3 * e_sigma en + 1)%Q
  | MSub a b => meval en a - meval en b
  | MMul a b => meval en a * meval en b
  | MMin a b => Z.min (meval en a) (meval en b)
  | MTruncDiv a d => Z.quot (meval en a) d
  end.

Record mexpr4 := mkE4 { x_l : mexpr; x_u : mexpr; x_r : mexpr; x_d : mexpr }.
Definition meval4 (en : menv) (x : mexpr4) : margins :=
  mkMg (meval en (x_l x)) (meval en (x_u x)) (meval en (x_r x)) (meval en (x_d x)).

(* how a <step>_check_conf callback registers the margins of its object *)
Inductive reg := RegCumulative | RegNonCumulative | RegNone.

(* filter methods carry their own margins *)
Inductive fmethod := FMedian | FBilateral | FMedianForIntervals.

(* the generated description of the code *)
Record margin_tables := mkTbl {
  tb_reg : kind -> reg;                       (* state_machine.py, <kind>_check_conf *)
  tb_expr : kind -> mexpr4;                   (* margins of the abstract class of the kind *)
  tb_filter : fmethod -> mexpr4 }.            (* margins property of each filter class *)

(* a checked step, with the parameters margins depend on *)
Record mstep := mkMs {
  ms_id : Z; ms_kind : kind; ms_fm : fmethod;
  ms_win : Z; ms_fsize : Z; ms_sigma : Q; ms_mcstep : Z }.

Definition step_expr (tb : margin_tables) (s : mstep) : mexpr4 :=
  match ms_kind s with
  | Flt => tb_filter tb (ms_fm s)
  | k => tb_expr tb k
  end.

(* one checking round: the callbacks in pipeline order; machine.step is set
   by the matching-cost callback and read by the filter callbacks.
   Returns None on KeyError (key present in the other map). *)
Fixpoint check_round_margins (tb : margin_tables) (rows cols : Z) (mstep0 : Z)
         (g : gmargins) (p : list mstep) : option (gmargins * Z) :=
  match p with
  | [] => Some (g, mstep0)
  | s :: r =>
    let st := match ms_kind s with MC => ms_mcstep s | _ => mstep0 end in
    let en := mkEnv (ms_win s) (ms_fsize s) st rows cols (ms_sigma s) in
    let v := meval4 en (step_expr tb s) in
    let g' := match tb_reg tb (ms_kind s) with
              | RegCumulative => add_cumulative g (ms_id s) v
              | RegNonCumulative => add_non_cumulative g (ms_id s) v
              | RegNone => Some g
              end in
    match g' with
    | None => None
    | Some g1 => check_round_margins tb rows cols st g1 r
    end
  end.

Definition has_validation (p : list mstep) : bool :=
  existsb (fun s => kind_eqb (ms_kind s) Val) p.

(* check_conf on a machine whose margins are [g] and whose step is [mstep0]:
   first round with the left image shape, second round (right/left) with the
   right image shape when a validation step set right_disp_map *)
Definition check_margins (tb : margin_tables) (shape_l shape_r : Z * Z) (mstep0 : Z)
           (g : gmargins) (p : list mstep) : option gmargins :=
  match check_round_margins tb (fst shape_l) (snd shape_l) mstep0 g p with
  | None => None
  | Some (g1, st1) =>
    if has_validation p then
      match check_round_margins tb (fst shape_r) (snd shape_r) st1 g1 p with
      | None => None
      | Some (g2, _) => Some g2
      end
    else Some g1
  end.

(* PandoraMachine.check_conf as a machine holding the margins [g] (left by whatever it checked
   before) and the step [mstep0] executes it: the first round starts with
   `self.margins = GlobalMargins()` iff [resets] (Gen/Margins.v: gen_check_resets_margins, read
   from the source of check_conf at every run). *)
Definition machine_check_margins (resets : bool) (tb : margin_tables) (shape_l shape_r : Z * Z) (mstep0 : Z)
           (g : gmargins) (p : list mstep) : option gmargins :=
  check_margins tb shape_l shape_r mstep0 (if resets then g0 else g) p.
