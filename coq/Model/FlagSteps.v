(* What every step AFTER the matching cost does to the validity flag of ONE pixel, exactly as the
   code writes it (operators and constants read from Gen/Flags.v through [fire]); the numeric side
   of each step (which pixel is refined, which is inconsistent, which can be filled ...) is an
   arbitrary per-pixel DECISION -- other properties (C06, C07, C14, C10) model how it is computed.

     refinement.py       loop_refinement            [t_refine]
     validation.py       disparity_checking         [t_xcheck] then mask_border
     interpolated_disparity.py  mc-cnn: occlusion pass, mismatch pass, mask_border
                                sgm   : mismatch pass, occlusion pass
     median_for_intervals.py    `|=` of bit 11 on the regularised pixels
     disparity.py to_disp: copy; filters median / bilateral, aggregation, optimisation, confidence:
     no write to a validity mask anywhere (established by the translator's scan of the package).

   Definitions only (no proofs). *)
From Coq Require Import ZArith List Bool.
From Pandora Require Import Model.Criteria.
Import ListNotations.
Open Scope Z_scope.

(* decision of the refinement kernel at a valid pixel *)
Inductive rdec :=
| RNan                     (* the winning cost is NaN: nothing happens *)
| RMethod (stopped : bool) (* method(...) ran and returned STOPPED_INTERPOLATION (true) or 0 *)
| RBound.                  (* disparity is d_min or d_max: `+= STOPPED_INTERPOLATION` *)

(* decision of cross-checking at a valid pixel *)
Inductive xdec :=
| XOk                      (* consistent, or not looked at *)
| XInval (comp : bool)     (* |dR + dL| > threshold; comp = some other disparity matches (mismatch) *)
| XOutside.                (* the correspondent falls outside the right image *)

Record dec := mkDec {
  d_ref : rdec;
  d_x : xdec;
  d_left : bool;   (* mc-cnn occlusion: the `else` branch (valid pixel found on the left) *)
  d_fill : bool;   (* occlusion: a valid pixel exists (mc-cnn: msk[arg_valid]; sgm: two valid neighbours) *)
  d_fillm : bool;  (* mismatch: some path reaches a valid pixel (mc-cnn: 16 paths, sgm: 8 paths) *)
  d_near : bool;   (* sgm mismatch: an occlusion in the 3x3 neighbourhood *)
  d_reg : bool     (* median_for_intervals: pixel in mask_regularization *)
}.

Inductive imeth := INone | IMcCnn | ISgm.

(* a step of the disparity-map part of a pipeline, with the part of its configuration that
   matters for flags *)
Inductive fstep :=
| SFlt (regularizing_mfi : bool)   (* filter; true = median_for_intervals with regularization *)
| SRef
| SVal (i : imeth)                 (* cross_checking_accurate [+ interpolated_disparity] *)
| SMsc.                            (* multiscale: silent on the last scale *)

Section Steps.
  Variable E : env.

  Definition K := e_const E.
  Definition has (m : Z) (c : cname) : bool := negb (Z.land m (K c) =? 0).

  (* loop_refinement *)
  Definition t_refine (d : dec) (m : Z) : Z :=
    if has m K_INVALID then m
    else match d_ref d with
         | RNan => m
         | RMethod b => fire E R_ref_method m b
         | RBound => fire E R_ref_stopped m true
         end.

  (* the write of mask_border on one pixel (all four slices set the same constant);
     [border] = the pixel lies in one of the slices, [offpos] = the caller's `offset > 0` *)
  Definition t_border (offpos border : bool) (m : Z) : Z :=
    if offpos && border then fire E R_bord_top m true else m.

  (* disparity_checking: only pixels with (mask & INVALID) == 0 are written *)
  Definition t_xcheck (d : dec) (m : Z) : Z :=
    if has m K_INVALID then m
    else match d_x d with
         | XOk => m
         | XInval comp =>
           let m := fire E R_xc_occl m true in
           let m := fire E R_xc_mism m comp in
           fire E R_xc_unoccl m comp
         | XOutside => fire E R_xc_outside m true
         end.

  (* interpolate_occlusion_mc_cnn *)
  Definition t_mc_occl (d : dec) (m : Z) : Z :=
    if has m K_OCCLUSION then
      if d_left d then fire E R_mco_add_l (fire E R_mco_sub_l m (d_fill d)) (d_fill d)
      else fire E R_mco_add_r (fire E R_mco_sub_r m (d_fill d)) (d_fill d)
    else m.

  (* interpolate_mismatch_mc_cnn *)
  Definition t_mc_mism (d : dec) (m : Z) : Z :=
    if has m K_MISMATCH then
      if d_fillm d then fire E R_mcm_add (fire E R_mcm_sub m true) true else m
    else m.

  (* interpolate_mismatch_sgm *)
  Definition t_sgm_mism (d : dec) (m : Z) : Z :=
    if has m K_MISMATCH then
      if d_near d then fire E R_sgm_add_o (fire E R_sgm_sub_o m true) true
      else if d_fillm d then fire E R_sgm_add_f (fire E R_sgm_sub_f m true) true else m
    else m.

  (* interpolate_occlusion_sgm *)
  Definition t_sgm_occl (d : dec) (m : Z) : Z :=
    if has m K_OCCLUSION then
      if d_fill d then fire E R_sgo_add (fire E R_sgo_sub m true) true else m
    else m.

  Definition t_interp (i : imeth) (offpos border : bool) (d : dec) (m : Z) : Z :=
    match i with
    | INone => m
    | IMcCnn => t_border offpos border (t_mc_mism d (t_mc_occl d m))
    | ISgm => t_sgm_occl d (t_sgm_mism d m)
    end.

  Definition t_mfi (d : dec) (m : Z) : Z := if d_reg d then fire E R_mfi_or m true else m.

  (* one step on one pixel *)
  Definition t_step (offpos border : bool) (s : fstep) (d : dec) (m : Z) : Z :=
    match s with
    | SFlt mfi => if mfi then t_mfi d m else m
    | SRef => t_refine d m
    | SVal i => t_interp i offpos border d (t_border offpos border (t_xcheck d m))
    | SMsc => m
    end.

  (* ---- the same steps, answering "was every += / -= of the step carry-free on this pixel?"
     (each [fire] of the functions above, in the same order, checked by [fire_ok] on the flag it
     is applied to) *)
  Definition ok_refine (d : dec) (m : Z) : bool :=
    if has m K_INVALID then true
    else match d_ref d with
         | RNan => true
         | RMethod b => fire_ok E R_ref_method m b
         | RBound => fire_ok E R_ref_stopped m true
         end.

  Definition ok_xcheck (d : dec) (m : Z) : bool :=
    if has m K_INVALID then true
    else match d_x d with
         | XOk => true
         | XInval comp =>
           let m1 := fire E R_xc_occl m true in
           let m2 := fire E R_xc_mism m1 comp in
           fire_ok E R_xc_occl m true && fire_ok E R_xc_mism m1 comp && fire_ok E R_xc_unoccl m2 comp
         | XOutside => fire_ok E R_xc_outside m true
         end.

  Definition ok_mc_occl (d : dec) (m : Z) : bool :=
    if has m K_OCCLUSION then
      if d_left d then fire_ok E R_mco_sub_l m (d_fill d) && fire_ok E R_mco_add_l (fire E R_mco_sub_l m (d_fill d)) (d_fill d)
      else fire_ok E R_mco_sub_r m (d_fill d) && fire_ok E R_mco_add_r (fire E R_mco_sub_r m (d_fill d)) (d_fill d)
    else true.

  Definition ok_mc_mism (d : dec) (m : Z) : bool :=
    if has m K_MISMATCH then
      if d_fillm d then fire_ok E R_mcm_sub m true && fire_ok E R_mcm_add (fire E R_mcm_sub m true) true else true
    else true.

  Definition ok_sgm_mism (d : dec) (m : Z) : bool :=
    if has m K_MISMATCH then
      if d_near d then fire_ok E R_sgm_sub_o m true && fire_ok E R_sgm_add_o (fire E R_sgm_sub_o m true) true
      else if d_fillm d then fire_ok E R_sgm_sub_f m true && fire_ok E R_sgm_add_f (fire E R_sgm_sub_f m true) true
           else true
    else true.

  Definition ok_sgm_occl (d : dec) (m : Z) : bool :=
    if has m K_OCCLUSION then
      if d_fill d then fire_ok E R_sgo_sub m true && fire_ok E R_sgo_add (fire E R_sgo_sub m true) true else true
    else true.

  Definition ok_interp (i : imeth) (d : dec) (m : Z) : bool :=
    match i with
    | INone => true
    | IMcCnn => ok_mc_occl d m && ok_mc_mism d (t_mc_occl d m)
    | ISgm => ok_sgm_mism d m && ok_sgm_occl d (t_sgm_mism d m)
    end.

  (* (mask_border and median_for_intervals write with `=` and `|=`: nothing to check) *)
  Definition ok_step (offpos border : bool) (s : fstep) (d : dec) (m : Z) : bool :=
    match s with
    | SFlt _ => true
    | SRef => ok_refine d m
    | SVal i => ok_xcheck d m && ok_interp i d (t_border offpos border (t_xcheck d m))
    | SMsc => true
    end.

  Fixpoint ok_flags (offpos border : bool) (p : list (fstep * dec)) (m : Z) : bool :=
    match p with
    | [] => true
    | (s, d) :: r => ok_step offpos border s d m && ok_flags offpos border r (t_step offpos border s d m)
    end.

  (* the disparity-map part of a pipeline on one pixel: steps with the decision taken at each *)
  Fixpoint run_flags (offpos border : bool) (p : list (fstep * dec)) (m : Z) : Z :=
    match p with
    | [] => m
    | (s, d) :: r => run_flags offpos border r (t_step offpos border s d m)
    end.
End Steps.

(* ---- which repetitions the flag arithmetic of the tree under test cannot justify ---- *)

Definition is_or (E : env) (r : role) : bool :=
  match s_op (site_of E r) with OpOr => true | _ => false end.

(* refinement sets bit 3 idempotently *)
Definition refine_idem (E : env) : bool := is_or E R_ref_method && is_or E R_ref_stopped.
(* interpolation sets bits 4 / 5 idempotently *)
Definition interp_idem (E : env) (i : imeth) : bool :=
  match i with
  | INone => true
  | IMcCnn => is_or E R_mco_add_r && is_or E R_mco_add_l && is_or E R_mcm_add
  | ISgm => is_or E R_sgo_add && is_or E R_sgm_add_f
  end.

(* The explicit boolean guard of the pipeline theorem: a step whose `+=` is not idempotent may
   only run while the bit it adds is still known to be clear (cR: no refinement yet, cI: no
   interpolation yet). When the sites are `|=` the guard is [true] for every pipeline. *)
Fixpoint pipeline_guard (E : env) (cR cI : bool) (p : list fstep) : bool :=
  match p with
  | [] => true
  | SRef :: r => (refine_idem E || cR) && pipeline_guard E false cI r
  | SVal INone :: r => pipeline_guard E cR cI r
  | SVal i :: r => (interp_idem E i || cI) && pipeline_guard E cR false r
  | _ :: r => pipeline_guard E cR cI r
  end.

(* the classes of unjustified repetition present in the tree (reported by the check):
   1 = repeated refinement, 2 = repeated mc-cnn interpolation, 3 = repeated sgm interpolation *)
Definition unsafe_classes (E : env) : list Z :=
  (if refine_idem E then [] else [1]) ++ (if interp_idem E IMcCnn then [] else [2])
  ++ (if interp_idem E ISgm then [] else [3]).

(* ------------------------------------------------------------------------------------------
   Well-formedness of the generated data (boolean, decided by vm_compute on every run).

   [role_class] says, for each write the model knows, which constant it must carry, under which
   syntactic guard, and which operators are acceptable:
     CAddFresh   += / |= of a bit that is clear by construction of the criteria (proved in
                 Proofs/CriteriaP.v for every layout)
     CAddGuarded += / |= under a guard that makes the bit clear ((mask & INVALID) == 0 for the
                 invalid bits 8 / 9, (mask & C) == 0 for C itself), or that the pipeline invariant
                 "never both bit 8 and bit 9" turns into "bit 8 clear" (sgm mismatch -> occlusion)
     CSubGuarded -= under the guard "(mask & C) != 0" or right after the += of the same constant
     CAddIdem    += / |= of an information bit (3, 4, 5) that nothing guards: accepted, but the
                 step is repeatable only when the operator is |= (see [pipeline_guard])
     COr         |= only
     CSet/CInit  plain assignments *)
Inductive eshape := ShConst | ShTimes | ShMethod.
Inductive rclass :=
| CInit (e : fexpr)
| CSet (c : cname)
| CAddFresh (c : cname) (sh : eshape)
| CAddGuarded (c : cname) (g : guard) (sh : eshape)
| CSubGuarded (c : cname) (g : guard) (sh : eshape)
| CAddIdem (c : cname) (g : guard) (sh : eshape)
| COr (c : cname).

Definition g_valid := GBit K_INVALID false.
Definition role_class (r : role) : rclass :=
  match r with
  | R_vm_init | R_ard_init => CInit EZero
  | R_vm_b2neg | R_vm_b2pos | R_vm_b2zero | R_ard_b2 => CAddFresh K_RIGHT_INCOMPLETE_DISPARITY_RANGE ShConst
  | R_vm_b1 | R_ard_b1 | R_r_nodata => CAddFresh K_RIGHT_NODATA_OR_DISPARITY_RANGE_MISSING ShConst
  | R_l_nodata => CAddFresh K_LEFT_NODATA_OR_BORDER ShTimes
  | R_l_invalid => CAddFresh K_IN_VALIDITY_MASK_LEFT ShTimes
  | R_r_b27 => CAddFresh K_IN_VALIDITY_MASK_RIGHT ShConst
  | R_mivdr => CAddGuarded K_RIGHT_NODATA_OR_DISPARITY_RANGE_MISSING
                           (GBit K_RIGHT_NODATA_OR_DISPARITY_RANGE_MISSING false) ShConst
  | R_bord_top | R_bord_bot | R_bord_left | R_bord_right => CSet K_LEFT_NODATA_OR_BORDER
  | R_todisp_copy => CInit ECopy
  | R_ref_kernel | R_aref_kernel | R_mc_kernel_occ | R_mc_kernel_mis | R_sgm_kernel_mis | R_sgm_kernel_occ =>
    CInit EKernel
  | R_xc_border | R_mc_border => CInit EBorderCall
  | R_ref_method | R_aref_method => CAddIdem K_STOPPED_INTERPOLATION g_valid ShMethod
  | R_ref_stopped | R_aref_stopped => CAddIdem K_STOPPED_INTERPOLATION g_valid ShConst
  | R_xc_occl | R_xc_outside => CAddGuarded K_OCCLUSION g_valid ShConst
  | R_xc_mism => CAddGuarded K_MISMATCH g_valid ShTimes
  | R_xc_unoccl => CSubGuarded K_OCCLUSION g_valid ShTimes
  | R_mco_sub_r | R_mco_sub_l => CSubGuarded K_OCCLUSION (GBit K_OCCLUSION true) ShTimes
  | R_mco_add_r | R_mco_add_l => CAddIdem K_FILLED_OCCLUSION (GBit K_OCCLUSION true) ShTimes
  | R_mcm_sub | R_sgm_sub_o | R_sgm_sub_f => CSubGuarded K_MISMATCH (GBit K_MISMATCH true) ShConst
  | R_mcm_add | R_sgm_add_f => CAddIdem K_FILLED_MISMATCH (GBit K_MISMATCH true) ShConst
  | R_sgo_sub => CSubGuarded K_OCCLUSION (GBit K_OCCLUSION true) ShConst
  | R_sgo_add => CAddIdem K_FILLED_OCCLUSION (GBit K_OCCLUSION true) ShConst
  | R_sgm_add_o => CAddGuarded K_OCCLUSION (GBit K_MISMATCH true) ShConst
  | R_mfi_or => COr K_INTERVAL_REGULARIZED
  end.

Definition guard_eqb (a b : guard) : bool :=
  match a, b with GBit c s, GBit c' s' => cname_eqb c c' && Bool.eqb s s' end.
Definition has_guard (g : guard) (s : site) : bool := existsb (guard_eqb g) (s_guards s).

Definition expr_ok (c : cname) (sh : eshape) (e : fexpr) : bool :=
  match sh, e with
  | ShConst, EConst c' => cname_eqb c c'
  | ShTimes, ETimes c' => cname_eqb c c'
  | ShMethod, EOneOf [c'] true => cname_eqb c c'
  | _, _ => false
  end.
Definition init_ok (e e' : fexpr) : bool :=
  match e, e' with
  | EZero, EZero | ECopy, ECopy | EKernel, EKernel | EBorderCall, EBorderCall => true
  | _, _ => false
  end.
Definition add_or_or (o : fop) : bool := match o with OpAdd | OpOr => true | _ => false end.
Definition is_sub (o : fop) : bool := match o with OpSub => true | _ => false end.
Definition is_set (o : fop) : bool := match o with OpSet => true | _ => false end.
Definition is_oror (o : fop) : bool := match o with OpOr => true | _ => false end.

Definition check_site (s : site) : bool :=
  match role_class (s_role s) with
  | CInit e => is_set (s_op s) && init_ok e (s_expr s)
  | CSet c => is_set (s_op s) && expr_ok c ShConst (s_expr s)
  | CAddFresh c sh => add_or_or (s_op s) && expr_ok c sh (s_expr s)
  | CAddGuarded c g sh => add_or_or (s_op s) && expr_ok c sh (s_expr s) && has_guard g s
  | CSubGuarded c g sh => is_sub (s_op s) && expr_ok c sh (s_expr s) && has_guard g s
  | CAddIdem c g sh => add_or_or (s_op s) && expr_ok c sh (s_expr s) && has_guard g s
  | COr c => is_oror (s_op s) && expr_ok c ShConst (s_expr s)
  end.

Fixpoint roles_eqb (a b : list role) : bool :=
  match a, b with
  | [], [] => true
  | x :: a', y :: b' => role_eqb x y && roles_eqb a' b'
  | _, _ => false
  end.

(* exactly the known writes, in order, each of an acceptable shape *)
Definition wf_sites (ss : list site) : bool :=
  roles_eqb (map s_role ss) all_roles && forallb check_site ss.

(* the documented value of each constant (output.rst): bit k is 2^k, INVALID = bits 0,1,6,7,8,9 *)
Definition doc_value (c : cname) : Z :=
  match c with
  | K_INVALID => 1 + 2 + 64 + 128 + 256 + 512
  | _ => 2 ^ (cname_code c)
  end.
Definition wf_consts (K : cname -> Z) : bool := forallb (fun c => K c =? doc_value c) all_cnames.

Definition wf_env (E : env) : bool := wf_consts (e_const E) && wf_sites (e_sites E).
