(* Model of the matching-cost step of Pandora (C02, C09): how the code computes the cost volume.
   Mirrors pandora/matching_cost/{matching_cost,sad_ssd,census,zncc}.py, pandora/img_tools.py
   (shift_right_img, census_transform, compute_mean_raster, compute_std_raster).

   Conventions
   * arrays are total functions on Z indices together with their sizes; a slice [a:b] is an index
     shift; NaN is [None].  Intermediate arrays are tabulated ([memo1], [memo2], [memo3]) so that the
     extracted model runs in reasonable time; [memo1_eq] (Proofs) says a memo table is the function.
   * a disparity d of the disparity axis is represented by the integer D = d * subpix (all samples are
     multiples of 1/subpix); the right image resampled at columns j + i/subpix has all its values
     multiplied by subpix, so that everything stays in Z.  Costs are turned into rationals at the end.
   Definitions only, no proofs. *)
From Coq Require Import ZArith List Bool QArith.
Import ListNotations.
Open Scope Z_scope.

(* ------------------------------------------------------------------ arrays *)

Definition img := Z -> Z -> Z.               (* row, col *)

Fixpoint range (lo : Z) (n : nat) : list Z :=
  match n with O => [] | S k => lo :: range (lo + 1) k end.
Definition zrange (lo n : Z) : list Z := range lo (Z.to_nat n).

Definition memo1 {A : Type} (n : Z) (f : Z -> A) : Z -> A :=
  let t := map f (zrange 0 n) in
  fun i => if i <? 0 then f i else
           match nth_error t (Z.to_nat i) with Some v => v | None => f i end.
Definition memo2 {A : Type} (n1 n2 : Z) (f : Z -> Z -> A) : Z -> Z -> A :=
  memo1 n1 (fun a => memo1 n2 (f a)).
Definition memo3 {A : Type} (n1 n2 n3 : Z) (f : Z -> Z -> Z -> A) : Z -> Z -> Z -> A :=
  memo1 n1 (fun a => memo2 n2 n3 (f a)).

(* ------------------------------------------------------------------ options as NaN-able numbers *)

Definition oadd (a b : option Z) : option Z :=
  match a, b with Some x, Some y => Some (x + y) | _, _ => None end.
Definition osum (l : list (option Z)) : option Z := fold_right oadd (Some 0) l.
Fixpoint zsum (l : list Z) : Z := match l with [] => 0 | x :: r => x + zsum r end.
(* v += m where m is NaN ([true]) or 0 ([false]) *)
Definition omask {A : Type} (v : option A) (nan : bool) : option A := if nan then None else v.

(* ------------------------------------------------------------------ configuration / inputs *)

Record mc_input : Type := MkIn {
  i_ny : Z; i_nx : Z;                (* rows, columns (both images) *)
  i_w : Z; i_s : Z;                  (* window_size, subpix *)
  i_L : img; i_R : img;              (* selected band of the left / right image *)
  i_mL : option img; i_mR : option img;   (* msk of the left / right dataset, if any *)
  i_vp : Z; i_nd : Z;                (* attrs valid_pixels, no_data_mask *)
  i_gmin : img; i_gmax : img;        (* disparity grids (a scalar interval is a constant grid) *)
}.

(* offset_row_col = int((window_size - 1) / 2) *)
Definition offset (w : Z) : Z := (w - 1) / 2.

(* band selection: img["im"].data[band_index] *)
Definition select_band {A : Type} (bands : list A) (b : Z) (d : A) : A := nth (Z.to_nat b) bands d.

(* get_min_max_from_grid: int(np.nanmin(disp_min)), int(np.nanmax(disp_max)) (integer grids) *)
Definition grid_fold (op : Z -> Z -> Z) (ny nx : Z) (g : img) : Z :=
  fold_left (fun acc r => fold_left (fun acc c => op acc (g r c)) (zrange 0 nx) acc)
            (zrange 0 ny) (g 0 0).
Definition grid_min := grid_fold Z.min.
Definition grid_max := grid_fold Z.max.

(* get_disparity_range: number of samples of the disparity axis, and sample k (times subpix) *)
Definition nb_disp (s dmin dmax : Z) : Z := (dmax - dmin) * s + 1.
Definition disp_scaled (s dmin k : Z) : Z := dmin * s + k.

(* ------------------------------------------------------------------ shift_right_img *)

(* zoom(order=1) by (nx*s-(s-1))/nx then [:, i::s]: column j of image i is the right image at column
   j + i/s, linearly interpolated; image i >= 1 has nx - 1 columns.  Values multiplied by s. *)
Definition shift_right (s : Z) (R : img) (i : Z) : img :=
  fun r j => if i =? 0 then s * R r j else (s - i) * R r j + i * R r (j + 1).
Definition shift_width (nx i : Z) : Z := if i =? 0 then nx else nx - 1.

(* i_right = int((disp % 1) * subpix) *)
Definition i_right (s D : Z) : Z := D mod s.

(* ------------------------------------------------------------------ point_interval *)

Definition floor_div (a s : Z) : Z := a / s.
Definition ceil_div (a s : Z) : Z := - ((- a) / s).

(* point_p = (max(0 - disp, 0), min(nx_left - disp, nx_left)), point_q = (max(0 + disp, 0),
   min(nx_right + disp, nx_right)); ceil of the four bounds when disp < 0, floor otherwise; then an
   upper bound below its lower bound is brought back to it (empty slice).  Quantities times s. *)
Definition point_interval (s nxl nxr D : Z) : (Z * Z) * (Z * Z) :=
  let p0 := Z.max (0 - D) 0 in
  let p1 := Z.min (nxl * s - D) (nxl * s) in
  let q0 := Z.max (0 + D) 0 in
  let q1 := Z.min (nxr * s + D) (nxr * s) in
  let rnd := if D <? 0 then ceil_div else floor_div in
  let p0' := rnd p0 s in let p1' := rnd p1 s in
  let q0' := rnd q0 s in let q1' := rnd q1 s in
  ((p0', Z.max p0' p1'), (q0', Z.max q0' q1')).

(* ------------------------------------------------------------------ SAD / SSD *)

Definition ad_cost (x y : Z) : Z := Z.abs (x - y).
Definition sd_cost (x y : Z) : Z := (x - y) * (x - y).

(* cv_enlarge (disp, col, row) of size (nd, nx + 2 off, ny + 2 off), NaN everywhere, then
   cv = crop(cv_enlarge, off); cv[k, p0:p1, :] = swapaxes(pixel_wise(left[:, p0:p1], right_i[:, q0:q1])).
   Plane k, enlarged coordinates (x, y). *)
Definition pixel_wise_plane (pw : Z -> Z -> Z) (s ny nx off : Z) (L : img) (Rs : Z -> img) (D : Z)
  : Z -> Z -> option Z :=
  let i := i_right s D in
  let '((p0, p1), (q0, _)) := point_interval s nx (shift_width nx i) D in
  fun x y =>
    let c := x - off in let r := y - off in
    if (p0 <=? c) && (c <? p1) && (0 <=? r) && (r <? ny)
    then Some (pw (s * L r c) (Rs i r (q0 + (c - p0)))) else None.

(* pixel_wise_aggregation: as_strided windows (w, w, nd, nx', ny') over the enlarged volume, summed
   over the two window axes; output (x, y) is the sum of enlarged[x .. x+w-1, y .. y+w-1] *)
Definition aggregate (w : Z) (e : Z -> Z -> option Z) : Z -> Z -> option Z :=
  fun x y => osum (map (fun a => osum (map (fun b => e (x + a) (y + b)) (zrange 0 w))) (zrange 0 w)).

(* after swapaxes to (row, col, disp): cv[:off], cv[-off:], cv[:, :off], cv[:, -off:] = NaN (if off) *)
Definition renan {A : Type} (ny nx off : Z) (v : Z -> Z -> option A) : Z -> Z -> option A :=
  fun r c => if (0 <? off) && ((r <? off) || (ny - off <=? r) || (c <? off) || (nx - off <=? c))
             then None else v r c.

(* SadSsd.compute_cost_volume: plane of disparity sample D, indexed (row, col); costs times s (sad)
   or s*s (ssd) *)
Definition sadssd_plane (pw : Z -> Z -> Z) (inp : mc_input) (Rs : Z -> img) (D : Z) : Z -> Z -> option Z :=
  let off := offset (i_w inp) in
  let e := memo2 (i_nx inp + 2 * off) (i_ny inp + 2 * off)
                 (pixel_wise_plane pw (i_s inp) (i_ny inp) (i_nx inp) off (i_L inp) Rs D) in
  let ag := aggregate (i_w inp) e in
  renan (i_ny inp) (i_nx inp) off (fun r c => ag c r).

(* ------------------------------------------------------------------ masks_dilatation *)

Definition invalid_px (vp nd m : Z) : bool := negb (m =? vp) && negb (m =? nd).
Definition inside (ny nx r c : Z) : bool := (0 <=? r) && (r <? ny) && (0 <=? c) && (c <? nx).
(* binary_dilation(msk == no_data, structure = ones((w, w))): true iff a no_data pixel of the image
   lies in the w x w window of the pixel (outside the image counts as not set) *)
Definition dilate (ny nx w nd : Z) (m : img) (r c : Z) : bool :=
  let off := offset w in
  existsb (fun a => existsb (fun b => inside ny nx (r + a) (c + b) && (m (r + a) (c + b) =? nd))
                            (zrange (- off) w)) (zrange (- off) w).
(* the dilated masks: true = NaN (invalid or dilated no_data), false = 0 *)
Definition mask_nan (ny nx w vp nd : Z) (m : option img) (r c : Z) : bool :=
  match m with
  | None => false
  | Some m => invalid_px vp nd (m r c) || dilate ny nx w nd m r c
  end.
(* the shifted right mask: sum of two adjacent columns of the dilated right mask (nx - 1 columns) *)
Definition mask_shift (m : Z -> Z -> bool) (r j : Z) : bool := m r j || m r (j + 1).

(* ------------------------------------------------------------------ cv_masked *)

(* dsp = int((disp - dmin) * subpix); in units of 1/subpix, (disp - dmin) * subpix = D - dmin * s *)
Definition dsp_index (s dmin D : Z) : Z := D - dmin * s.

(* one iteration of "for disp in cost_volume.coords['disp']": the mask planes are added to plane dsp *)
Definition mask_step {A : Type} (s nx dmin : Z) (ml : Z -> Z -> bool) (mr : Z -> Z -> Z -> bool)
           (cv : Z -> Z -> Z -> option A) (k : Z) : Z -> Z -> Z -> option A :=
  let D := disp_scaled s dmin k in
  let i := i_right s D in
  let '((p0, p1), (q0, q1)) := point_interval s nx (shift_width nx i) D in
  let i_mask := Z.min 1 i in
  let dsp := dsp_index s dmin D in
  fun r c j =>
    if (j =? dsp) && (p0 <=? c) && (c <? p1)       (* p_mask = arange(p0, p1), non empty *)
    then let v := omask (cv r c j) (ml r c) in
         if q0 <? q1 then omask v (mr i_mask r (q0 + (c - p0))) else v
    else cv r c j.

(* masking of the disparities outside [disp_min, disp_max] of the pixel *)
Definition mask_interval {A : Type} (s dmin : Z) (gmin gmax : img) (cv : Z -> Z -> Z -> option A)
  : Z -> Z -> Z -> option A :=
  fun r c j => let D := disp_scaled s dmin j in
               if (D <? gmin r c * s) || (gmax r c * s <? D) then None else cv r c j.

Definition cv_masked {A : Type} (inp : mc_input) (dmin dmax : Z) (cv : Z -> Z -> Z -> option A)
  : Z -> Z -> Z -> option A :=
  let ny := i_ny inp in let nx := i_nx inp in let w := i_w inp in let s := i_s inp in
  let nd := nb_disp s dmin dmax in
  let ml := memo2 ny nx (mask_nan ny nx w (i_vp inp) (i_nd inp) (i_mL inp)) in
  let mr0 := memo2 ny nx (mask_nan ny nx w (i_vp inp) (i_nd inp) (i_mR inp)) in
  let mr1 := memo2 ny (nx - 1) (mask_shift mr0) in
  let mr := fun i => if i =? 0 then mr0 else mr1 in
  let cv1 := fold_left (mask_step s nx dmin ml mr) (zrange 0 nd) cv in
  mask_interval s dmin (i_gmin inp) (i_gmax inp) cv1.

(* ------------------------------------------------------------------ the step, SAD / SSD *)

Inductive measure := Sad | Ssd | Census | Zncc.

Definition shifted_images (inp : mc_input) : Z -> img :=
  let ny := i_ny inp in let nx := i_nx inp in let s := i_s inp in
  memo1 s (fun i => memo2 ny nx (shift_right s (i_R inp) i)).

(* matching_cost_prepare + matching_cost_run for sad / ssd: the masked cost volume (row, col, disp),
   costs multiplied by s (sad) or s*s (ssd) *)
Definition sadssd_volume_z (pw : Z -> Z -> Z) (inp : mc_input) (dmin dmax : Z) : Z -> Z -> Z -> option Z :=
  let ny := i_ny inp in let nx := i_nx inp in let s := i_s inp in
  let nd := nb_disp s dmin dmax in
  let Rs := shifted_images inp in
  let planes := memo1 nd (fun k => memo2 ny nx (sadssd_plane pw inp Rs (disp_scaled s dmin k))) in
  let cv := fun r c k => planes k r c in
  memo3 ny nx nd (cv_masked inp dmin dmax cv).

Definition cost_q (den z : Z) : Q := Qred (z # Z.to_pos den).
Definition omap {A B : Type} (f : A -> B) (o : option A) : option B :=
  match o with Some a => Some (f a) | None => None end.

Definition sad_volume (inp : mc_input) (dmin dmax : Z) : Z -> Z -> Z -> option Q :=
  let v := sadssd_volume_z ad_cost inp dmin dmax in
  fun r c k => omap (cost_q (i_s inp)) (v r c k).
Definition ssd_volume (inp : mc_input) (dmin dmax : Z) : Z -> Z -> Z -> option Q :=
  let v := sadssd_volume_z sd_cost inp dmin dmax in
  fun r c k => omap (cost_q (i_s inp * i_s inp)) (v r c k).

(* ------------------------------------------------------------------ census *)

(* census_transform: (ny, nx) -> (ny - (w-1), nx - (w-1)); bit string of "window pixel > centre",
   row-major, first pixel = most significant bit (shift = w*w - 1 downto 0) *)
Definition census_transform (w : Z) (I : img) : img :=
  let off := offset w in
  fun r c =>
    zsum (map (fun a => zsum (map (fun b =>
       if I (r + a) (c + b) >? I (r + off) (c + off) then 2 ^ (w * w - 1 - (a * w + b)) else 0)
       (zrange 0 w))) (zrange 0 w)).

(* Census.popcount32b, on uint32 *)
Definition popcount32b (x : Z) : Z :=
  let x := x - Z.land (Z.shiftr x 1) 1431655765 in                     (* 0x55555555 *)
  let x := Z.land x 858993459 + Z.land (Z.shiftr x 2) 858993459 in     (* 0x33333333 *)
  let x := Z.land (x + Z.shiftr x 4) 252645135 in                      (* 0x0F0F0F0F *)
  let x := x + Z.shiftr x 8 in
  let x := x + Z.shiftr x 16 in
  Z.land x 127.

(* cv (disp, col, row) NaN; cv_crop = cv[:, off:-off, off:-off];
   cv_crop[k, p0:p1, :] = popcount(census_left[:, p0:p1] ^ census_right_i[:, q0:q1]) with the ranges of
   point_interval on the TRANSFORMED images (nx - 2 off columns).  Plane k indexed (row, col). *)
Definition census_plane (inp : mc_input) (cl : img) (cr : Z -> img) (D : Z) : Z -> Z -> option Z :=
  let ny := i_ny inp in let nx := i_nx inp in let s := i_s inp in
  let off := offset (i_w inp) in
  let i := i_right s D in
  let pq := point_interval s (nx - 2 * off) (shift_width nx i - 2 * off) D in
  let p0 := fst (fst pq) in let p1 := snd (fst pq) in let q0 := fst (snd pq) in
  fun r c =>
    let c' := c - off in let r' := r - off in
    if (0 <=? r') && (r' <? ny - 2 * off) && (p0 <=? c') && (c' <? p1) && (c' <? nx - 2 * off)
    then Some (popcount32b (Z.lxor (cl r' c') (cr i r' (q0 + (c' - p0))))) else None.

(* Census / Zncc.compute_cost_volume return the cost volume all NaN when no window fits in the image:
   min(rows, cols) < window_size (the transform / the rasters are not computed) *)
Definition too_small (ny nx w : Z) : bool := Z.min ny nx <? w.

Definition census_volume_z (inp : mc_input) (dmin dmax : Z) : Z -> Z -> Z -> option Z :=
  let ny := i_ny inp in let nx := i_nx inp in let s := i_s inp in let w := i_w inp in
  let off := offset w in
  let nd := nb_disp s dmin dmax in
  let cv :=
    if too_small ny nx w then fun _ _ _ => None else
    let Rs := shifted_images inp in
    let cl := memo2 (ny - 2 * off) (nx - 2 * off) (census_transform w (i_L inp)) in
    let cr := memo1 s (fun i => memo2 (ny - 2 * off) (nx - 2 * off) (census_transform w (Rs i))) in
    let planes := memo1 nd (fun k => memo2 ny nx (census_plane inp cl cr (disp_scaled s dmin k))) in
    fun r c k => planes k r c in
  memo3 ny nx nd (cv_masked inp dmin dmax cv).

Definition census_volume (inp : mc_input) (dmin dmax : Z) : Z -> Z -> Z -> option Q :=
  let v := census_volume_z inp dmin dmax in
  fun r c k => omap (cost_q 1) (v r c k).

(* ------------------------------------------------------------------ zncc *)

(* np.cumsum with a leading zero: cs[k] = sum of the first k elements *)
Definition cumsum (f : Z -> Z) (k : Z) : Z := zsum (map f (zrange 0 k)).

(* compute_mean_raster without the final division: cumulative sums down the rows, difference
   [w:] - [:-w], cumulative sums along the columns, difference; the mean is this / (w*w) *)
Definition sum_raster (w ny_ nx_ : Z) (I : img) : img :=
  let cs_r := memo2 (ny_ + 1) nx_ (fun k c => cumsum (fun j => I j c) k) in
  let d1 := fun r c => cs_r (r + w) c - cs_r r c in
  let cs_c := memo2 (ny_ - w + 1) (nx_ + 1) (fun r k => cumsum (fun j => d1 r j) k) in
  fun r c => cs_c r (c + w) - cs_c r c.

(* compute_std_raster: var = E[x^2] - E[x]^2, here times w^4 (no square root in the model) *)
Definition var_raster (w ny_ nx_ : Z) (I : img) : img :=
  let m := sum_raster w ny_ nx_ I in
  let m2 := sum_raster w ny_ nx_ (fun r c => I r c * I r c) in
  fun r c => w * w * m2 r c - m r c * m r c.

(* one disparity of Zncc.compute_cost_volume.  The cell is (cov, varL, varR) * w^4 (the right image
   is the resampled one, times s: cov is also times s, varR times s*s); the cost is
   cov / sqrt(varL * varR), and 0 when varL * varR <= 0 (apply_divide_standard). *)
Definition zncc_plane (inp : mc_input) (Rs : Z -> img) (ml vl : img) (mr vr : Z -> img) (D : Z)
  : Z -> Z -> option (Z * Z * Z) :=
  let ny := i_ny inp in let nx := i_nx inp in let s := i_s inp in let w := i_w inp in
  let off := offset w in
  let i := i_right s D in
  let pq := point_interval s nx (shift_width nx i) D in
  let p0 := fst (fst pq) in let p1 := snd (fst pq) in let q0 := fst (snd pq) in
  let p1s := Z.max p0 (p1 - 2 * off) in            (* p_std *)
  let prod := memo2 ny (p1 - p0) (fun r j => i_L inp r (p0 + j) * Rs i r (q0 + j)) in
  let mp := sum_raster w ny (p1 - p0) prod in
  fun r c =>
    let c' := c - off in let r' := r - off in
    if (0 <=? r') && (r' <? ny - 2 * off) && (p0 <=? c') && (c' <? p1s)
    then let j := c' - p0 in
         Some (w * w * mp r' j - ml r' (p0 + j) * mr i r' (q0 + j), vl r' (p0 + j), vr i r' (q0 + j))
    else None.

Definition zncc_volume (inp : mc_input) (dmin dmax : Z) : Z -> Z -> Z -> option (Z * Z * Z) :=
  let ny := i_ny inp in let nx := i_nx inp in let s := i_s inp in let w := i_w inp in
  let off := offset w in
  let nd := nb_disp s dmin dmax in
  let cv :=
    if too_small ny nx w then fun _ _ _ => None else
    let Rs := shifted_images inp in
    let ml := memo2 (ny - 2 * off) (nx - 2 * off) (sum_raster w ny nx (i_L inp)) in
    let vl := memo2 (ny - 2 * off) (nx - 2 * off) (var_raster w ny nx (i_L inp)) in
    let mr := memo1 s (fun i => memo2 (ny - 2 * off) (nx - 2 * off) (sum_raster w ny (shift_width nx i) (Rs i))) in
    let vr := memo1 s (fun i => memo2 (ny - 2 * off) (nx - 2 * off) (var_raster w ny (shift_width nx i) (Rs i))) in
    let planes := memo1 nd (fun k => memo2 ny nx (zncc_plane inp Rs ml vl mr vr (disp_scaled s dmin k))) in
    fun r c k => planes k r c in
  memo3 ny nx nd (cv_masked inp dmin dmax cv).

(* ------------------------------------------------------------------ inputs on which the step raises *)

(* No measure raises on any image size: sad / ssd produce NaN through the index arithmetic, census / zncc return
   early on an image smaller than the window ([too_small]); before that repair the census transform and the mean
   rasters were built with a negative shape (ValueError / AxisError).  Kept so that the correspondence run still
   compares "raises" with the code on every case. *)
Definition mc_raises (m : measure) (ny nx w s : Z) : bool := false.

(* attributes set by compute_cost_volume: type_measure (true = "min"), cmax *)
Definition type_measure_min (m : measure) : bool := match m with Zncc => false | _ => true end.
Definition img_fold (op : Z -> Z -> Z) (ny nx : Z) (g : img) : Z := grid_fold op ny nx g.
Definition cmax (m : measure) (inp : mc_input) : Z :=
  let w := i_w inp in
  match m with
  | Census => w * w
  | Zncc => 1
  | _ =>
    let minl := img_fold Z.min (i_ny inp) (i_nx inp) (i_L inp) in
    let maxl := img_fold Z.max (i_ny inp) (i_nx inp) (i_L inp) in
    let minr := img_fold Z.min (i_ny inp) (i_nx inp) (i_R inp) in
    let maxr := img_fold Z.max (i_ny inp) (i_nx inp) (i_R inp) in
    match m with
    | Sad => Z.max (Z.abs (maxl - minr)) (Z.abs (maxr - minl)) * (w * w)
    | _ => Z.max ((maxl - minr) * (maxl - minr)) ((maxr - minl) * (maxr - minl)) * (w * w)
    end
  end.
