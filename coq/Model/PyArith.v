(* Scaled-integer reading of the Python number operations that the translated index arithmetic of the
   matching-cost step uses (translator/gen_point_interval.py -> Gen/PointInterval.v).

   A Python value is either an INTEGER (a Z) or a REAL that is a multiple of 1/s (s = subpix > 0), represented
   by the integer X = x * s (the convention of Model/MatchingCost.v: D = d * subpix).  On that domain
   (disparities multiples of 1/4 and of small magnitude) every float64 operation below is exact, so the
   float computes the rational operation; Proofs/PointIntervalGenP.v (py_*_sound) proves that each scaled
   operation is the operation of Qround / Q arithmetic on x = X / s.
   Definitions only, no proofs. *)
From Coq Require Import ZArith.
Open Scope Z_scope.

(* an integer used where a real is expected: n = (n * s) / s *)
Definition py_real (s n : Z) : Z := n * s.
(* math.ceil / math.floor of a real: an integer *)
Definition py_ceil (s X : Z) : Z := - ((- X) / s).
Definition py_floor (s X : Z) : Z := X / s.
(* int(x) of a real: truncation towards zero *)
Definition py_int (s X : Z) : Z := Z.quot X s.
(* int(a / b) of two integers (true division, then truncation towards zero) *)
Definition py_int_div (a b : Z) : Z := Z.quot a b.
(* x % y (Python and numpy: the result has the sign of the divisor) of two reals: (X/s) % (Y/s) = (X mod Y)/s *)
Definition py_mod (X Y : Z) : Z := X mod Y.
(* real * integer, integer * real *)
Definition py_mul_ri (X n : Z) : Z := X * n.
