(* Semantics of the Python / numpy constructs the four interpolation kernels and
   img_tools.find_valid_neighbors use: the target language of translator/gen_interp_kernels.py
   (see Gen/InterpKernels.v).  Hand-written, on top of the list functions of Model/Interp.v, which
   stay the named primitives for the numpy calls on the tiny arrays (np.argmax of a boolean row =
   [argmax_b], np.nanmedian = [nanmedian], the insertion sort [isort] behind np.argsort).

   Scalars: int = Z, float = fl = option Q (NaN = None, Lib/FloatQ.v), a finite float literal = Q.
   A 2-D array is a function Z -> Z -> _ together with its shape (n0, n1) = (ncol, nrow) in the
   kernels' naming; a 1-D array is a list.  Index arithmetic follows Python: a negative scalar
   index wraps around once ([py_idx]), slice bounds are clipped ([py_norm]); numba does not check
   bounds, an index that is still out of range after that is outside the model (the equality
   proofs of Proofs/InterpGenP.v show that on a pixel of the map no such read happens: every read
   is reduced to a plain in-range application).

   Definitions only; the lemmas are in Proofs/InterpGenP.v. *)
From Coq Require Import ZArith QArith Qabs List Bool.
From Pandora Require Import Lib.FloatQ Model.Interp.
Import ListNotations.
Open Scope Z_scope.

(* range(a, b) *)
Definition py_range (a b : Z) : list Z := map (fun i => a + Z.of_nat i) (seq 0 (Z.to_nat (b - a))).

(* for x in l: s = body x s, leaving the loop when the body ends with `break`
   (the body returns the new values of the variables it assigns and whether it broke) *)
Fixpoint for_break {S : Type} (l : list Z) (body : Z -> S -> S * bool) (s : S) : S :=
  match l with
  | [] => s
  | x :: t => let (s', brk) := body x s in if brk then s' else for_break t body s'
  end.

(* a scalar index on an axis of length n *)
Definition py_idx (n i : Z) : Z := if i <? 0 then i + n else i.
(* a slice bound on an axis of length n *)
Definition py_norm (n k : Z) : Z := if k <? 0 then Z.max 0 (k + n) else Z.min k n.
(* the indices lo:hi of an axis of length n (step 1) *)
Definition py_slice (n lo hi : Z) : list Z := py_range (py_norm n lo) (py_norm n hi).

(* a[i, j] *)
Definition rd2 {A} (n0 n1 : Z) (a : Z -> Z -> A) (i j : Z) : A := a (py_idx n0 i) (py_idx n1 j).
(* a[i, lo:hi] *)
Definition slice_row {A} (n0 n1 : Z) (a : Z -> Z -> A) (i lo hi : Z) : list A :=
  map (fun j => a (py_idx n0 i) j) (py_slice n1 lo hi).
(* a[lo0:hi0, lo1:hi1], row-major (used element-wise and summed only) *)
Definition slice_box {A} (n0 n1 : Z) (a : Z -> Z -> A) (lo0 hi0 lo1 hi1 : Z) : list A :=
  flat_map (fun i => map (fun j => a i j) (py_slice n1 lo1 hi1)) (py_slice n0 lo0 hi0).

(* l[i] and l[i] = v on a 1-D array *)
Definition py_nth {A} (d : A) (l : list A) (i : Z) : A :=
  nth (Z.to_nat (py_idx (Z.of_nat (length l)) i)) l d.
Fixpoint upd_nat {A} (l : list A) (k : nat) (v : A) : list A :=
  match l, k with
  | [], _ => []
  | _ :: t, O => v :: t
  | h :: t, S k' => h :: upd_nat t k' v
  end.
Definition py_upd {A} (l : list A) (i : Z) (v : A) : list A :=
  upd_nat l (Z.to_nat (py_idx (Z.of_nat (length l)) i)) v.

(* dirs[k][0], dirs[k][1] of an (n, 2) table *)
Definition dir0 {A} (d : A) (dirs : list (A * A)) (k : Z) : A := fst (py_nth (d, d) dirs k).
Definition dir1 {A} (d : A) (dirs : list (A * A)) (k : Z) : A := snd (py_nth (d, d) dirs k).

(* np.all of a boolean array, np.sum of an integer array *)
Definition np_all (l : list bool) : bool := forallb (fun b => b) l.
Definition np_sum (l : list Z) : Z := fold_right Z.add 0 l.

(* np.argsort of a float array: numba sorts the indices with lt_floats (NaN last); below 15 elements by
   insertion, which is stable *)
Definition lt_nanlast (a b : fl) : bool :=
  match a, b with
  | Some x, Some y => Qlt_bool x y
  | Some _, None => true
  | None, _ => false
  end.
Definition argsort (l : list fl) : list Z :=
  map fst (isort (fun p q : Z * fl => lt_nanlast (snd p) (snd q))
                 (combine (py_range 0 (Z.of_nat (length l))) l)).

(* float * int for a finite float (the entries of the direction table of mc-cnn) *)
Definition qmulz (q : Q) (z : Z) : Q := (q * inject_Z z)%Q.

(* the four kernels, as named in the call plans regenerated from the two interpolated_disparity methods *)
Inductive kname := KOccMc | KMisMc | KOccSgm | KMisSgm.
