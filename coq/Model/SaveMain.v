(* Hand-written model of what pandora.main leaves on disk (C19), in terms of the models of its parts:
     save_results  = Model/Save.v run_calls on the regenerated call table, every file under <output>;
     save_config   = one text file <output>/<OTD path of config.json> holding json.dump of the dictionary;
     main          = read the file (json.load), check_conf, datasets (the right interval derived ON A COPY of the
                     right input section, fix e44909e), run (which writes into cfg), save_results, margins added,
                     save_config.
   Gen/SaveFns.v (the statement-by-statement translation of the Python bodies) is proved equal to these functions at
   every run (Proofs/SaveGenP.v).  Definitions only. *)
From Coq Require Import ZArith QArith List Bool String.
From Pandora Require Import Model.Json Model.JsonText Model.Save Model.SavePrims.
Import ListNotations.
Open Scope Z_scope.

Section Flow.
  Variable rnd : Q -> Q.
  Variables C T M IMG : Type.
  Notation G := (C * T)%type.
  Variable otd : list (string * string).
  Variable calls : list call.

  (* the file f, written under the output directory *)
  Definition in_dir (output : string) (f : tif G) : tif G :=
    mkTif (path_join output (f_path f)) (f_dtype f) (f_bands f) (f_names f) (f_geo f).

  (* common.write_data_array on a DataArray *)
  Definition write_model (a : xda) (path : string) (t : dtype) (names : option (list string)) (crs : C) (tr : T)
    : list (effect C T) :=
    [FTif (write_data_array rnd G (xa_arr a) path t names (crs, tr))].

  (* common.save_results(left, right, output); the left dataset of a run is never empty *)
  Definition save_results_model (left right : xds C T) (output : string) : option (list (effect C T)) :=
    match left with
    | None => None
    | Some l =>
      match run_calls rnd G otd l right calls with
      | Some fs => Some (map (fun f => FTif (in_dir output f)) fs)
      | None => None
      end
    end.

  (* common.save_config(output, cfg) *)
  Definition save_config_model (output : string) (cfg : jv) : option (list (effect C T)) :=
    match out_path otd "config.json" with
    | Some p => Some [FText (path_join output p) (print cfg)]
    | None => None
    end.

  (* the input section given to create_dataset_from_inputs for the right image: the right section itself, or -- when
     its disp is None and the left disp is not a path -- a copy of it with disp = [-left_disp[1], -left_disp[0]] *)
  Definition right_input_of (l r : jv) : option jv :=
    rd <- jv_get r "disp" ;;
    if jv_is_none rd then
      ld <- jv_get l "disp" ;;
      if jv_is_str ld then Some r
      else
        r' <- jv_dict_copy r ;;
        a <- jv_idx ld 1 ;; na <- jv_neg a ;;
        b <- jv_idx ld 0 ;; nb <- jv_neg b ;;
        jv_set r' "disp" (JList [na; nb])
    else Some r.

  (* pandora.main(cfg_path, output, verbose) *)
  Definition main_flow (E : env C T M IMG) (cfg_path output : string) : option (list (effect C T)) :=
    text <- e_read_file E cfg_path ;;
    user <- parse text ;;
    cm <- e_check_conf E user (e_new_machine E) ;;
    let '(cfg, m1) := cm in
    inp <- jv_get cfg "input" ;;
    l <- jv_get inp "left" ;;
    imgl <- e_create_dataset E l ;;
    r <- jv_get inp "right" ;;
    ri <- right_input_of l r ;;
    imgr <- e_create_dataset E ri ;;
    _ <- e_check_datasets E imgl imgr ;;
    res <- e_run E m1 imgl imgr cfg ;;
    let '(lft, rgt, m2, cfg2) := res in
    fs <- save_results_model lft rgt output ;;
    saved <- jv_set cfg2 "margins" (e_margins_to_dict E m2) ;;
    cf <- save_config_model output saved ;;
    Some (fs ++ cf)%list.
End Flow.
