(* C10 -- the boolean form of the median Spec (Spec/Filters.v), extracted with the model and
   applied by the harness to the REAL code's outputs (failing-input search).  Definitions only;
   [median_step_spec_b_iff] / [median_map_spec_b_iff] in Proofs/FiltersP.v show that the
   checker accepts exactly the outputs the Spec accepts on the pixels of the image. *)
From Coq Require Import ZArith QArith List Bool.
From Pandora Require Import Lib.Arr Model.Filters Spec.Filters.
Import ListNotations.
Open Scope Z_scope.

(* same number, same representation (the harness sends reduced fractions) *)
Definition q_same (a b : Q) : bool := (Qnum a =? Qnum b) && Pos.eqb (Qden a) (Qden b).
Definition oq_same (a b : option Q) : bool :=
  match a, b with
  | Some x, Some y => q_same x y
  | None, None => true
  | _, _ => false
  end.

(* m is the median of l: sort, compare with the middle *)
Definition is_median_b (m : Q) (l : list Q) : bool :=
  match isort l with
  | [] => false
  | s => Qeq_bool m (mid s)
  end.

Definition fits_bool (lo hi ny nx r c : Z) : bool :=
  (lo <=? r) && (r + hi <? ny) && (lo <=? c) && (c + hi <? nx).

(* one pixel: [val] the valid values, [before]/[after] the filtered quantity *)
Definition median_px_ok (rad ny nx : Z) (val before after : dmap) (r c : Z) : bool :=
  match val r c with
  | None => oq_same (after r c) (before r c)
  | Some _ =>
    if fits_bool rad rad ny nx r c
    then match after r c with
         | Some m => is_median_b m (win_vals val rad rad r c)
         | None => false
         end
    else oq_same (after r c) (before r c)
  end.

Definition all_px (ny nx : Z) (p : Z -> Z -> bool) : bool :=
  forallb (fun r => forallb (fun c => p r c) (zrange nx)) (zrange ny).

Definition median_step_spec_b (inv rad ny nx : Z) (disp : dmap) (mask : vmask) (disp' : dmap) (mask' : vmask) : bool :=
  all_px ny nx (fun r c => (mask' r c =? mask r c)
                           && median_px_ok rad ny nx (valid_disp inv disp mask) disp disp' r c).

Definition median_map_spec_b (rad ny nx : Z) (data out : dmap) : bool :=
  all_px ny nx (median_px_ok rad ny nx data data out).
