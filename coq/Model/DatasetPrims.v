(* Semantics of the Python / numpy / xarray / rasterio constructs used by the dataset functions of
   pandora/img_tools.py (add_no_data, add_mask, add_disparity, add_classif, add_segm,
   create_dataset_from_inputs): the target language of translator/gen_dataset_fns.py (see
   Gen/DatasetFns.v).  Hand-written, on top of the arrays / samples / [read] of Model/Dataset.v.

   Conventions.
   * A numpy array of 2 or 3 dimensions is [nd A] = Nd2 (one 2-D array) | Nd3 (a list of bands).
   * A vectorised numpy expression (np.isnan(x), x == v, x != 0) acts pixel by pixel: [np_map],
     [arr_map].
   * np.where(b) on a boolean array is represented by the boolean array itself (the set of
     in-range cells holding True); [where_count] is the size of any of its index arrays,
     [where_rc] the pairs (w[-2], w[-1]) (row, col of a match in some band), [where2] the 2-D case.
   * a[w] = v (boolean/fancy index assignment): [nd_assign_where] / [assign_where].
   * A raster file is its band descriptions and its bands ([rfile]); rasterio_open(path) of an
     optional path is [rio_open] (the translator only emits it under an `is not None` guard).
     DatasetReader.read(window=w) / read(1, window=w) are [rio_read] / [rio_read1]; the out_dtype
     of every read is recorded by the translator in a separate generated list.
   * The xarray.Dataset under construction is the record [xds]; in-place updates
     (ds["v"] = ..., ds.coords["c"] = ..., ds.attrs[...] = ...) are functional record updates.
   * input configuration: a key is absent (None), present with None (Some None) or with a value.

   Definitions only; the lemmas are in Proofs/DatasetGenP.v. *)
From Coq Require Import ZArith QArith List Bool String.
From Pandora Require Import Model.Dataset.
Import ListNotations.
Open Scope Z_scope.

(* ------------------------------------------------------------------ n-d arrays *)

Inductive nd (A : Type) := Nd2 (a : arr A) | Nd3 (l : list (arr A)).
Arguments Nd2 {A}. Arguments Nd3 {A}.

Definition nd_bands {A} (x : nd A) : list (arr A) :=
  match x with Nd2 a => [a] | Nd3 l => l end.

Definition bands_shape {A} (l : list (arr A)) : Z * Z :=
  match l with a :: _ => (nr a, nc a) | [] => (0, 0) end.

(* x.shape[k] *)
Definition nd_shape {A} (x : nd A) (k : Z) : Z :=
  match x with
  | Nd2 a => if k =? 0 then nr a else if k =? 1 then nc a else 0
  | Nd3 l => if k =? 0 then Z.of_nat (Datatypes.length l)
             else if k =? 1 then fst (bands_shape l)
             else if k =? 2 then snd (bands_shape l) else 0
  end.

Definition arr_map {A B} (f : A -> B) (a : arr A) : arr B :=
  mkArr (nr a) (nc a) (fun r c => f (px a r c)).

(* a vectorised unary expression over a whole array *)
Definition np_map {A B} (f : A -> B) (x : nd A) : nd B :=
  match x with Nd2 a => Nd2 (arr_map f a) | Nd3 l => Nd3 (map (arr_map f) l) end.

(* np.full((h, w), v) *)
Definition np_full {A} (h w : Z) (v : A) : arr A := const_arr h w v.

(* x.astype(np.int16) on an integer array whose values fit (0, 1, 2 here) *)
Definition astype_int16 (a : arr Z) : arr Z := a.

(* np.arange(a, b) *)
Definition np_arange (a b : Z) : list Z := zrange a (b - a).

(* ------------------------------------------------------------------ np.where *)

Definition whereset := nd bool.
Definition np_where (b : nd bool) : whereset := b.

Definition b2z (b : bool) : Z := if b then 1 else 0.
Definition zsum (l : list Z) : Z := fold_right Z.add 0 l.

Definition arr_count (b : arr bool) : Z :=
  zsum (map (fun r => zsum (map (fun c => b2z (px b r c)) (zrange 0 (nc b)))) (zrange 0 (nr b))).

(* w[0].size : number of cells selected *)
Definition where_count (w : whereset) : Z := zsum (map arr_count (nd_bands w)).

(* (w[-2], w[-1]) : the (row, col) pairs of the selected cells, whatever the band *)
Definition where_rc (w : whereset) : Z -> Z -> bool :=
  fun r c => existsb (fun b => px b r c) (nd_bands w).

(* np.where(b) for a 2-D boolean array b *)
Definition where2 (b : arr bool) : Z -> Z -> bool := fun r c => px b r c.

Fixpoint map2 {A B C} (f : A -> B -> C) (l : list A) (m : list B) : list C :=
  match l, m with
  | a :: l', b :: m' => f a b :: map2 f l' m'
  | _, _ => []
  end.

(* x[w] = v, w = np.where of a boolean array of the shape of x *)
Definition nd_assign_where {A} (x : nd A) (w : whereset) (v : A) : nd A :=
  match x, w with
  | Nd2 a, Nd2 b => Nd2 (assign_where a (fun r c => px b r c) v)
  | Nd3 l, Nd3 m => Nd3 (map2 (fun a b => assign_where a (fun r c => px b r c) v) l m)
  | _, _ => x
  end.

(* ------------------------------------------------------------------ raster files *)

Record rfile (A : Type) := mkRfile { rf_desc : list Z; rf_bands : list (arr A) }.
Arguments mkRfile {A}. Arguments rf_desc {A}. Arguments rf_bands {A}.

Definition empty_arr {A} (d : A) : arr A := mkArr 0 0 (fun _ _ => d).

(* rasterio_open(p) for an optional path p (emitted only where p is known not to be None) *)
Definition rio_open {A} (p : option (rfile A)) : rfile A :=
  match p with Some f => f | None => mkRfile [] [] end.

Definition rf_count {A} (f : rfile A) : Z := Z.of_nat (Datatypes.length (rf_bands f)).
Definition rf_height {A} (f : rfile A) : Z := fst (bands_shape (rf_bands f)).
Definition rf_width {A} (f : rfile A) : Z := snd (bands_shape (rf_bands f)).

(* f.read(window=w) : every band; f.read(1, window=w) : band 1 *)
Definition rio_read {A} (w : option (Z * Z * Z * Z)) (f : rfile A) : list (arr A) :=
  map (read w) (rf_bands f).
Definition rio_read1 {A} (d : A) (w : option (Z * Z * Z * Z)) (f : rfile A) : arr A :=
  read w (hd (empty_arr d) (rf_bands f)).

(* window.col_off / window.row_off (emitted only where the window is known not to be None) *)
Definition win_col_off (w : option (Z * Z * Z * Z)) : Z :=
  match w with Some (co, _, _, _) => co | None => 0 end.
Definition win_row_off (w : option (Z * Z * Z * Z)) : Z :=
  match w with Some (_, ro, _, _) => ro | None => 0 end.

(* ------------------------------------------------------------------ ROI, configuration *)

Record roi_t := mkRoi { r_col_first : Z; r_col_last : Z; r_row_first : Z; r_row_last : Z;
                        r_m_left : Z; r_m_up : Z; r_m_right : Z; r_m_down : Z }.

(* the input section: a key is absent (None) or present (Some v); for mask / classif / segm the
   value is None or a path (the file behind it); "disp" is None, [min, max] or a grid path *)
Record xinputs := mkXin {
  xi_img : rfile sample;
  xi_nodata : sample;
  xi_mask : option (option (rfile Z));
  xi_disp : option disp_input;
  xi_classif : option (option (rfile Z));
  xi_segm : option (option (rfile Z)) }.

(* d = {k: default}; d.update(cfg); d[k] *)
Definition cfg_get {A} (default : A) (entry : option A) : A :=
  match entry with Some v => v | None => default end.
(* "k" in cfg *)
Definition cfg_has {A} (entry : option A) : bool :=
  match entry with Some _ => true | None => false end.

Definition is_none {A} (o : option A) : bool := match o with None => true | Some _ => false end.

(* the "disp" value: None / [min, max] / path of a two-band grid *)
Definition disp_is_none (d : disp_input) : bool := match d with DispNone => true | _ => false end.
Definition disp_is_str (d : disp_input) : bool := match d with DispGrid _ _ => true | _ => false end.
Definition disp_open (d : disp_input) : rfile sample :=
  match d with DispGrid g1 g2 => mkRfile [] [g1; g2] | _ => mkRfile [] [] end.
(* disparity[k] of a [min, max] list, written into a float array *)
Definition disp_item (d : disp_input) (k : Z) : sample :=
  match d with
  | DispPair a b => if k =? 0 then sz a else if k =? 1 then sz b else SNaN
  | _ => SNaN
  end.

(* ------------------------------------------------------------------ the xarray.Dataset *)

Record ximage := mkImage { im_dims : list string; im_data : nd sample }.
Record xcoords := mkCoords { co_band_im : option (list Z); co_row : list Z; co_col : list Z }.
Record xattrs := mkAttrs { at_valid_pixels : Z; at_no_data_mask : Z }.

Record xds := mkX {
  x_im : nd sample;
  x_im_dims : list string;
  x_band_im : option (list Z);
  x_row : list Z;
  x_col : list Z;
  x_valid_pixels : Z;                       (* attrs["valid_pixels"] *)
  x_no_data_mask : Z;                       (* attrs["no_data_mask"] *)
  x_no_data_img : option sample;            (* attrs["no_data_img"] *)
  x_disparity_source : option disp_input;   (* attrs["disparity_source"] *)
  x_msk : option (arr Z);
  x_band_disp : option (list string);
  x_disparity : option (list (arr sample));
  x_band_classif : option (list Z);
  x_classif : option (list (arr Z));
  x_segm : option (arr Z) }.

(* xr.Dataset(image, coords=coords, attrs=attributes) *)
Definition xr_dataset (i : ximage) (c : xcoords) (a : xattrs) : xds :=
  mkX (im_data i) (im_dims i) (co_band_im c) (co_row c) (co_col c)
      (at_valid_pixels a) (at_no_data_mask a) None None None None None None None None.

Definition ds_set_im (d : xds) (v : nd sample) : xds :=
  mkX v (x_im_dims d) (x_band_im d) (x_row d) (x_col d) (x_valid_pixels d) (x_no_data_mask d)
      (x_no_data_img d) (x_disparity_source d) (x_msk d) (x_band_disp d) (x_disparity d)
      (x_band_classif d) (x_classif d) (x_segm d).
Definition ds_set_no_data_img (d : xds) (v : sample) : xds :=
  mkX (x_im d) (x_im_dims d) (x_band_im d) (x_row d) (x_col d) (x_valid_pixels d) (x_no_data_mask d)
      (Some v) (x_disparity_source d) (x_msk d) (x_band_disp d) (x_disparity d)
      (x_band_classif d) (x_classif d) (x_segm d).
Definition ds_set_disparity_source (d : xds) (v : disp_input) : xds :=
  mkX (x_im d) (x_im_dims d) (x_band_im d) (x_row d) (x_col d) (x_valid_pixels d) (x_no_data_mask d)
      (x_no_data_img d) (Some v) (x_msk d) (x_band_disp d) (x_disparity d)
      (x_band_classif d) (x_classif d) (x_segm d).
Definition ds_put_msk (d : xds) (v : option (arr Z)) : xds :=
  mkX (x_im d) (x_im_dims d) (x_band_im d) (x_row d) (x_col d) (x_valid_pixels d) (x_no_data_mask d)
      (x_no_data_img d) (x_disparity_source d) v (x_band_disp d) (x_disparity d)
      (x_band_classif d) (x_classif d) (x_segm d).
Definition ds_set_msk (d : xds) (v : arr Z) : xds := ds_put_msk d (Some v).
Definition ds_set_band_disp (d : xds) (v : list string) : xds :=
  mkX (x_im d) (x_im_dims d) (x_band_im d) (x_row d) (x_col d) (x_valid_pixels d) (x_no_data_mask d)
      (x_no_data_img d) (x_disparity_source d) (x_msk d) (Some v) (x_disparity d)
      (x_band_classif d) (x_classif d) (x_segm d).
Definition ds_set_disparity (d : xds) (v : list (arr sample)) : xds :=
  mkX (x_im d) (x_im_dims d) (x_band_im d) (x_row d) (x_col d) (x_valid_pixels d) (x_no_data_mask d)
      (x_no_data_img d) (x_disparity_source d) (x_msk d) (x_band_disp d) (Some v)
      (x_band_classif d) (x_classif d) (x_segm d).
Definition ds_set_band_classif (d : xds) (v : list Z) : xds :=
  mkX (x_im d) (x_im_dims d) (x_band_im d) (x_row d) (x_col d) (x_valid_pixels d) (x_no_data_mask d)
      (x_no_data_img d) (x_disparity_source d) (x_msk d) (x_band_disp d) (x_disparity d)
      (Some v) (x_classif d) (x_segm d).
Definition ds_set_classif (d : xds) (v : list (arr Z)) : xds :=
  mkX (x_im d) (x_im_dims d) (x_band_im d) (x_row d) (x_col d) (x_valid_pixels d) (x_no_data_mask d)
      (x_no_data_img d) (x_disparity_source d) (x_msk d) (x_band_disp d) (x_disparity d)
      (x_band_classif d) (Some v) (x_segm d).
Definition ds_set_segm (d : xds) (v : arr Z) : xds :=
  mkX (x_im d) (x_im_dims d) (x_band_im d) (x_row d) (x_col d) (x_valid_pixels d) (x_no_data_mask d)
      (x_no_data_img d) (x_disparity_source d) (x_msk d) (x_band_disp d) (x_disparity d)
      (x_band_classif d) (x_classif d) (Some v).

(* dataset["im"].data[w] = v *)
Definition ds_im_assign_where (d : xds) (w : whereset) (v : sample) : xds :=
  ds_set_im d (nd_assign_where (x_im d) w v).
(* dataset["msk"].data[w] = v, w a 2-D np.where or a (rows, cols) pair of index arrays *)
Definition ds_msk_assign_where (d : xds) (w : Z -> Z -> bool) (v : Z) : xds :=
  ds_put_msk d (option_map (fun m => assign_where m w v) (x_msk d)).

(* dataset.sizes["row"], dataset.sizes["col"] : taken from the image variable *)
Definition ds_size_row (d : xds) : Z := fst (bands_shape (nd_bands (x_im d))).
Definition ds_size_col (d : xds) : Z := snd (bands_shape (nd_bands (x_im d))).

(* ------------------------------------------------------------------ results *)

(* create_dataset_from_inputs returns a dataset or raises what get_window raises *)
Inductive cres := COk (d : xds) | CRaiseOutside | CRaiseNegative.

(* window = <get_window(...) or None>; the rest of the function runs when nothing was raised *)
Definition bind_window (r : option window_result) (k : option (Z * Z * Z * Z) -> cres) : cres :=
  match r with
  | None => k None
  | Some (Window co ro w h) => k (Some (co, ro, w, h))
  | Some RaiseOutside => CRaiseOutside
  | Some RaiseNegative => CRaiseNegative
  end.

(* out_dtype of a read, as written in the source *)
Inductive dtype := DtFloat32 | DtInt16 | DtNative.
