(* The validity flag of ONE pixel along a whole pipeline: matching cost (criteria), cost-volume steps
   (aggregation, optimization, semantic_segmentation, cost_volume_confidence: the translator's scan of
   the package finds no write to a validity mask in them), disparity (WinnerTakesAll.to_disp:
   deepcopy of the cost volume's mask), then the disparity-map steps of Model/FlagSteps.v.
   Each step comes with the decision its numeric side takes at this pixel.  Definitions only. *)
From Coq Require Import ZArith List Bool.
From Pandora Require Import Model.Machine Model.Criteria Model.FlagSteps.
Import ListNotations.
Open Scope Z_scope.

Inductive cvk := CAgg | COpt | CSeg | CCvc.
Definition cvk_kind (k : cvk) : kind := match k with CAgg => Agg | COpt => Opt | CSeg => Seg | CCvc => Cvc end.

Inductive pstep :=
| PMc                 (* matching_cost *)
| PCv (k : cvk)       (* aggregation / optimization / semantic_segmentation / cost_volume_confidence *)
| PDsp                (* disparity *)
| PDm (s : fstep).    (* filter / refinement / validation / multiscale *)

Definition pkind (p : pstep) : kind :=
  match p with
  | PMc => MC
  | PCv k => cvk_kind k
  | PDsp => Dsp
  | PDm (SFlt _) => Flt
  | PDm SRef => Ref
  | PDm (SVal _) => Val
  | PDm SMsc => Msc
  end.

(* the disparity-map steps of a pipeline, in order *)
Definition fsteps_of (p : list (pstep * dec)) : list fstep :=
  flat_map (fun pd => match fst pd with PDm s => [s] | _ => [] end) p.

Section Run.
  Variables (E : env) (L : layout) (allnan : Z -> Z -> bool) (r c : Z).

  (* the pixel lies in one of the four slices of mask_border / the caller's `offset > 0` *)
  Definition px_border : bool :=
    negb ((off L <=? r) && (r + off L <=? nr L - 1) && (off L <=? c) && (c + off L <=? nc L - 1)).
  Definition px_offpos : bool := off L >? 0.

  (* state: the pixel's flag (None before the matching cost) and "every += / -= so far was carry-free" *)
  Definition run1 (st : option Z * bool) (pd : pstep * dec) : option Z * bool :=
    let '(cur, ok) := st in
    match fst pd with
    | PMc => (Some (after_mc E L allnan r c), ok)
    | PCv _ | PDsp => (cur, ok)
    | PDm s =>
      match cur with
      | Some m => (Some (t_step E px_offpos px_border s (snd pd) m),
                   ok && ok_step E px_offpos px_border s (snd pd) m)
      | None => (None, ok)
      end
    end.

  Definition run_pipe (p : list (pstep * dec)) : option Z * bool := fold_left run1 p (None, true).
End Run.
