(* Model of pandora/common.py save_results / write_data_array and of
   pandora/output_tree_design.py (C19).

   save_results is a fixed sequence of write_data_array calls, some of them guarded by
   `if "confidence_measure" in <side>` and all the right ones by `if len(right.sizes) != 0`.
   The sequence itself is DATA regenerated from /repo at every run (Gen/SavePlan.v:
   save_calls, by ast; otd, by import); this file interprets any such sequence.

   write_data_array:
     2-D array  -> count = 1, band 1 = the array
     3-D array  -> row, col, depth = shape; for dsp in 1..depth: band dsp = data[:, :, dsp-1];
                   descriptions = band_names when given
   Every sample goes through the cast of rasterio's write to the dtype of the file.

   A pixel is [PF None] (NaN), [PF (Some q)] (a finite float, as the rational it denotes) or
   [PI z] (an integer sample).  GeoTIFF encoding is outside the model: a [tif] holds what is
   handed to rasterio (contract "write then read returns the array", sampled by the harness).
   Definitions only. *)
From Coq Require Import ZArith QArith Qround List Bool String.
Import ListNotations.
Open Scope Z_scope.

Inductive dtype := F32 | U16.
Inductive side := SLeft | SRight.
Inductive var := VDisp | VConf | VMask.

Inductive px := PF (q : option Q) | PI (z : Z).

Definition dtype_eqb (a b : dtype) : bool :=
  match a, b with F32, F32 | U16, U16 => true | _, _ => false end.
Definition side_eqb (a b : side) : bool :=
  match a, b with SLeft, SLeft | SRight, SRight => true | _, _ => false end.
Definition var_eqb (a b : var) : bool :=
  match a, b with VDisp, VDisp | VConf, VConf | VMask, VMask => true | _, _ => false end.

(* one write_data_array call of save_results *)
Record call := mkCall {
  c_side : side;            (* dataset the array is taken from *)
  c_var : var;              (* which variable of it *)
  c_key : string;           (* key given to get_out_file_path *)
  c_dtype : dtype;          (* dtype= argument (float32 when absent) *)
  c_names : bool;           (* band_names=<side>[var]["indicator"].data given *)
  c_geo : side;             (* whose attrs["crs"], attrs["transform"] are passed *)
  c_guard : option var;     (* enclosing `if "<var>" in <side>` *)
  c_right_guard : bool;     (* inside `if len(right.sizes) != 0` *)
}.

(* ---- output tree: get_out_file_path(key) = os.path.join(OTD[key], key) *)
Fixpoint otd_lookup (k : string) (t : list (string * string)) : option string :=
  match t with
  | [] => None
  | (k', d) :: r => if String.eqb k k' then Some d else otd_lookup k r
  end.

Definition out_path (t : list (string * string)) (k : string) : option string :=
  match otd_lookup k t with
  | Some d => Some (d ++ "/" ++ k)%string
  | None => None                          (* KeyError *)
  end.

(* ---- casts (numpy astype as rasterio applies it before writing) *)
Section Cast.
  (* rounding of a real to the nearest float32 (IEEE contract: see Proofs/SaveP.v) *)
  Variable rnd : Q -> Q.

  (* C truncation toward zero *)
  Definition qtrunc (q : Q) : Z := if Qle_bool 0 q then Qfloor q else Qceiling q.

  Definition cast (t : dtype) (p : px) : px :=
    match t, p with
    | F32, PF None => PF None
    | F32, PF (Some q) => PF (Some (rnd q))
    | F32, PI z => PF (Some (rnd (inject_Z z)))
    | U16, PI z => PI (z mod 65536)
    | U16, PF (Some q) => PI (qtrunc q mod 65536)
    | U16, PF None => PI 0
    end.

  (* ---- datasets *)
  Variable G : Type.          (* (crs, transform) *)

  (* confidence_measure: the indicator coordinate and the (row, col, indicator) cube *)
  Record product := mkProduct {
    p_disp : list (list px);
    p_mask : list (list px);
    p_conf : option (list string * list (list (list px)));
    p_geo : G;
  }.

  Inductive arr :=
  | A2 (d : list (list px))
  | A3 (depth : nat) (d : list (list (list px))).       (* depth = shape[2] *)

  Record tif := mkTif {
    f_path : string;
    f_dtype : dtype;
    f_bands : list (list (list px));       (* band-major: what is written as band 1, 2, ... *)
    f_names : option (list string);        (* descriptions, None when never set *)
    f_geo : G;
  }.

  (* data[:, :, k] ; an index outside a pixel's list cannot happen on an xarray cube
     (side condition cube_wf of the theorems), the default is never read there *)
  Definition slice3 (k : nat) (d : list (list (list px))) : list (list px) :=
    map (map (fun pxs => nth k pxs (PF None))) d.

  Definition write_data_array (a : arr) (path : string) (t : dtype) (names : option (list string)) (g : G) : tif :=
    match a with
    | A2 d => mkTif path t [map (map (cast t)) d] None g
    | A3 depth d =>
      mkTif path t (map (fun k => map (map (cast t)) (slice3 k d)) (seq 0 depth)) names g
    end.

  (* `"<var>" in dataset` *)
  Definition has_var (p : product) (v : var) : bool :=
    match v with
    | VConf => match p_conf p with Some _ => true | None => false end
    | _ => true
    end.

  (* dataset[var] as an array and its indicator coordinate; None = KeyError *)
  Definition get_var (p : product) (v : var) : option (arr * list string) :=
    match v with
    | VDisp => Some (A2 (p_disp p), [])
    | VMask => Some (A2 (p_mask p), [])
    | VConf => match p_conf p with
               | Some (names, d) => Some (A3 (List.length names) d, names)
               | None => None
               end
    end.

  Section Plan.
    Variable otd : list (string * string).
    Variable left : product.
    Variable right : option product.     (* None: the empty Dataset (len(right.sizes) == 0) *)

    Definition ds_of (s : side) : option product :=
      match s with SLeft => Some left | SRight => right end.

    (* None = the call raises (KeyError on an absent variable / key, attrs of the empty dataset) *)
    Definition run_call (c : call) : option (list tif) :=
      if c_right_guard c && (match right with None => true | Some _ => false end) then Some []
      else
        match ds_of (c_side c), ds_of (c_geo c) with
        | Some p, Some pg =>
          if match c_guard c with Some v => negb (has_var p v) | None => false end then Some []
          else
            match get_var p (c_var c), out_path otd (c_key c) with
            | Some (a, names), Some path =>
              Some [write_data_array a path (c_dtype c) (if c_names c then Some names else None) (p_geo pg)]
            | _, _ => None
            end
        | _, _ => None
        end.

    (* files are written in call order; a later write to the same path would replace the
       earlier file (plan_wf excludes it) *)
    Fixpoint run_calls (cs : list call) : option (list tif) :=
      match cs with
      | [] => Some []
      | c :: r =>
        match run_call c, run_calls r with
        | Some a, Some b => Some (a ++ b)
        | _, _ => None
        end
      end.
  End Plan.
End Cast.

Arguments mkProduct {G}.
Arguments p_disp {G}. Arguments p_mask {G}. Arguments p_conf {G}. Arguments p_geo {G}.
Arguments mkTif {G}.
Arguments f_path {G}. Arguments f_dtype {G}. Arguments f_bands {G}. Arguments f_names {G}. Arguments f_geo {G}.
