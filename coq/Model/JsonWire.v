(* JSON values on the extraction wire (Lib/Value.v):
     (0 z) int | (1 num den) float | (2) nan | (3 neg) inf | (4 c1 c2 ...) str (char codes)
     (5 b) bool | (6) null | (7 e1 e2 ...) list | (8 (key value) ...) dict, key = (c1 c2 ...)
   Definitions only. *)
From Coq Require Import ZArith QArith List Bool String Ascii NArith.
From Pandora Require Import Lib.Value Model.Json.
Import ListNotations.
Open Scope Z_scope.

Definition ascii_of_z (z : Z) : ascii := ascii_of_N (Z.to_N z).
Definition z_of_ascii (a : ascii) : Z := Z.of_N (N_of_ascii a).

Fixpoint str_of_codes (l : list value) : string :=
  match l with
  | [] => EmptyString
  | c :: r => String (ascii_of_z (as_z c)) (str_of_codes r)
  end.

Fixpoint codes_of_str (s : string) : list value :=
  match s with
  | EmptyString => []
  | String a r => VZ (z_of_ascii a) :: codes_of_str r
  end.

Definition as_str (v : value) : string := str_of_codes (as_l v).
Definition of_str (s : string) : value := VL (codes_of_str s).

Fixpoint dec_jv (v : value) {struct v} : jv :=
  match v with
  | VL (VZ tag :: args) =>
    match tag with
    | 0 => JInt (match args with a :: _ => as_z a | [] => 0 end)
    | 1 => match args with
           | [VZ n; VZ d] => JFloat (Qmake n (Z.to_pos d))
           | _ => JNan
           end
    | 2 => JNan
    | 3 => JInf (match args with a :: _ => as_b a | [] => false end)
    | 4 => JStr (str_of_codes args)
    | 5 => JBool (match args with a :: _ => as_b a | [] => false end)
    | 6 => JNull
    | 7 => JList (map dec_jv args)
    | 8 => JDict (map (fun p => match p with
                               | VL [k; x] => (as_str k, dec_jv x)
                               | _ => (EmptyString, JNull)
                               end) args)
    | _ => JNull
    end
  | _ => JNull
  end.

Definition dec_dict (v : value) : dict :=
  match dec_jv v with JDict d => d | _ => [] end.

Fixpoint enc_jv (v : jv) {struct v} : value :=
  match v with
  | JInt z => VL [VZ 0; VZ z]
  | JFloat q => let r := Qred q in VL [VZ 1; VZ (Qnum r); VZ (Zpos (Qden r))]
  | JNan => VL [VZ 2]
  | JInf b => VL [VZ 3; of_b b]
  | JStr s => VL (VZ 4 :: codes_of_str s)
  | JBool b => VL [VZ 5; of_b b]
  | JNull => VL [VZ 6]
  | JList l => VL (VZ 7 :: map enc_jv l)
  | JDict d => VL (VZ 8 :: map (fun p => VL [of_str (fst p); enc_jv (snd p)]) d)
  end.

Definition enc_odict (o : option dict) : value :=
  match o with
  | Some d => VL [VZ 1; enc_jv (JDict d)]
  | None => VL [VZ 0]
  end.
