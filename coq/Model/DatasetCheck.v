(* C17, first half: model of check_dataset / check_datasets / check_shape / check_attributes /
   check_band_names / check_disparities_from_dataset of pandora/check_configuration.py, in the
   code's order of tests, with the class of the exception that is raised.

   A dataset is described by exactly what those functions look at:
     - the variable "im" (absent, or its numpy shape and its cells, NaN = None),
     - the coordinate "band_im" (absent, or for each band whether isinstance(band, str)),
     - the variable "disparity" (absent, or: its numpy shape, whether it has a "band_disp"
       coordinate, the labels of that coordinate, and for every pixel the vector of its
       per-band values),
     - every other data variable, by name and numpy shape,
     - the names of the attributes.
   Definitions only (no proofs). *)
From Coq Require Import ZArith QArith List Bool String.
Import ListNotations.
Open Scope Z_scope.

(* classes of the exceptions Pandora's input checking raises (and lets escape) *)
Inductive exc :=
| EAttribute      (* AttributeError *)
| EType           (* TypeError *)
| EValue          (* ValueError *)
| EKey            (* KeyError *)
| EIndex          (* IndexError *)
| ESchema         (* json_checker CheckerError family (DictCheckerError, MissKeyCheckerError, ...) *)
| EIO.            (* rasterio.errors.RasterioIOError: a path that cannot be opened *)

Inductive res (A : Type) :=
| Ok (a : A)
| Raise (e : exc).
Arguments Ok {A} a.
Arguments Raise {A} e.

Definition is_ok {A} (r : res A) : bool := match r with Ok _ => true | Raise _ => false end.

(* sequencing of statements that may raise *)
Definition andthen (r : res unit) (k : res unit) : res unit :=
  match r with Ok _ => k | Raise e => Raise e end.

Definition cell := option Q.     (* None = NaN *)

Definition is_nan (c : cell) : bool := match c with None => true | Some _ => false end.

(* labels of the band_disp coordinate *)
Inductive label := LMin | LMax | LOther (z : Z).

Definition label_eqb (a b : label) : bool :=
  match a, b with
  | LMin, LMin | LMax, LMax => true
  | LOther x, LOther y => x =? y
  | _, _ => false
  end.

Definition shape := list Z.

Record image := mkImage {
  im_shape : shape;           (* dataset["im"].data.shape *)
  im_cells : list cell;       (* every value of the array *)
}.

Record disparity := mkDisp {
  d_shape : shape;            (* dataset["disparity"].data.shape *)
  d_has_coord : bool;         (* "band_disp" in disparity.coords *)
  d_labels : list label;      (* disparity.coords["band_disp"].data *)
  d_pixels : list (list cell) (* for every pixel, its values along band_disp *)
}.

Record dataset := mkDs {
  ds_im : option image;
  ds_band_im : option (list bool);        (* band_im coordinate: is each band name a str *)
  ds_disp : option disparity;
  ds_vars : list (string * shape);        (* the other data variables (msk, classif, segm, ...) *)
  ds_attrs : list string;
}.

(* x.shape[-2:] *)
Definition last2 (s : shape) : shape := skipn (List.length s - 2) s.

Fixpoint shape_eqb (a b : shape) : bool :=
  match a, b with
  | [], [] => true
  | x :: a', y :: b' => (x =? y) && shape_eqb a' b'
  | _, _ => false
  end.

Fixpoint mem_label (l : label) (ls : list label) : bool :=
  match ls with [] => false | x :: r => label_eqb l x || mem_label l r end.

(* position of the first band carrying the label (what .sel(band_disp=l) selects when labels
   are distinct) *)
Fixpoint index_of (l : label) (ls : list label) : nat :=
  match ls with
  | [] => O
  | x :: r => if label_eqb l x then O else S (index_of l r)
  end.

(* numpy `a > b` on two cells: False as soon as one is NaN *)
Definition cell_gt (a b : cell) : bool :=
  match a, b with
  | Some x, Some y => negb (Qle_bool x y)
  | _, _ => false
  end.

Fixpoint mem_string (s : string) (l : list string) : bool :=
  match l with [] => false | x :: r => String.eqb s x || mem_string s r end.

(* ---- check_disparities_from_dataset *)
Definition check_disparities_from_dataset (d : disparity) : res unit :=
  if negb (d_has_coord d) then Raise EAttribute
  else if negb (mem_label LMin (d_labels d) && mem_label LMax (d_labels d)) then Raise EAttribute
  else
    let imin := index_of LMin (d_labels d) in
    let imax := index_of LMax (d_labels d) in
    if existsb (fun px => cell_gt (nth imin px None) (nth imax px None)) (d_pixels d)
    then Raise EAttribute
    else Ok tt.

(* ---- check_band_names *)
Definition check_band_names (ds : dataset) : res unit :=
  match ds_band_im ds with
  | Some bands => if forallb (fun b => b) bands then Ok tt else Raise EType
  | None => Ok tt
  end.

(* ---- check_shape(dataset, "im", test) for every data variable other than "im" *)
Definition check_shapes (im : image) (shapes : list shape) : res unit :=
  if forallb (fun s => shape_eqb (last2 (im_shape im)) (last2 s)) shapes then Ok tt else Raise EValue.

(* ---- check_attributes *)
Definition check_attributes (mandatory : list string) (ds : dataset) : res unit :=
  if forallb (fun a => mem_string a (ds_attrs ds)) mandatory then Ok tt else Raise EAttribute.

(* the shapes of the data variables other than "im" (the disparity variable is one of them) *)
Definition other_shapes (ds : dataset) : list shape :=
  (match ds_disp ds with Some d => [d_shape d] | None => [] end) ++ map snd (ds_vars ds).

Section Check.
  (* the set literal of check_dataset, regenerated from the source (Gen/InputFlow.v) *)
  Variable mandatory : list string.

  Definition check_dataset (ds : dataset) : res unit :=
    match ds_im ds with
    | None => Raise EAttribute                               (* "im" not in dataset *)
    | Some im =>
      andthen (check_band_names ds)
      (andthen (if forallb is_nan (im_cells im) then Raise EValue else Ok tt)
      (andthen (match ds_disp ds with Some d => check_disparities_from_dataset d | None => Ok tt end)
      (andthen (check_shapes im (other_shapes ds))
               (check_attributes mandatory ds))))
    end.

  Definition check_datasets (l r : dataset) : res unit :=
    andthen (check_dataset l)
    (andthen (check_dataset r)
    (match ds_disp l with
     | None => Raise EAttribute
     | Some _ =>
       match ds_im l, ds_im r with
       | Some il, Some ir =>
         if shape_eqb (last2 (im_shape il)) (last2 (im_shape ir)) then Ok tt else Raise EAttribute
       | _, _ => Raise EAttribute     (* unreachable: both check_dataset passed *)
       end
     end)).
End Check.
