(* C12 -- the left side of the machine state as far as the confidence bands are concerned, and the
   built-in steps for which a model exists, as functions on the WHOLE state (datasets with their bands):

     cost_volume_confidence_run  -> [conf_exec]   bands computed by Model/Confidence.v from the cost volume
                                                  (and, for the regularised bounds, from an ambiguity band)
     disparity_run (wta)         -> [wta_exec]    Model/Wta.v  to_disp, which is handed the bands of the
                                                  cost volume and gives them to the disparity dataset
     aggregation_run (cbca)      -> [cbca_exec]   Model/Cbca.v cbca_volume on the cost volume (in place)
     refinement_run              -> [refine_exec] Model/Refine.v refine_map on (cost volume, disparity map,
                                                  validity mask) (in place)

   The step functions receive the bands with the rest of the state; that their core result does not
   depend on them is proved in Proofs/ConfPipelineP.v, not built into their type.
   The kernels are those of the models tied to the code by the correspondences of C03 / C06 / C11 / C12;
   the glue between their array representations ([volume_of], [cv_of_planes], the row-major pixel list)
   is written here and is NOT exercised by a correspondence check.
   A state component is [None] once a step has raised (a later step of the real run never executes).
   Definitions only. *)
From Coq Require Import ZArith QArith List Bool.
From Pandora Require Import Lib.Ext.
From Pandora Require Model.Wta Model.Cbca Model.Refine Model.Confidence.
Import ListNotations.
Open Scope Z_scope.

Definition band := list (list (option Q)).
(* (bands of left_disparity, bands of left_cv), as in Model/Confidence.v *)
Definition conf := (Confidence.dsbands band * Confidence.dsbands band)%type.

Record core := mkCore {
  k_nr : Z; k_nc : Z;
  k_max : bool;                               (* cv.attrs["type_measure"] == "max" *)
  k_subpix : Z;                               (* cv.attrs["subpixel"] *)
  k_disps : list Q;                           (* cv.coords["disp"] *)
  k_cv : Z -> Z -> list cost;                 (* left_cv["cost_volume"] *)
  k_cvmask : Z -> Z -> Z;                     (* left_cv["validity_mask"] *)
  k_disp : option ((Z -> Z -> option Q) * (Z -> Z -> Z))
                                              (* left_disparity: disparity_map, validity_mask; None before
                                                 the disparity step *)
}.

(* None = a step has raised *)
Definition state := (option core * option conf)%type.

(* ------------------------------------------------------------------ glue between representations *)

Definition fin_of (c : cost) : option Q := match c with Some (Fin q) => Some q | _ => None end.
Definition of_fin (o : option Q) : cost := option_map Fin o.

Definition volume_of (k : core) : Confidence.volume :=
  Cbca.tabulate (k_nr k) (k_nc k) (fun r c => map fin_of (k_cv k r c)).

Fixpoint zs_eqb (a b : list Z) : bool :=
  match a, b with
  | [], [] => true
  | x :: ra, y :: rb => (x =? y) && zs_eqb ra rb
  | _, _ => false
  end.

Definition cv_bands (b : option conf) : list (Confidence.name * band) :=
  match b with Some (_, Some (Some l)) => l | _ => [] end.

Definition ocell (m : band) (r c : Z) : option Q :=
  if (r <? 0) || (c <? 0) then None
  else match nth_error m (Z.to_nat r) with
       | Some row => match nth_error row (Z.to_nat c) with Some x => x | None => None end
       | None => None
       end.

(* ------------------------------------------------------------------ confidence steps *)

Inductive cmethod :=
| MAmb (normalization : bool) (percentile : Q) (etas : list Q)
| MRisk (etas : list Q)
| MBounds (thr : Q)
          (* regularization: name of the ambiguity band, ambiguity_threshold, ambiguity_kernel_size,
             vertical_depth, quantile_regularization *)
          (reg : option (Confidence.name * Q * Z * Z * Q))
| MStd (eps : Q) (w : Z) (img : list (list (option Q))).

Definition method_of (m : cmethod) : Confidence.method :=
  match m with
  | MAmb _ _ _ => Confidence.Amb | MRisk _ => Confidence.Risk
  | MBounds _ _ => Confidence.Bounds | MStd _ _ _ => Confidence.Std
  end.

(* the bands a confidence step computes; None = it raises (KeyError: the ambiguity band asked for by the
   regularisation is not in the cost volume dataset) *)
Definition new_bands (k : core) (b : conf) (m : cmethod) : option (list band) :=
  let v := volume_of k in
  let is_min := negb (k_max k) in
  match m with
  | MAmb norm p etas => Some [Confidence.amb_confidence true norm is_min p etas v]
  | MRisk etas =>
    let rm := Confidence.risk_map etas (Confidence.orient is_min v) in
    Some [map (map fst) rm; map (map snd) rm]
  | MBounds thr reg =>
    let bm := Confidence.bounds_map (Confidence.type_factor is_min) thr (k_disps k) v in
    let binf := map (map fst) bm in
    let bsup := map (map snd) bm in
    match reg with
    | None => Some [binf; bsup]
    | Some (nm, athr, ks, depth, q) =>
      match find (fun nb => zs_eqb (fst nb) nm) (cv_bands (Some b)) with
      | Some (_, amb) =>
        let r := Confidence.regularize binf bsup (map (map Confidence.nan0) amb) athr ks depth q in
        Some [fst r; snd r]
      | None => None
      end
    end
  | MStd eps w img => Some [Confidence.std_band eps w img]
  end.

Definition conf_bands (step : Confidence.name) (m : cmethod) (ko : option core) (bo : option conf)
  : option conf :=
  match ko, bo with
  | Some k, Some b =>
    match new_bands k b m with
    | Some news => Some (Confidence.conf_step step (method_of m) news b)
    | None => None
    end
  | _, _ => None
  end.

Definition conf_exec (step : Confidence.name) (m : cmethod) (st : state) : state :=
  (fst st, conf_bands step m (fst st) (snd st)).

(* ------------------------------------------------------------------ disparity (winner takes all) *)

(* to_disp: disp_map["confidence_measure"] = cv["confidence_measure"] when the cost volume has bands *)
Definition hand_over (b : conf) : conf :=
  (match snd b with Some (Some l) => Some (Some l) | _ => Some None end, snd b).

Definition wta_exec (B : Z) (invalid : option Q) (st : state) : state :=
  match fst st with
  | None => st
  | Some k =>
    let bands := cv_bands (snd st) in
    let confpix := fun r c => map (fun nb : Confidence.name * band => ocell (snd nb) r c) bands in
    let o := Wta.to_disp (k_max k) B (k_nr k) (k_nc k) (k_disps k) invalid (k_cv k) confpix (k_cvmask k) in
    (Some (mkCore (k_nr k) (k_nc k) (k_max k) (k_subpix k) (k_disps k) (Wta.o_cv o) (k_cvmask k)
                  (Some (Wta.o_disp o, Wta.o_mask o))),
     option_map hand_over (snd st))
  end.

(* ------------------------------------------------------------------ aggregation (cbca) *)

Record cbca_params := mkCbcaP {
  p_off : Z; p_dist : Z; p_inten : Q;
  p_imL : Cbca.img; p_mskL : option (Z -> Z -> Z); p_validL : Z;
  p_imR : Z -> Cbca.img; p_mskR : option (Z -> Z -> Z); p_validR : Z
}.

Definition cbca_input (p : cbca_params) (k : core) : Cbca.cbca_in :=
  Cbca.mkIn (k_nr k) (k_nc k) (p_off p) (k_subpix k) (p_dist p) (p_inten p)
            (p_imL p) (p_mskL p) (p_validL p) (p_imR p) (p_mskR p) (p_validR p) (k_disps k)
            (fun d r c => fin_of (nth (Z.to_nat d) (k_cv k r c) None)).

Definition cv_of_planes (n : nat) (planes : list (list (list (option Q)))) : Z -> Z -> list cost :=
  fun r c => map (fun d => of_fin (Cbca.lookup None (nth d planes []) r c)) (seq 0 n).

Definition cbca_exec (p : cbca_params) (st : state) : state :=
  match fst st with
  | None => st
  | Some k =>
    let planes := Cbca.cbca_volume (cbca_input p k) in
    (Some (mkCore (k_nr k) (k_nc k) (k_max k) (k_subpix k) (k_disps k)
                  (cv_of_planes (length (k_disps k)) planes) (k_cvmask k) (k_disp k)),
     snd st)
  end.

(* ------------------------------------------------------------------ refinement *)

Definition pixel_coords (nr nc : Z) : list (Z * Z) :=
  flat_map (fun r => map (fun c => (r, c)) (Cbca.zrange 0 nc)) (Cbca.zrange 0 nr).

Definition refine_exec (K : Refine.consts) (me : Refine.method) (st : state) : state :=
  match fst st with
  | None => st
  | Some k =>
    match k_disp k with
    | None => (None, snd st)               (* left_disparity is None: the call raises *)
    | Some (d, msk) =>
      let px := map (fun rc : Z * Z => Refine.mkPx (map fin_of (k_cv k (fst rc) (snd rc))) (d (fst rc) (snd rc))
                                                   (msk (fst rc) (snd rc)))
                    (pixel_coords (k_nr k) (k_nc k)) in
      let meas := if k_max k then Refine.MMax else Refine.MMin in
      match Refine.refine_map K me meas (hd 0%Q (k_disps k)) (last (k_disps k) 0%Q) (k_subpix k) px with
      | Refine.IOk l =>
        let get := fun r c => nth (Z.to_nat (r * k_nc k + c)) l (None, None, 0) in
        (Some (mkCore (k_nr k) (k_nc k) (k_max k) (k_subpix k) (k_disps k) (k_cv k) (k_cvmask k)
                      (Some (fun r c => fst (fst (get r c)), fun r c => snd (get r c)))),
         snd st)
      | _ => (None, snd st)
      end
    end
  end.

(* ------------------------------------------------------------------ pipelines of these steps *)

Inductive bstep :=
| SConf (step : Confidence.name) (m : cmethod)
| SWta (B : Z) (invalid : option Q)
| SCbca (p : cbca_params)
| SRefine (K : Refine.consts) (me : Refine.method).

Definition bexec1 (st : state) (s : bstep) : state :=
  match s with
  | SConf step m => conf_exec step m st
  | SWta B invalid => wta_exec B invalid st
  | SCbca p => cbca_exec p st
  | SRefine K me => refine_exec K me st
  end.

Definition bexec (p : list bstep) (st : state) : state := fold_left bexec1 p st.

Definition is_builtin (s : bstep) : bool := match s with SConf _ _ => false | _ => true end.
