(* C13 -- the local steps of a Pandora pipeline as operations on a raster of per-pixel states, built
   from the step models of the other properties (nothing is re-modelled here):

     matching cost               Model/MatchingCost.v  sad / ssd / census / zncc _volume (C02)
       and its validity mask     Model/Criteria.v      after_mc                          (C04)
     cbca aggregation            Model/Cbca.v          cbca_volume                       (C11)
     winner-takes-all            Model/Wta.v           to_disp                           (C03)
     sub-pixel refinement        Model/Refine.v        loop_pixel                        (C06)
     median filter               Model/Filters.v       median_filter_disparity           (C10)
     bilateral filter            Model/Filters.v       bilateral_filter_disparity        (C10)
     cross-checking              Model/CrossCheck.v    xcheck (left, then right)         (C07)

   The state of a pixel ([pix]) holds what the machine holds for it: radiometry and mask value of the
   two images, the two cost curves (left / right cost volume along the disparity axis), the two
   disparities and the two validity flags.  With a validation step in the pipeline every step is
   executed for the right image too, with the images exchanged and the interval [-dmax, -dmin]
   (state_machine.py; C08): each step below does both.

   Definitions only. *)
From Coq Require Import ZArith QArith Qround List Bool.
From Pandora Require Import Lib.Ext Spec.Local.
From Pandora Require Model.MatchingCost Model.Criteria Model.Wta Model.Refine Model.Filters Model.CrossCheck Model.Cbca.
Import ListNotations.
Open Scope Z_scope.

Record pix : Type := mkPix {
  p_L : Z; p_R : Z;                               (* radiometry of the left / right image *)
  p_mL : Z; p_mR : Z;                             (* mask values (read only when the image has a mask) *)
  p_cvL : list (option Q); p_cvR : list (option Q);   (* cost curves of the left / right cost volume *)
  p_dL : option Q; p_dR : option Q;               (* disparity maps *)
  p_fL : Z; p_fR : Z                              (* validity masks *)
}.

(* the input part of a state: what no step rewrites *)
Definition img_of (p : pix) : Z * Z * Z * Z := (p_L p, p_R p, p_mL p, p_mR p).

Definition set_cv (p : pix) (cl cr : list (option Q)) : pix :=
  mkPix (p_L p) (p_R p) (p_mL p) (p_mR p) cl cr (p_dL p) (p_dR p) (p_fL p) (p_fR p).
Definition set_mc (p : pix) (cl cr : list (option Q)) (fl fr : Z) : pix :=
  mkPix (p_L p) (p_R p) (p_mL p) (p_mR p) cl cr (p_dL p) (p_dR p) fl fr.
Definition set_disp (p : pix) (dl dr : option Q) (fl fr : Z) : pix :=
  mkPix (p_L p) (p_R p) (p_mL p) (p_mR p) (p_cvL p) (p_cvR p) dl dr fl fr.

(* the parameters shared by the steps of one pipeline *)
Record cfg : Type := mkCfg {
  g_w : Z; g_s : Z;                (* window_size, subpix *)
  g_dmin : Z; g_dmax : Z;          (* disparity interval of the left image *)
  g_hasL : bool; g_hasR : bool;    (* "msk" in the left / right dataset *)
  g_vp : Z; g_nd : Z               (* attrs valid_pixels, no_data_mask (same for both images) *)
}.

Definition fld {B} (g : pix -> B) (F : frame pix) : Z -> Z -> B := fun r c => g (f_at F r c).
Definition omask (has : bool) (m : Z -> Z -> Z) : option (Z -> Z -> Z) := if has then Some m else None.

(* ------------------------------------------------------------------ matching cost *)

Definition inp_left (G : cfg) (F : frame pix) : MatchingCost.mc_input :=
  MatchingCost.MkIn (f_nr F) (f_nc F) (g_w G) (g_s G) (fld p_L F) (fld p_R F)
    (omask (g_hasL G) (fld p_mL F)) (omask (g_hasR G) (fld p_mR F)) (g_vp G) (g_nd G)
    (fun _ _ => g_dmin G) (fun _ _ => g_dmax G).
(* the mirrored problem: images exchanged, interval [-dmax, -dmin] *)
Definition inp_right (G : cfg) (F : frame pix) : MatchingCost.mc_input :=
  MatchingCost.MkIn (f_nr F) (f_nc F) (g_w G) (g_s G) (fld p_R F) (fld p_L F)
    (omask (g_hasR G) (fld p_mR F)) (omask (g_hasL G) (fld p_mL F)) (g_vp G) (g_nd G)
    (fun _ _ => - g_dmax G) (fun _ _ => - g_dmin G).

Definition n_disp (G : cfg) : Z := MatchingCost.nb_disp (g_s G) (g_dmin G) (g_dmax G).

(* the costs of one pixel along the disparity axis *)
Definition curve (vol : Z -> Z -> Z -> option Q) (n r c : Z) : list (option Q) :=
  map (fun k => vol r c k) (MatchingCost.zrange 0 n).

Definition lay_left (G : cfg) (F : frame pix) : Criteria.layout :=
  Criteria.mkLayout (f_nr F) (f_nc F) (MatchingCost.offset (g_w G)) (g_dmin G) (g_dmax G)
    (g_hasL G) (g_hasR G) (fld p_mL F) (fld p_mR F) (g_nd G) (g_vp G) (g_nd G) (g_vp G).
Definition lay_right (G : cfg) (F : frame pix) : Criteria.layout :=
  Criteria.mkLayout (f_nr F) (f_nc F) (MatchingCost.offset (g_w G)) (- g_dmax G) (- g_dmin G)
    (g_hasR G) (g_hasL G) (fld p_mR F) (fld p_mL F) (g_nd G) (g_vp G) (g_nd G) (g_vp G).

Definition all_nan (l : list (option Q)) : bool :=
  forallb (fun o => match o with None => true | Some _ => false end) l.

(* the four measures.  A zncc cell of the model is the exact integer triple (cov, varL, varR) (scaled, C02); the cost
   cov / sqrt(varL varR) is irrational in general: [zq] is whatever evaluates it from the triple (the float32
   arithmetic of the code) -- DATA, like the Gaussian kernels of the bilateral filter: the theorems hold for
   EVERY function [zq] *)
Inductive mmeas : Type :=
| MSad | MSsd | MCensus
| MZncc (zq : Z * Z * Z -> Q).

Definition mc_vol (m : mmeas) (inp : MatchingCost.mc_input) (dmin dmax : Z) : Z -> Z -> Z -> option Q :=
  match m with
  | MSad => MatchingCost.sad_volume inp dmin dmax
  | MSsd => MatchingCost.ssd_volume inp dmin dmax
  | MCensus => MatchingCost.census_volume inp dmin dmax
  | MZncc zq => fun r c k => MatchingCost.omap zq (MatchingCost.zncc_volume inp dmin dmax r c k)
  end.

Definition mc_step (m : mmeas) (E : Criteria.env) (G : cfg) : op pix pix := fun F r c =>
  let cl := curve (mc_vol m (inp_left G F) (g_dmin G) (g_dmax G)) (n_disp G) r c in
  let cr := curve (mc_vol m (inp_right G F) (- g_dmax G) (- g_dmin G)) (n_disp G) r c in
  set_mc (f_at F r c) cl cr
    (Criteria.after_mc E (lay_left G F) (fun _ _ => all_nan cl) r c)
    (Criteria.after_mc E (lay_right G F) (fun _ _ => all_nan cr) r c).

(* ------------------------------------------------------------------ winner-takes-all *)

Definition to_cost (o : option Q) : cost := match o with Some q => Some (Fin q) | None => None end.
(* the sampled disparities dmin, dmin + 1/s, ..., dmax *)
Definition disps (s dmin n : Z) : list Q :=
  map (fun k => Qred (inject_Z dmin + (k # Z.to_pos s))%Q) (MatchingCost.zrange 0 n).

Definition wta_step (mx : bool) (B : Z) (invalid : option Q) (G : cfg) : op pix pix := fun F r c =>
  let oL := Wta.to_disp mx B (f_nr F) (f_nc F) (disps (g_s G) (g_dmin G) (n_disp G)) invalid
              (fun r c => map to_cost (p_cvL (f_at F r c))) (fun _ _ => []) (fld p_fL F) in
  let oR := Wta.to_disp mx B (f_nr F) (f_nc F) (disps (g_s G) (- g_dmax G) (n_disp G)) invalid
              (fun r c => map to_cost (p_cvR (f_at F r c))) (fun _ _ => []) (fld p_fR F) in
  set_disp (f_at F r c) (Wta.o_disp oL r c) (Wta.o_disp oR r c) (Wta.o_mask oL r c) (Wta.o_mask oR r c).

(* ------------------------------------------------------------------ cbca aggregation
   aggregation_run: cost_volume_aggregation on the left cost volume, and on the right one (images exchanged,
   interval [-dmax, -dmin]) when the pipeline has a validation step.  The validity masks are not touched.
   The images are the float32 rasters (integers here), the s-th shifted right image is the linear interpolation
   at columns j + s/subpix (shift_right_img), the disparities are the samples of the cost volume. *)
Definition qimg (I : Z -> Z -> Z) : Cbca.img := fun r c => Some (inject_Z (I r c)).
Definition shifted (sub : Z) (R : Z -> Z -> Z) (s : Z) : Cbca.img :=
  fun r c => Some (Qred (MatchingCost.shift_right sub R s r c # Z.to_pos sub)).
Definition cv_at (cv : pix -> list (option Q)) (F : frame pix) (k r c : Z) : option Q :=
  nth (Z.to_nat k) (cv (f_at F r c)) None.

Definition cbca_left (dist : Z) (inten : Q) (G : cfg) (F : frame pix) : Cbca.cbca_in :=
  Cbca.mkIn (f_nr F) (f_nc F) (MatchingCost.offset (g_w G)) (g_s G) dist inten
    (qimg (fld p_L F)) (omask (g_hasL G) (fld p_mL F)) (g_vp G)
    (shifted (g_s G) (fld p_R F)) (omask (g_hasR G) (fld p_mR F)) (g_vp G)
    (disps (g_s G) (g_dmin G) (n_disp G)) (cv_at p_cvL F).
Definition cbca_right (dist : Z) (inten : Q) (G : cfg) (F : frame pix) : Cbca.cbca_in :=
  Cbca.mkIn (f_nr F) (f_nc F) (MatchingCost.offset (g_w G)) (g_s G) dist inten
    (qimg (fld p_R F)) (omask (g_hasR G) (fld p_mR F)) (g_vp G)
    (shifted (g_s G) (fld p_L F)) (omask (g_hasL G) (fld p_mL F)) (g_vp G)
    (disps (g_s G) (- g_dmax G) (n_disp G)) (cv_at p_cvR F).

(* cost_volume[k][r][c] after the aggregation *)
Definition cbca_at (x : Cbca.cbca_in) (k r c : Z) : option Q :=
  Cbca.lookup None (nth (Z.to_nat k) (Cbca.cbca_volume x) []) r c.

Definition cbca_step (dist : Z) (inten : Q) (G : cfg) : op pix pix := fun F r c =>
  set_cv (f_at F r c)
    (map (fun k => cbca_at (cbca_left dist inten G F) k r c) (MatchingCost.zrange 0 (n_disp G)))
    (map (fun k => cbca_at (cbca_right dist inten G F) k r c) (MatchingCost.zrange 0 (n_disp G))).

(* ------------------------------------------------------------------ refinement (vfit / quadratic)
   One pixel of loop_refinement.  A pixel on which the kernel raises (division by zero) or reads
   outside the disparity axis makes the whole CALL fail (C06's subject); here its outcome is recorded
   as disparity NaN with flag -1 so that the step stays a total per-pixel function. *)
Definition refine_px (K : Refine.consts) (me : Refine.method) (m : Refine.measure) (dmin dmax : Z) (s : Z)
           (cv : list (option Q)) (d : option Q) (f : Z) : option Q * Z :=
  match Refine.loop_pixel K me m (inject_Z dmin) (inject_Z dmax) s cv d f with
  | Refine.POk d' _ f' => (d', f')
  | _ => (None, -1)
  end.

Definition refine_step (K : Refine.consts) (me : Refine.method) (m : Refine.measure) (G : cfg) : op pix pix :=
  fun F r c =>
    let p := f_at F r c in
    let l := refine_px K me m (g_dmin G) (g_dmax G) (g_s G) (p_cvL p) (p_dL p) (p_fL p) in
    let r_ := refine_px K me m (- g_dmax G) (- g_dmin G) (g_s G) (p_cvR p) (p_dR p) (p_fR p) in
    set_disp p (fst l) (fst r_) (snd l) (snd r_).

(* ------------------------------------------------------------------ filters
   An image smaller than the window is left untouched by median_filter (early return of the repaired
   code): it cannot happen when the cone of the pixel is inside the image. *)
Definition median_map (inv B w ny nx : Z) (disp : Z -> Z -> option Q) (mask : Z -> Z -> Z) (r c : Z) : option Q :=
  fst (Filters.median_filter_disparity inv B w ny nx disp mask) r c.

Definition median_step (inv B w : Z) : op pix pix := fun F r c =>
  let p := f_at F r c in
  set_disp p (median_map inv B w (f_nr F) (f_nc F) (fld p_dL F) (fld p_fL F) r c)
             (median_map inv B w (f_nr F) (f_nc F) (fld p_dR F) (fld p_fR F) r c) (p_fL p) (p_fR p).

Definition bilateral_step (inv B : Z) (sigma_space : Q) (sk : Z -> Z -> Q) (rk : Q -> Q) : op pix pix :=
  fun F r c =>
    let p := f_at F r c in
    set_disp p
      (fst (Filters.bilateral_filter_disparity inv B (f_nr F) (f_nc F) sigma_space sk rk (fld p_dL F) (fld p_fL F)) r c)
      (fst (Filters.bilateral_filter_disparity inv B (f_nr F) (f_nc F) sigma_space sk rk (fld p_dR F) (fld p_fR F)) r c)
      (p_fL p) (p_fR p).

(* ------------------------------------------------------------------ cross-checking
   validation_run: the left dataset is checked against the right one, then the right one against the
   checked left one (which reads the left DISPARITY map only). *)
Definition ds_left (G : cfg) (F : frame pix) : CrossCheck.dataset :=
  CrossCheck.mkDS (f_nr F) (f_nc F) (fld p_dL F) (fld p_fL F) [] (g_dmin G) (g_dmax G)
                  (MatchingCost.offset (g_w G)).
Definition ds_right (G : cfg) (F : frame pix) : CrossCheck.dataset :=
  CrossCheck.mkDS (f_nr F) (f_nc F) (fld p_dR F) (fld p_fR F) [] (- g_dmax G) (- g_dmin G)
                  (MatchingCost.offset (g_w G)).

Definition xcheck_step (thr : Q) (G : cfg) : op pix pix := fun F r c =>
  let L' := CrossCheck.xcheck thr (ds_left G F) (ds_right G F) in
  let R' := CrossCheck.xcheck thr (ds_right G F) L' in
  let p := f_at F r c in
  set_disp p (p_dL p) (p_dR p) (CrossCheck.ds_mask L' r c) (CrossCheck.ds_mask R' r c).

(* side condition of the cross-checking step: a pixel that is still valid holds a disparity that
   rounds into the disparity interval of its image (C03 / C04's invariant: winner-takes-all answers
   inside the interval, pixels without any cost are flagged invalid) *)
Definition disp_ok (dmin dmax : Z) (d : option Q) (f : Z) : Prop :=
  CrossCheck.is_valid f = true ->
  exists q, d = Some q /\ dmin <= CrossCheck.rint q <= dmax.
Definition px_ok (G : cfg) (p : pix) : Prop :=
  disp_ok (g_dmin G) (g_dmax G) (p_dL p) (p_fL p) /\ disp_ok (- g_dmax G) (- g_dmin G) (p_dR p) (p_fR p).

(* ------------------------------------------------------------------ radii of the steps *)

Definition dpos (G : cfg) : Z := Z.max 0 (g_dmax G).      (* columns to the right reached by d >= 0 *)
Definition dneg (G : cfg) : Z := Z.max 0 (- g_dmin G).    (* columns to the left reached by d <= 0 *)
Definition dspan (G : cfg) : Z := Z.max (dpos G) (dneg G).

(* window + disparity interval; the right products look the other way, hence the symmetric span *)
Definition rad_mc (G : cfg) : radii :=
  let h := MatchingCost.offset (g_w G) in mkRad h (h + dspan G) (h + dspan G).
Definition rad_filter (w : Z) : radii := mkRad (w / 2) (w / 2) (w / 2).
Definition rad_xcheck (G : cfg) : radii := mkRad 0 (dspan G) (dspan G).

(* cbca.  An arm has at most [cbca_arm] = max(cbca_distance - 1, 1) pixels (it stops AT cbca_distance; one pixel
   minimum), and reads nothing further.  The support region of a pixel (vertical arm, then the horizontal arms of
   each arm pixel) lies within cbca_arm rows and columns: the costs of that square are read.  The arms are
   measured on the 3x3-median-filtered images, left image around the pixel, right image around column c + d:
   the images are read one pixel further, columns extended by the disparity span.  The pixel must be that far
   from the image sides, and (window offset h: the images are cropped by h after filtering) at least
   cbca_arm + h. *)
Definition cbca_arm (dist : Z) : Z := Z.max (dist - 1) 1.
Definition rad_cbca_S (dist : Z) : radii := let A := cbca_arm dist in mkRad A A A.
Definition rad_cbca_I (G : cfg) (dist : Z) : radii :=
  let A := cbca_arm dist in mkRad (A + 1) (A + 1 + dspan G) (A + 1 + dspan G).
Definition rad_cbca_M (G : cfg) (dist : Z) : radii :=
  let g := cbca_arm dist + Z.max 1 (MatchingCost.offset (g_w G)) in mkRad g (g + dspan G) (g + dspan G).

(* margin of cross-checking: the disparity span, and the window margin that mask_border paints *)
Definition rad_xcheck_margin (G : cfg) : radii :=
  let h := MatchingCost.offset (g_w G) in mkRad h (Z.max h (dspan G)) (Z.max h (dspan G)).

(* ------------------------------------------------------------------ pipelines of the local steps *)

Inductive step : Type :=
| SMc (m : mmeas)
| SCbca (dist : Z) (inten : Q)
| SWta (mx : bool) (invalid : option Q)
| SRefine (me : Refine.method) (m : Refine.measure)
| SMedian (w : Z)
| SBilateral (sigma_space : Q) (sk : Z -> Z -> Q) (rk : Q -> Q)   (* the two Gaussian kernels are data *)
| SXcheck (thr : Q).

(* what the steps share: the regenerated constants / flag sites, block sizes, the configuration *)
Record env : Type := mkEnvL {
  e_flags : Criteria.env; e_refine : Refine.consts; e_inv : Z;
  e_bwta : Z; e_bmed : Z; e_bbil : Z; e_cfg : cfg }.

Definition step_op (V : env) (s : step) : op pix pix :=
  match s with
  | SMc m => mc_step m (e_flags V) (e_cfg V)
  | SCbca dist inten => cbca_step dist inten (e_cfg V)
  | SWta mx invalid => wta_step mx (e_bwta V) invalid (e_cfg V)
  | SRefine me m => refine_step (e_refine V) me m (e_cfg V)
  | SMedian w => median_step (e_inv V) (e_bmed V) w
  | SBilateral sigma sk rk => bilateral_step (e_inv V) (e_bbil V) sigma sk rk
  | SXcheck thr => xcheck_step thr (e_cfg V)
  end.

(* window of the bilateral filter: int(3 * sigma_space + 1) *)
Definition bil_win (sigma_space : Q) : Z := Qfloor (3 * sigma_space + 1).

(* the radii of every local step kind (what the harness computes with: [kpipe_rad], extracted) *)
Inductive kstep : Type :=
| KMc                  (* matching cost, any measure: window + disparity span, on the images *)
| KCbca (dist : Z)     (* cbca: arms of at most max(cbca_distance - 1, 1) pixels; 3x3 median pre-filter *)
| KPoint               (* winner-takes-all, refinement *)
| KFilter (w : Z)      (* median filter_size, bilateral window int(3 sigma_space + 1) *)
| KXcheck.
Definition forget (s : step) : kstep :=
  match s with
  | SMc _ => KMc | SCbca dist _ => KCbca dist | SWta _ _ | SRefine _ _ => KPoint | SMedian w => KFilter w
  | SBilateral sigma _ _ => KFilter (bil_win sigma) | SXcheck _ => KXcheck
  end.

(* per step: the cone of the STATES it reads (products of earlier steps), the cone of the IMAGES it reads itself,
   the margin (how far the pixel must be from the sides of the raster) *)
Definition kstep_S (G : cfg) (k : kstep) : radii :=
  match k with
  | KMc => rad0
  | KCbca dist => rad_cbca_S dist
  | KPoint => rad0
  | KFilter w => rad_filter w
  | KXcheck => rad_xcheck G
  end.
Definition kstep_I (G : cfg) (k : kstep) : radii :=
  match k with
  | KMc => rad_mc G
  | KCbca dist => rad_cbca_I G dist
  | _ => rad0
  end.
Definition kstep_M (G : cfg) (k : kstep) : radii :=
  match k with
  | KMc => rad_mc G
  | KCbca dist => rad_cbca_M G dist
  | KXcheck => rad_xcheck_margin G
  | _ => kstep_S G k
  end.
Definition step_S (G : cfg) (s : step) : radii := kstep_S G (forget s).
Definition step_I (G : cfg) (s : step) : radii := kstep_I G (forget s).
Definition step_M (G : cfg) (s : step) : radii := kstep_M G (forget s).

Definition step_side (G : cfg) (s : step) : side pix :=
  match s with
  | SXcheck _ => fun F r c => px_ok G (f_at F r c)
  | _ => no_side
  end.

(* cones and margin of a pipeline (first step first).  State cones add; the image cone of "s then rest" is the
   larger of the image cone of rest and the state cone of rest plus the image cone of s; likewise the margin *)
Definition rad3 : Type := radii * radii * radii.
Fixpoint kpipe_rad3 (G : cfg) (ks : list kstep) : rad3 :=
  match ks with
  | [] => (rad0, rad0, rad0)
  | k :: rest =>
      let '(DSs, DIs, Ms) := kpipe_rad3 G rest in
      (radd DSs (kstep_S G k), rmax DIs (radd DSs (kstep_I G k)), rmax Ms (radd DSs (kstep_M G k)))
  end.
Definition pipe_rad3 (G : cfg) (steps : list step) : rad3 := kpipe_rad3 G (map forget steps).
Definition r3_S (t : rad3) : radii := fst (fst t).
Definition r3_I (t : rad3) : radii := snd (fst t).
Definition r3_M (t : rad3) : radii := snd t.

(* the dependency cone of a pixel (all the data its result is a function of) and the margin *)
Definition kpipe_rad (G : cfg) (ks : list kstep) : radii * radii :=
  let t := kpipe_rad3 G ks in (rmax (r3_S t) (r3_I t), r3_M t).
Definition pipe_rad (G : cfg) (steps : list step) : radii * radii := kpipe_rad G (map forget steps).

Fixpoint pipe_side (V : env) (steps : list step) : side pix :=
  match steps with
  | [] => no_side
  | s :: rest => side_comp (step_side (e_cfg V) s) (step_op V s) (pipe_side V rest) (r3_S (pipe_rad3 (e_cfg V) rest))
  end.
