(* C03 -- what coq/Gen/WtaFns.v (regenerated at every run from pandora/disparity/disparity.py
   WinnerTakesAll.to_disp / argmin_split / argmax_split and extract_disparity_interval_from_cost_volume
   by translator/gen_wta_fns.py) is written with, beside the numpy combinators of Lib/NpNd.v and
   Lib/NpNd3.v: the two xarray datasets the step works on, as records of arrays (reading a variable is a
   projection, `ds["v"] = x` / an in-place store into `ds["v"].data` is a record update), and the INSTANCE
   of the hole the generated split functions leave open (the double block loop = BlockSkeleton.exec of
   the generated skeleton of Gen/BlockLoops.v).  Definitions only. *)
From Coq Require Import ZArith QArith List Bool String.
From Pandora Require Import Lib.Arr Lib.Ext Lib.NpNd Lib.NpNd3 Lib.Blocks Lib.BlockSkeleton.
Import ListNotations.
Open Scope Z_scope.

(* cv.attrs: the one key to_disp reads, the rest as an opaque token *)
Record wattrs : Type := mkWAttrs { at_type_measure : string; at_rest : Z }.

(* ---------------------------------------------------------------- the cost volume dataset *)
Record cvds : Type := mkCv {
  cv_cost : nd cost;                 (* cv["cost_volume"].data, dims (row, col, disp) *)
  cv_disp : nd oq;                   (* cv.coords["disp"].data *)
  cv_row : list Z;                   (* cv.coords["row"] *)
  cv_col : list Z;                   (* cv.coords["col"] *)
  cv_attrs : wattrs;                 (* cv.attrs *)
  cv_conf : option (nd oq);          (* cv["confidence_measure"], dims (row, col, indicator), when present *)
  cv_mask : nd Z;                    (* cv["validity_mask"] *)
  cv_disp_indices : option (nd oq)   (* cv["disp_indices"] when present *)
}.
Definition cv_set_cost (d : cvds) (x : nd cost) : cvds :=
  mkCv x (cv_disp d) (cv_row d) (cv_col d) (cv_attrs d) (cv_conf d) (cv_mask d) (cv_disp_indices d).
Definition cv_set_disp_indices (d : cvds) (x : nd oq) : cvds :=
  mkCv (cv_cost d) (cv_disp d) (cv_row d) (cv_col d) (cv_attrs d) (cv_conf d) (cv_mask d) (Some x).

(* ---------------------------------------------------------------- the disparity dataset *)
Record dmds : Type := mkDm {
  dm_disp : nd oq;                   (* disp_map["disparity_map"].data, dims (row, col) *)
  dm_row : list Z;
  dm_col : list Z;
  dm_interval : option (nd oq);      (* disp_map["disparity_interval"] *)
  dm_attrs : option wattrs;          (* disp_map.attrs (None: the empty dict of a new dataset) *)
  dm_conf : option (nd oq);          (* disp_map["confidence_measure"] *)
  dm_mask : option (nd Z)            (* disp_map["validity_mask"] *)
}.
(* xr.Dataset({"disparity_map": (["row", "col"], D)}, coords={"row": row, "col": col}): xarray refuses
   (ValueError: conflicting sizes) an array whose shape is not (len(row), len(col)) *)
Definition dm_new (D : nd oq) (row col : list Z) : dmds :=
  mkDm (mkNd (err D || negb (shape_eqb (shp D) [Z.of_nat (List.length row); Z.of_nat (List.length col)])) (shp D) (elt D))
       row col None None None None.
Definition dm_set_disp (d : dmds) (x : nd oq) : dmds :=
  mkDm x (dm_row d) (dm_col d) (dm_interval d) (dm_attrs d) (dm_conf d) (dm_mask d).
Definition dm_set_interval (d : dmds) (x : nd oq) : dmds :=
  mkDm (dm_disp d) (dm_row d) (dm_col d) (Some x) (dm_attrs d) (dm_conf d) (dm_mask d).
Definition dm_set_attrs (d : dmds) (a : wattrs) : dmds :=
  mkDm (dm_disp d) (dm_row d) (dm_col d) (dm_interval d) (Some a) (dm_conf d) (dm_mask d).
Definition dm_set_conf (d : dmds) (x : option (nd oq)) : dmds :=
  mkDm (dm_disp d) (dm_row d) (dm_col d) (dm_interval d) (dm_attrs d) x (dm_mask d).
Definition dm_set_mask (d : dmds) (x : nd Z) : dmds :=
  mkDm (dm_disp d) (dm_row d) (dm_col d) (dm_interval d) (dm_attrs d) (dm_conf d) (Some x).

(* xr.DataArray(x, coords=[(name, labels)]) of a rank-1 array: the labels must be as many as the values *)
Definition xr_dataarray1 (x : nd oq) (labels : list string) : nd oq :=
  mkNd (err x || negb (shape_eqb (shp x) [Z.of_nat (List.length labels)])) (shp x) (elt x).

(* ---------------------------------------------------------------- the hole *)

(* h_block_loop: the double block loop of [sk] (a skeleton of Gen/BlockLoops.v) run by
   BlockSkeleton.exec over the np.zeros map [T], the chunks being slices W[y0:y1, x0:x1, :] of the
   cost volume [W]; the value the loop writes for pixel (i, j) is element (0, 0) of the written
   expression [K] applied to the 1 x 1 chunk W[i:i+1, j:j+1] -- K is pointwise in its first two axes
   (proved of the generated expressions for EVERY chunk: gen_lookup_chunk in Proofs/WtaGenP.v), so this
   is element (i - y0, j - x0) of K applied to whichever chunk holds (i, j).  The np.arange stops are
   the extents of the volume (what BlockLoops records: DimShape (AOpaque 0) k). *)
Definition kernel_at {A : Type} (K : nd A -> nd oq) (W : nd A) (i j : Z) : oq :=
  elt (K (np_slice01 W i (i + 1) j (j + 1))) [0; 0].

Definition skel_block_loop3 {A : Type} (sk : skeleton) (K : nd A -> nd oq) (W : nd A) (T : nd oq) : nd oq :=
  let my := np_shape W 0 in
  let mx := np_shape W 1 in
  let out := snd (exec (fun _ i j => kernel_at K W i j) 0 my mx (sk_target 0 sk) sk my mx
                       (fun _ => 0, fun2 T)) in
  mkNd (err W || err T || negb (Nat.eqb (List.length (shp W)) 3) || negb (shape_eqb (shp T) [my; mx])) (shp T)
       (fun idx => match idx with [r; c] => out r c | _ => None end).

(* which variables of the result share their storage with a variable of the cost volume when to_disp
   returns (pairs (variable of disp_map, variable of cv)); the translator lists them *)
Definition share : Type := (string * string)%type.
Definition fresh_in (shares : list share) (v : string) : bool :=
  negb (existsb (fun p : share => String.eqb (fst p) v) shares).
