(* Glue between the generated Gen/XCheckKernel.v (translator/gen_xcheck_kernel.py, numpy semantics of
   Lib/NpVec.v + Lib/NpRow.v) and the hand-written Model/CrossCheck.v:
     - [xds]: a disparity dataset as far as disparity_checking reads or writes it, with arrays as lists of
       rows (the generated prelude / epilogue is written over its accessors);
     - [rows_loop]: `for row in range(0, nb_row)` whose body only reads and writes row [row] of the arrays
       it indexes (checked by the translator);
     - the embeddings of the model's values (option Q, conf, total functions) into the arrays of the
       generated code, used to STATE "generated = model" (Proofs/XCheckGenP.v).
   Definitions only. *)
From Coq Require Import ZArith QArith List Bool.
From Pandora Require Import Lib.NpVec Lib.NpRow Model.CrossCheck.
Import ListNotations.
Open Scope Z_scope.

Record xds := mkX {
  x_disp : list (list xf);          (* ["disparity_map"].data, float32 *)
  x_mask : list (list Z);           (* ["validity_mask"].data, uint16 *)
  x_bands : list (list (list xf));  (* ["confidence_measure"].data, one 2-D array per indicator *)
  x_interval : Z * Z;               (* ["disparity_interval"] *)
  x_offset : Z;                     (* attrs["offset_row_col"] *)
  x_validation : bool               (* attrs["validation"] == "cross_checking_accurate" *)
}.

(* ["disparity_map"].shape (an array without rows is given 0 columns: the loop does not run then) *)
Definition x_shape (d : xds) : Z * Z := (vlen (x_disp d), vlen (hd [] (x_disp d))).
(* int(x) of an integer *)
Definition py_int (z : Z) : Z := z.
(* np.full((r, c), x) *)
Definition np_full2 {A : Type} (r c : Z) (x : A) : list (list A) := repeat (repeat x (Z.to_nat c)) (Z.to_nat r).

Definition x_set_mask (d : xds) (m : list (list Z)) : xds :=
  mkX (x_disp d) m (x_bands d) (x_interval d) (x_offset d) (x_validation d).
Definition x_set_validation (d : xds) : xds :=
  mkX (x_disp d) (x_mask d) (x_bands d) (x_interval d) (x_offset d) true.
(* AbstractCostVolumeConfidence.allocate_confidence_map(name, conf, dataset, cv) on the disparity dataset:
   the band is appended after the existing ones (hand-written; tied by the correspondence) *)
Definition x_append_band (conf : list (list xf)) (d : xds) : xds :=
  mkX (x_disp d) (x_mask d) (x_bands d ++ [conf]) (x_interval d) (x_offset d) (x_validation d).

(* for row in range(0, n): every iteration reads row [row] of the four arrays, writes row [row] of the first and the
   last one *)
Definition rows_loop {A B C D : Type} (n : Z) (body : A -> B -> C -> D -> option (A * D))
    (ma : list A) (mb : list B) (mc : list C) (md : list D) : option (list A * list D) :=
  for_range n (fun row (st : list A * list D) =>
    let '(ma, md) := st in
    match v_get ma row, v_get mb row, v_get mc row, v_get md row with
    | Some a, Some b, Some c, Some d =>
        match body a b c d with
        | Some (a', d') =>
            match v_store ma row a', v_store md row d' with
            | Some ma', Some md' => Some (ma', md')
            | _, _ => None
            end
        | None => None
        end
    | _, _, _, _ => None
    end) (ma, md).

(* ---------------------------------------------------------------- embeddings of the model's values *)
Definition x_of_oq (o : option Q) : xf := match o with Some q => XFin q | None => XNaN end.
Definition x_of_conf (c : conf) : xf := match c with CNan => XNaN | CInf => XPInf | CFin q => XFin q end.
(* a row as the total function the model reads *)
Definition fn_of {A : Type} (d : A) (l : list A) : Z -> A := fun c => nth (Z.to_nat c) l d.
(* a total function tabulated on 0 .. n-1 *)
Definition tab {A : Type} (n : Z) (f : Z -> A) : list A := map f (np_arange n).
Definition tab2 {A : Type} (nr nc : Z) (f : Z -> Z -> A) : list (list A) := tab nr (fun r => tab nc (f r)).

Definition to_x (d : dataset) : xds :=
  mkX (tab2 (ds_nr d) (ds_nc d) (fun r c => x_of_oq (ds_disp d r c)))
      (tab2 (ds_nr d) (ds_nc d) (ds_mask d))
      (map (fun b => tab2 (ds_nr d) (ds_nc d) (fun r c => x_of_conf (b r c))) (ds_bands d))
      (ds_dmin d, ds_dmax d) (ds_offset d) true.
(* criteria.mask_border on the list representation (hand-written model Model/CrossCheck.mask_border) *)
Definition x_mask_border (nr nc : Z) (d : xds) : list (list Z) :=
  tab2 nr nc (mask_border nr nc (x_offset d) (fun r c => fn_of 0 (fn_of [] (x_mask d) r) c)).
