(* PandoraMachine.check_conf and pandora.run AS THE REPOSITORY HAS THEM NOW: the interpreter of
   Lib/MachineFlow.v applied to the control-flow skeletons regenerated from the source
   (Gen/MachineFlow.v, translator/gen_machine_flow.py) and to the regenerated transition tables
   (Gen/Tables.v).  Definitions only. *)
From Coq Require Import ZArith List.
From Pandora Require Import Model.Machine Lib.MachineFlow Gen.Tables Gen.MachineFlow.
Import ListNotations.

Section Gen.
  (* the <step>_check_conf callback of a step while self.left_img / self.right_img hold the given images
     of the caller: None = returns, Some e = raises e *)
  Variable cb : step -> side -> side -> option exn.
  (* the oracles a well-formed flow never consults: "." in the step name, the kind spelled by another
     component of the name, sorted(cfg["pipeline"]) *)
  Variable dotted : step -> bool.
  Variable other_kind : step -> selector -> option kind.
  Variable sorted_steps : list step -> list step.

  (* machine.check_conf(cfg, img_left, img_right) where cfg["pipeline"] names the steps p *)
  Definition gen_check_conf (st : fstate) (p : list step) : fres :=
    sem_check check_table run_table cb dotted other_kind sorted_steps flows 2 st p.

  (* pandora.run(machine, img_left, img_right, cfg) where read_multiscale_params(cfg) gives n scales *)
  Definition gen_run (st : fstate) (p : list step) (n : nat) : fres :=
    sem_run check_table run_table cb dotted other_kind sorted_steps flows st p (Z.of_nat n).
End Gen.
