(* Model of the json-checker 2.0.0 semantics Pandora relies on, of the small lambdas found in
   the schemas, and of a class's check_conf (default-completion prologue, then validation).
   Mirrors json_checker/core/checkers.py:
     Validator.validate  -> dispatch on the schema node
     TypeChecker         -> isinstance (bool is an int)
     FunctionChecker     -> falsy result or TypeError/ValueError => error
     And                 -> every member must validate (no short circuit)
     Or                  -> members are first FILTERED by the exact type of the data
                            (types kept iff `t is type(data)`, functions always kept,
                            And/Or objects never kept, list/dict literals kept for list/dict data),
                            an empty filter result is an error, else one member must validate
     ListChecker         -> data must be a non-empty list; positional when lengths agree,
                            otherwise every element against the FIRST schema element
     DictChecker         -> every non-optional schema key present, each value validates,
                            no key outside the schema
   Definitions only (no proofs). *)
From Coq Require Import ZArith QArith Qround List Bool String.
From Pandora Require Import Model.Json.
Import ListNotations.
Open Scope Z_scope.

(* ------------------------------------------------------------------ lambdas *)

Inductive tm :=
| TVar                      (* the lambda's parameter *)
| TLit (z : Z)              (* integer literal *)
| TMod (t : tm) (m : Z).    (* t % m, m a positive integer literal *)

Inductive cmp := CLt | CLe | CGt | CGe | CEq | CNe.

Inductive bexp :=
| BCmp (c : cmp) (a b : tm)
| BAnd (a b : bexp)         (* Python `and` on boolean operands: short circuit *)
| BOr (a b : bexp)          (* Python `or` *)
| BBitAnd (a b : bexp)      (* `&` on booleans: both operands evaluated *)
| BNot (a : bexp)
| BIn (a : tm) (l : list Z) (* a in (z1, z2, ...) *)
| BIsNone                   (* x is None *)
| BIsNan                    (* np.isnan(x) *)
| BIsMethod (l : list string)  (* common.is_method(x, [...]) *)
| BConst (b : bool)         (* a constant (e.g. lambda x: "census") by its truth value *)
| BIsInst (t : pytype)      (* isinstance(x, t) *)
| BOracle (name : string).  (* rasterio_can_open / rasterio_can_open_mandatory *)

(* numbers as Python compares them (int/float comparison is exact in Python) *)
Inductive num := NInt (z : Z) | NFlt (q : Q) | NNan | NInf (neg : bool).

Inductive tval := VNum (n : num) | VOther | VRaise.

Definition num_of (v : jv) : option num :=
  match v with
  | JInt z => Some (NInt z)
  | JBool b => Some (NInt (if b then 1 else 0))
  | JFloat q => Some (NFlt q)
  | JNan => Some NNan
  | JInf n => Some (NInf n)
  | _ => None
  end.

(* x % m for a positive integer m: the result has the sign of m; nan for nan/inf *)
Definition num_mod (n : num) (m : Z) : num :=
  match n with
  | NInt z => NInt (z mod m)
  | NFlt q => NFlt (q - inject_Z m * inject_Z (Qfloor (q / inject_Z m)))
  | _ => NNan
  end.

Fixpoint tm_eval (t : tm) (v : jv) : tval :=
  match t with
  | TVar => match num_of v with Some n => VNum n | None => VOther end
  | TLit z => VNum (NInt z)
  | TMod a m =>
    match tm_eval a v with
    | VNum n => VNum (num_mod n m)
    | _ => VRaise            (* TypeError: str/None/list/dict % int *)
    end
  end.

Definition qltb (a b : Q) : bool := negb (Qle_bool b a).

(* finite against finite, with the integer case kept in Z *)
Definition fin2 (cz : Z -> Z -> bool) (cq : Q -> Q -> bool) (a b : num) : bool :=
  match a, b with
  | NInt x, NInt y => cz x y
  | NInt x, NFlt y => cq (inject_Z x) y
  | NFlt x, NInt y => cq x (inject_Z y)
  | NFlt x, NFlt y => cq x y
  | _, _ => false
  end.

Definition num_lt (a b : num) : bool :=
  match a, b with
  | NNan, _ | _, NNan => false
  | NInf true, NInf true => false
  | NInf true, _ => true
  | NInf false, _ => false
  | _, NInf neg => negb neg
  | _, _ => fin2 Z.ltb qltb a b
  end.

Definition num_le (a b : num) : bool :=
  match a, b with
  | NNan, _ | _, NNan => false
  | NInf true, _ => true
  | NInf false, NInf false => true
  | NInf false, _ => false
  | _, NInf neg => negb neg
  | _, _ => fin2 Z.leb Qle_bool a b
  end.

Definition num_eq (a b : num) : bool :=
  match a, b with
  | NInf x, NInf y => Bool.eqb x y
  | _, _ => fin2 Z.eqb Qeq_bool a b
  end.

Definition num_cmp (c : cmp) (a b : num) : bool :=
  match c with
  | CLt => num_lt a b
  | CGt => num_lt b a
  | CLe => num_le a b
  | CGe => num_le b a
  | CEq => num_eq a b
  | CNe => negb (num_eq a b)
  end.

(* None = the lambda raises (TypeError/ValueError, caught by FunctionChecker => reject) *)
Definition cmp_eval (c : cmp) (a b : tval) : option bool :=
  match a, b with
  | VRaise, _ | _, VRaise => None
  | VNum x, VNum y => Some (num_cmp c x y)
  | VOther, VOther => None      (* not produced by the translator (one side is a literal) *)
  | _, _ => match c with CEq => Some false | CNe => Some true | _ => None end
  end.

(* np.isnan on a JSON value, then the truth value FunctionChecker takes of the result:
   scalars: numbers -> isnan, everything else TypeError; a list is converted to an array, whose
   truth value exists only when it has exactly one element (nested singletons included) *)
Fixpoint isnan_truth (v : jv) : option bool :=
  match v with
  | JInt _ | JBool _ | JFloat _ | JInf _ => Some false
  | JNan => Some true
  | JList [x] =>
    match x with
    | JList _ => isnan_truth x
    | JInt _ | JBool _ | JFloat _ | JInf _ => Some false
    | JNan => Some true
    | _ => None
    end
  | _ => None
  end.

Section Eval.
  (* file-system oracle for the named validators (C17); C05 schemas contain none *)
  Variable orc : string -> jv -> option bool.

  Fixpoint beval (e : bexp) (v : jv) : option bool :=
    match e with
    | BCmp c a b => cmp_eval c (tm_eval a v) (tm_eval b v)
    | BAnd a b =>
      match beval a v with
      | Some true => beval b v
      | r => r
      end
    | BOr a b =>
      match beval a v with
      | Some false => beval b v
      | r => r
      end
    | BBitAnd a b =>
      match beval a v, beval b v with
      | Some x, Some y => Some (x && y)
      | _, _ => None
      end
    | BNot a => match beval a v with Some x => Some (negb x) | None => None end
    | BIn a l =>
      match tm_eval a v with
      | VRaise => None
      | VOther => Some false
      | VNum n => Some (existsb (fun z => num_eq n (NInt z)) l)
      end
    | BIsNone => Some (match v with JNull => true | _ => false end)
    | BIsNan => isnan_truth v
    | BIsMethod l => match v with JStr s => Some (mem_str s l) | _ => None end
    | BConst b => Some b
    | BIsInst t => Some (isinstance v t)
    | BOracle name => orc name v
    end.

  (* ---------------------------------------------------------------- schemas *)

  Inductive schema :=
  | SType (t : pytype)
  | SFun (e : bexp)
  | SAnd (l : list schema)
  | SOr (l : list schema)
  | SList (l : list schema)
  | SDict (l : list (string * bool * schema)).    (* bool: OptionalKey *)

  (* Or's filtered_by_type *)
  Definition or_keeps (s : schema) (v : jv) : bool :=
    match s with
    | SType t => exact_type v t
    | SFun _ => true
    | SAnd _ | SOr _ => false
    | SList _ => exact_type v TyList
    | SDict _ => exact_type v TyDict
    end.

  Fixpoint accepts (s : schema) (v : jv) {struct s} : bool :=
    match s with
    | SType t => isinstance v t
    | SFun e => match beval e v with Some true => true | _ => false end
    | SAnd l =>
      (fix all (l : list schema) : bool :=
         match l with [] => true | s' :: r => accepts s' v && all r end) l
    | SOr l =>
      (fix any (l : list schema) : bool :=
         match l with [] => false | s' :: r => (or_keeps s' v && accepts s' v) || any r end) l
    | SList es =>
      match v with
      | JList xs =>
        match es, xs with
        | [], [] => true
        | [], _ :: _ => false
        | _ :: _, [] => false
        | e0 :: _, _ :: _ =>
          if Nat.eqb (List.length es) (List.length xs)
          then (fix pos (es : list schema) (xs : list jv) {struct es} : bool :=
                  match es, xs with
                  | e :: es', x :: xs' => accepts e x && pos es' xs'
                  | _, _ => true
                  end) es xs
          else forallb (accepts e0) xs
        end
      | _ => false
      end
    | SDict ks =>
      match v with
      | JDict d =>
        (fix each (ks : list (string * bool * schema)) : bool :=
           match ks with
           | [] => true
           | (k, opt, s') :: r =>
             (match lookup k d with
              | Some x => accepts s' x
              | None => opt
              end) && each r
           end) ks
        && forallb (fun k => mem_str k (map (fun e => fst (fst e)) ks)) (keys d)
      | _ => false
      end
    end.

  (* ------------------------------------------------------- a class's check_conf *)

  Inductive pro_op :=
  | PDefault (k : string) (v : jv)        (* if k not in cfg: cfg[k] = v *)
  | PDefaultOrNaN (k : string) (v : jv)   (* same, elif cfg[k] == "NaN": cfg[k] = nan *)
  | PRequireEq (k : string) (z : Z)       (* if k in cfg and cfg[k] != z: raise *)
  | PNoGrids.                             (* raise if a disparity_source is a path (multiscale) *)

  Record class_def := mkClass {
    c_kind : string;                      (* pipeline step kind *)
    c_method_key : string;                (* e.g. "matching_cost_method" *)
    c_names : list string;                (* registry names bound to this class *)
    c_prologue : list pro_op;
    c_schema : list (string * bool * schema);
  }.

  Definition py_eq_z (v : jv) (z : Z) : bool :=
    match num_of v with Some n => num_eq n (NInt z) | None => false end.

  Definition run_op (grids : bool) (op : pro_op) (cfg : dict) : option dict :=
    match op with
    | PDefault k v => Some (if has_key k cfg then cfg else cfg ++ [(k, v)])
    | PDefaultOrNaN k v =>
      match lookup k cfg with
      | None => Some (cfg ++ [(k, v)])
      | Some (JStr s) => Some (if String.eqb s "NaN" then set_key k JNan cfg else cfg)
      | Some _ => Some cfg
      end
    | PRequireEq k z =>
      match lookup k cfg with
      | Some v => if py_eq_z v z then Some cfg else None
      | None => Some cfg
      end
    | PNoGrids => if grids then None else Some cfg
    end.

  Fixpoint run_prologue (grids : bool) (ops : list pro_op) (cfg : dict) : option dict :=
    match ops with
    | [] => Some cfg
    | op :: r => match run_op grids op cfg with Some c => run_prologue grids r c | None => None end
    end.

  (* check_conf of a class: Some completed-cfg, or None when an exception is raised *)
  Definition class_check (grids : bool) (c : class_def) (cfg : dict) : option dict :=
    match run_prologue grids (c_prologue c) cfg with
    | None => None
    | Some cfg' => if accepts (SDict (c_schema c)) (JDict cfg') then Some cfg' else None
    end.

  (* registry lookup (the __new__ of the abstract classes): the method value must be a str
     naming a registered class of the step kind *)
  Definition find_class (classes : list class_def) (kind : string) (cfg : dict) : option class_def :=
    match find (fun c => String.eqb (c_kind c) kind) classes with
    | None => None
    | Some c0 =>
      match lookup (c_method_key c0) cfg with
      | Some (JStr m) =>
        find (fun c => String.eqb (c_kind c) kind && mem_str m (c_names c)) classes
      | _ => None
      end
    end.

  Definition step_check (classes : list class_def) (grids : bool) (kind : string) (cfg : dict)
    : option dict :=
    match find_class classes kind cfg with
    | Some c => class_check grids c cfg
    | None => None
    end.
End Eval.

Definition no_oracle (_ : string) (_ : jv) : option bool := None.
