(* C09, last clause -- the disparity products AFTER the disparity step and the steps a single-scale
   pipeline may run on them (state_machine.py: transitions disp_map -> disp_map, triggers `filter`,
   `refinement`, `validation`; `multiscale` is excluded by "single-scale").

   Nothing is re-modelled here.  A step of this file is a call of the model of the step's property:
     refinement_run   -> Model/Refine.v     [refine_map]  (loop_refinement on every pixel, vfit | quadratic)    C06
     filter_run       -> Model/Filters.v    [median_filter_disparity] | [bilateral_filter_disparity]
                                            | [mfi_filter_disparity] (median_for_intervals)                     C10
     validation_run   -> Model/CrossCheck.v [xcheck] (left map checked against the right one), then, when
                         interpolated_disparity is configured, Model/Interp.v [interp_ds] (mc-cnn | sgm),
                         i.e. the left component of [validation_interp_run]                                     C07, C14
   This file only converts between the representations those models use (a list of pixels for the
   refinement kernel, the [dataset] record for the validation) and threads the state.

   What the state machine hands to a step besides the disparity products is a PARAMETER of the step,
   on which the theorems put no condition beyond its shape: the cost volume read by the refinement
   (any costs, one per sample of the axis), the right dataset read by the cross-check (anything), the
   two kernels of the bilateral filter (data, DESIGN 2.1 (c)), the interval-bound bands and the
   regularisation of median_for_intervals (anything).  Definitions only. *)
From Coq Require Import ZArith QArith List Bool.
From Pandora Require Model.Refine Model.Filters Model.CrossCheck Model.Interp Spec.Filters.
Import ListNotations.
Open Scope Z_scope.

(* ---------------------------------------------------------------- what does not change along the pipeline *)
Record pctx := mkCtx {
  c_ny : Z; c_nx : Z;          (* image size (rows, columns) *)
  c_dmin : Z; c_dmax : Z;      (* the requested global interval = first / last coordinate of the disparity axis
                                  (C09_stored_interval_is_searched) = d_min, d_max of loop_refinement *)
  c_s : Z;                     (* subpix *)
  c_off : Z;                   (* attrs["offset_row_col"] *)
  c_bmed : Z; c_bbil : Z       (* block sizes of the median / bilateral loops (Gen/Constants.v) *)
}.

(* ---------------------------------------------------------------- the left disparity products *)
Record pstate := mkP {
  p_disp : Z -> Z -> option Q;                   (* disparity_map, None = NaN *)
  p_mask : Z -> Z -> Z;                          (* validity_mask *)
  p_bands : list (Z -> Z -> CrossCheck.conf)     (* confidence_measure bands (the cross-check appends one) *)
}.

(* the constants of pandora/constants.py as the four step models name them; their equality with the
   regenerated Gen files is re-proved at every run (Props/C09.v, C09_pipeline_constants) *)
Definition KK : Refine.consts := Refine.mkK CrossCheck.MSK_INVALID 8.
Definition INV : Z := CrossCheck.MSK_INVALID.
Definition BIT11 : Z := 2 ^ 11.

Definition in_img (X : pctx) (r c : Z) : bool :=
  (0 <=? r) && (r <? c_ny X) && (0 <=? c) && (c <? c_nx X).

(* ---------------------------------------------------------------- refinement
   loop_refinement visits every pixel of the map; Model/Refine.v takes them as a list: row-major *)
Definition pixels_of (X : pctx) (cv : Z -> Z -> list (option Q)) (st : pstate) : list Refine.pixel :=
  flat_map (fun r => map (fun c => Refine.mkPx (cv r c) (p_disp st r c) (p_mask st r c))
                         (CrossCheck.zrange 0 (c_nx X)))
           (CrossCheck.zrange 0 (c_ny X)).

Definition triple0 : option Q * option Q * Z := (None, None, 0).

(* the maps are written back in place ((row, col) is entry row * n_col + col of the list) *)
Definition refine_step (X : pctx) (me : Refine.method) (m : Refine.measure)
           (cv : Z -> Z -> list (option Q)) (st : pstate) : option pstate :=
  match Refine.refine_map KK me m (inject_Z (c_dmin X)) (inject_Z (c_dmax X)) (c_s X) (pixels_of X cv st) with
  | Refine.IOk l =>
    let at_ r c := nth (Z.to_nat (r * c_nx X + c)) l triple0 in
    Some (mkP (fun r c => if in_img X r c then fst (fst (at_ r c)) else p_disp st r c)
              (fun r c => if in_img X r c then snd (at_ r c) else p_mask st r c)
              (p_bands st))
  | _ => None                               (* the kernel raises / reads outside the cost volume *)
  end.

(* ---------------------------------------------------------------- validation *)
Definition ds_of (X : pctx) (st : pstate) : CrossCheck.dataset :=
  CrossCheck.mkDS (c_ny X) (c_nx X) (p_disp st) (p_mask st) (p_bands st) (c_dmin X) (c_dmax X) (c_off X).
Definition st_of (d : CrossCheck.dataset) : pstate :=
  mkP (CrossCheck.ds_disp d) (CrossCheck.ds_mask d) (CrossCheck.ds_bands d).

(* ---------------------------------------------------------------- the steps *)
Inductive step :=
| SRefine (me : Refine.method) (m : Refine.measure) (cv : Z -> Z -> list (option Q))
    (* refinement_method vfit | quadratic, type_measure min | max, the cost rows of left_cv *)
| SMedian (rad : Z)
    (* filter_method median, filter_size = 2 * rad + 1 (check_conf refuses even sizes) *)
| SBilateral (sigma_space : Q) (sk : Z -> Z -> Q) (rk : Q -> Q)
    (* filter_method bilateral: sigma_space, the spatial kernel array, the range kernel *)
| SMedianIntervals (w : Z) (reg : option (Filters.map2 -> Filters.map2 -> Filters.map2 * Filters.map2 * (Z -> Z -> bool)))
                   (binf bsup : Filters.map2)
    (* filter_method median_for_intervals: the bands it filters, the optional regularisation *)
| SValidation (thr : Q) (other : CrossCheck.dataset) (ip : option Interp.method).
    (* cross_checking_accurate with its threshold, the right dataset, interpolated_disparity if any *)

Definition run_step (X : pctx) (sp : step) (st : pstate) : option pstate :=
  match sp with
  | SRefine me m cv => refine_step X me m cv st
  | SMedian rad =>
    let o := Filters.median_filter_disparity INV (c_bmed X) (2 * rad + 1) (c_ny X) (c_nx X) (p_disp st) (p_mask st) in
    Some (mkP (fst o) (snd o) (p_bands st))
  | SBilateral sigma sk rk =>
    let o := Filters.bilateral_filter_disparity INV (c_bbil X) (c_ny X) (c_nx X) sigma sk rk (p_disp st) (p_mask st) in
    Some (mkP (fst o) (snd o) (p_bands st))
  | SMedianIntervals w reg binf bsup =>
    let o := Filters.mfi_filter_disparity BIT11 (c_bmed X) w (c_ny X) (c_nx X) reg (p_disp st) binf bsup (p_mask st) in
    Some (mkP (Filters.f_disp o) (Filters.f_mask o) (p_bands st))
  | SValidation thr other None => Some (st_of (CrossCheck.xcheck thr (ds_of X st) other))
  | SValidation thr other (Some ip) => Some (st_of (fst (Interp.validation_interp_run thr ip (ds_of X st) other)))
  end.

(* any number of steps, any order, repetitions included (filter, filter.1, refinement.last, ...) *)
Fixpoint run_steps (X : pctx) (steps : list step) (st : pstate) : option pstate :=
  match steps with
  | [] => Some st
  | sp :: rest => match run_step X sp st with Some st' => run_steps X rest st' | None => None end
  end.

(* ---------------------------------------------------------------- what a legal pipeline guarantees
   (shape conditions only; nothing about the VALUES of costs, right map, bands) *)
Definition ctx_ok (X : pctx) : Prop :=
  1 <= c_ny X /\ 1 <= c_nx X /\ c_nx X <= 2 ^ 63 /\ c_dmin X <= c_dmax X /\ 0 < c_s X /\
  1 <= c_bmed X /\ 1 <= c_bbil X.

Definition step_ok (X : pctx) (sp : step) : Prop :=
  match sp with
  | SRefine _ _ cv =>
    (* one cost per sample of the axis, for every pixel of the image *)
    forall r c, 0 <= r < c_ny X -> 0 <= c < c_nx X ->
      Z.of_nat (length (cv r c)) = (c_dmax X - c_dmin X) * c_s X + 1
  | SMedian rad => 0 <= rad
  | SBilateral sigma sk rk =>
    (* sigma_space >= 0; no negative weight, a pixel weighs on itself (every Gaussian kernel, also after
       underflow of its tails; checked on the kernels of every real run by harness/props/c10.py) *)
    (0 <= sigma)%Q /\
    let win := Filters.win_width (c_ny X) (c_nx X) sigma in
    let lo := win / 2 in
    Spec.Filters.kernel_ok (fun dr dc => sk (dr + lo) (dc + lo)) rk lo (win - 1 - lo)
  | SMedianIntervals _ _ _ _ => True
  | SValidation _ _ _ => True
  end.
