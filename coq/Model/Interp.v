(* Model of pandora/validation/interpolated_disparity.py (the four numba kernels and the
   two interpolated_disparity methods) and of img_tools.find_valid_neighbors, as the code
   computes.  The kernels' naming quirk is kept: `ncol, nrow = disp.shape`, arrays are
   indexed [col, row] (so "col" runs over shape[0]).  Each kernel iteration reads only the
   input arrays (disp, valid) and writes only out_disp[col,row] / out_val[col,row], so a
   kernel is modelled by its per-pixel function; the returned arrays are materialised
   ([freeze]) as np.copy + writes do.  [fx] = false is the code as found, true the code
   with the four `fix:` commits for D5 and the refill carry.  Definitions only. *)
From Coq Require Import ZArith QArith Qabs List Bool.
From Pandora Require Import Model.CrossCheck.
Import ListNotations.
Open Scope Z_scope.

(* materialised n0 x n1 array *)
Definition freeze {A} (d : A) (n0 n1 : Z) (f : Z -> Z -> A) : Z -> Z -> A :=
  let rows := map (fun i => map (fun j => f i j) (zrange 0 n1)) (zrange 0 n0) in
  fun i j => if (i <? 0) || (j <? 0) then d
             else nth (Z.to_nat j) (nth (Z.to_nat i) rows []) d.

Definition has (m bit : Z) : bool := negb (Z.land m bit =? 0).      (* (m & bit) != 0 *)
Definition okpix (m : Z) : bool := Z.land m MSK_INVALID =? 0.        (* (m & INVALID) == 0 *)
Definition b2z (b : bool) : Z := if b then 1 else 0.

(* np.argmax of a boolean array: index of the first True, 0 when there is none *)
Fixpoint first_true (l : list bool) (i : Z) : option Z :=
  match l with
  | [] => None
  | b :: t => if b then Some i else first_true t (i + 1)
  end.
Definition argmax_b (l : list bool) : Z :=
  match first_true l 0 with Some i => i | None => 0 end.
Definition nthb (l : list bool) (i : Z) : bool := nth (Z.to_nat i) l false.

(* ---- float32 cells written by a path search *)
Inductive pres := PUnset | PNan | PVal (v : option Q).

(* ---- insertion sort (numba's quicksort falls back to it below 15 elements), stable *)
Section Sort.
  Context {A : Type}.
  Variable lt : A -> A -> bool.
  Fixpoint insert (x : A) (l : list A) : list A :=
    match l with
    | [] => [x]
    | h :: t => if lt x h then x :: h :: t else h :: insert x t
    end.
  Definition isort (l : list A) : list A := fold_left (fun acc x => insert x acc) l [].
End Sort.

Definition Qlt_bool (a b : Q) : bool := negb (Qle_bool b a).

(* np.nanmedian (numba): drop NaN; NaN when nothing is left; middle element, or (a+b)/2 *)
Definition somes (l : list (option Q)) : list Q :=
  flat_map (fun o => match o with Some q => [q] | None => [] end) l.
Definition nanmedian (l : list (option Q)) : option Q :=
  let s := isort Qlt_bool (somes l) in
  let n := length s in
  match n with
  | O => None
  | _ => if Nat.even n
         then Some (Qred ((nth (Nat.pred (Nat.div2 n)) s 0%Q + nth (Nat.div2 n) s 0%Q) * (1 # 2)))
         else Some (nth (Nat.div2 n) s 0%Q)
  end.

(* np.argsort(np.abs(v)) with lt_floats (NaN last), then element [1] of v in that order *)
Definition lt_abs_nanlast (a b : option Q) : bool :=
  match a, b with
  | Some x, Some y => Qlt_bool (Qabs x) (Qabs y)
  | Some _, None => true
  | None, _ => false
  end.
Definition second_lowest_abs (l : list (option Q)) : option Q :=
  nth 1 (isort lt_abs_nanlast l) None.

Definition dirs16 : list (Z * Z) :=   (* mc-cnn directions [row, col], in half units *)
  [(0, 2); (-1, 2); (-2, 2); (-2, 1); (-2, 0); (-2, -1); (-2, -2); (-1, -2);
   (0, -2); (1, -2); (2, -2); (2, -1); (2, 0); (2, 1); (2, 2); (1, 2)].
Definition dirs8 : list (Z * Z) :=    (* sgm directions [row, col] *)
  [(0, 1); (-1, 1); (-1, 0); (-1, -1); (0, -1); (1, -1); (1, 0); (1, 1)].

Section Kernels.
  Variable fx : bool.
  Variables ncol nrow : Z.               (* ncol, nrow = disp.shape *)
  Variable disp : Z -> Z -> option Q.    (* disp[col, row] *)
  Variable valid : Z -> Z -> Z.          (* valid[col, row] *)

  (* out_val[col,row] |= bit (repaired)  /  += bit (as found) *)
  Definition raise (v bit : Z) : Z := if fx then Z.lor v bit else v + bit.

  Definition edge (tc tr : Z) : bool :=
    (tc <? 0) || (ncol <=? tc) || (tr <? 0) || (nrow <=? tr).

  (* ---------------- McCnnInterpolation.interpolate_occlusion_mc_cnn, one (col, row) *)
  Definition occ_mc_pixel (col row : Z) : option Q * Z :=
    let v := valid col row in
    if has v MSK_OCCLUSION then
      (* msk = (valid[col, 0:row+1] & INVALID) == 0 ; msk = msk[::-1] ; arg_valid = argmax(msk) *)
      let msk := rev (map (fun j => okpix (valid col j)) (zrange 0 (row + 1))) in
      let arg := argmax_b msk in
      if arg =? 0 then
        (* msk = (valid[col, row:] & INVALID) == 0 ; arg_valid = argmax(msk) *)
        let msk2 := map (fun j => okpix (valid col j)) (zrange row (nrow - row)) in
        let arg2 := argmax_b msk2 in
        let b := b2z (nthb msk2 arg2) in
        (disp col (row + arg2), raise (v - MSK_OCCLUSION * b) (MSK_FILLED_OCCLUSION * b))
      else
        let b := b2z (nthb msk arg) in
        (disp col (row - arg), raise (v - MSK_OCCLUSION * b) (MSK_FILLED_OCCLUSION * b))
    else (disp col row, v).

  (* ---------------- McCnnInterpolation.interpolate_mismatch_mc_cnn *)
  (* for i in range(1, max_path_length): tmp_row = row + int(d0*i); tmp_col = col + int(d1*i) *)
  Fixpoint mc_path (h0 h1 col row i : Z) (fuel : nat) : pres :=
    match fuel with
    | O => PUnset
    | S f =>
      let tr := row + Z.quot (h0 * i) 2 in
      let tc := col + Z.quot (h1 * i) 2 in
      if edge tc tr then PNan
      else if okpix (valid tc tr) then PVal (disp tc tr)
      else mc_path h0 h1 col row (i + 1) f
    end.
  Definition max_path_length : Z := Z.max nrow ncol.
  (* the float32 cell: np.zeros (as found) / np.full(nan) (repaired) when the loop ends without a break *)
  Definition cell (p : pres) : option Q :=
    match p with PUnset => if fx then None else Some 0%Q | PNan => None | PVal v => v end.
  Definition mc_neighbors (col row : Z) : list (option Q) :=
    map (fun h => cell (mc_path (fst h) (snd h) col row 1 (Z.to_nat (max_path_length - 1)))) dirs16.
  Definition all_nan (l : list (option Q)) : bool :=
    forallb (fun o => match o with None => true | Some _ => false end) l.
  Definition mis_mc_pixel (col row : Z) : option Q * Z :=
    let v := valid col row in
    if has v MSK_MISMATCH then
      let nb := mc_neighbors col row in
      if fx && all_nan nb then (disp col row, v)
      else (nanmedian nb, raise (v - MSK_MISMATCH) MSK_FILLED_MISMATCH)
    else (disp col row, v).

  (* ---------------- img_tools.find_valid_neighbors(dirs, disp, valid, row, col) *)
  Fixpoint fvn_path (d0 d1 tr tc : Z) (fuel : nat) : pres :=
    match fuel with
    | O => PUnset
    | S f =>
      let tr := tr + d0 in
      let tc := tc + d1 in
      if edge tc tr then PNan
      else if okpix (valid tc tr) then PVal (disp tc tr)
      else fvn_path d0 d1 tr tc f
    end.
  (* valid_neighbors = np.zeros(8): an unset cell would be 0 (never happens: Proofs) *)
  Definition cell0 (p : pres) : option Q :=
    match p with PUnset => Some 0%Q | PNan => None | PVal v => v end.
  Definition find_valid_neighbors (row col : Z) : list (option Q) :=
    map (fun d => cell0 (fvn_path (fst d) (snd d) row col (Z.to_nat max_path_length))) dirs8.

  (* ---------------- SgmInterpolation.interpolate_occlusion_sgm *)
  Definition occ_sgm_pixel (col row : Z) : option Q * Z :=
    let v := valid col row in
    if has v MSK_OCCLUSION then
      let nb := find_valid_neighbors row col in
      let second := second_lowest_abs nb in
      if fx && match second with None => true | Some _ => false end then (disp col row, v)
      else (second, raise (v - MSK_OCCLUSION) MSK_FILLED_OCCLUSION)
    else (disp col row, v).

  (* ---------------- SgmInterpolation.interpolate_mismatch_sgm *)
  (* np.sum(valid[max(0,col-1):min(ncol-1,col+1)+1, max(0,row-1):min(nrow-1,row+1)+1] & OCCLUSION) != 0 *)
  Definition occ_neighbor (col row : Z) : bool :=
    let c0 := Z.max 0 (col - 1) in let c1 := Z.min (ncol - 1) (col + 1) + 1 in
    let r0 := Z.max 0 (row - 1) in let r1 := Z.min (nrow - 1) (row + 1) + 1 in
    negb (fold_right Z.add 0
            (flat_map (fun c => map (fun r => Z.land (valid c r) MSK_OCCLUSION) (zrange r0 (r1 - r0)))
                      (zrange c0 (c1 - c0))) =? 0).
  Definition mis_sgm_pixel (col row : Z) : option Q * Z :=
    let v := valid col row in
    if has v MSK_MISMATCH then
      if occ_neighbor col row then (disp col row, v - MSK_MISMATCH + MSK_OCCLUSION)
      else
        let nb := find_valid_neighbors row col in
        if fx && all_nan nb then (disp col row, v)
        else (nanmedian nb, raise (v - MSK_MISMATCH) MSK_FILLED_MISMATCH)
    else (disp col row, v).

  (* a kernel: out = copy of the inputs, then `for col in range(ncol): for row in range(nrow)` *)
  Definition in_arr (col row : Z) : bool := (0 <=? col) && (col <? ncol) && (0 <=? row) && (row <? nrow).
  Definition kernel_disp (px : Z -> Z -> option Q * Z) : Z -> Z -> option Q :=
    freeze None ncol nrow (fun c r => fst (px c r)).
  Definition kernel_val (px : Z -> Z -> option Q * Z) : Z -> Z -> Z :=
    freeze 0 ncol nrow (fun c r => snd (px c r)).
End Kernels.

Inductive method := McCnn | Sgm.

(* interpolated_disparity(left): the two kernels in the order of each method; mc-cnn ends
   with mask_border when offset_row_col > 0, sgm does not *)
Definition interp_gen (fx : bool) (m : method) (n0 n1 off : Z)
           (disp : Z -> Z -> option Q) (valid : Z -> Z -> Z)
  : (Z -> Z -> option Q) * (Z -> Z -> Z) :=
  match m with
  | McCnn =>
    let k1 := occ_mc_pixel fx n1 disp valid in
    let d1 := kernel_disp n0 n1 k1 in
    let v1 := kernel_val n0 n1 k1 in
    let k2 := mis_mc_pixel fx n0 n1 d1 v1 in
    let d2 := kernel_disp n0 n1 k2 in
    let v2 := kernel_val n0 n1 k2 in
    (d2, if 0 <? off then mask_border n0 n1 off v2 else v2)
  | Sgm =>
    let k1 := mis_sgm_pixel fx n0 n1 disp valid in
    let d1 := kernel_disp n0 n1 k1 in
    let v1 := kernel_val n0 n1 k1 in
    let k2 := occ_sgm_pixel fx n0 n1 d1 v1 in
    (kernel_disp n0 n1 k2, kernel_val n0 n1 k2)
  end.

Definition interp := interp_gen true.          (* the tree under test *)
Definition interp_before := interp_gen false.  (* the code as found *)

(* interpolated_disparity(left) on a dataset: disparity_map and validity_mask are replaced,
   everything else (bands, interval, offset) is kept *)
Definition interp_ds (m : method) (d : dataset) : dataset :=
  let dk := interp m (ds_nr d) (ds_nc d) (ds_offset d) (ds_disp d) (ds_mask d) in
  mkDS (ds_nr d) (ds_nc d) (fst dk) (snd dk) (ds_bands d) (ds_dmin d) (ds_dmax d) (ds_offset d).

(* PandoraMachine.validation_run (state_machine.py:474-481) with cross_checking_accurate and
   interpolated_disparity: left checked against right, right against the checked left, then
   the interpolation of the left and of the right dataset (call structure re-checked against
   Gen/Callbacks.v in Props/C14.v) *)
Definition validation_interp_run (thr : Q) (m : method) (L R : dataset) : dataset * dataset :=
  let L' := xcheck thr L R in
  let R' := xcheck thr R L' in
  (interp_ds m L', interp_ds m R').
