(* C17, T-gen tie: the semantics the regenerated check functions (Gen/CheckFns.v, produced by
   translator/gen_check_fns.py from pandora/check_configuration.py) are evaluated with.

   Every Python / xarray / numpy / rasterio construct met in the nine functions
     check_shape, check_attributes, check_band_names, check_disparities_from_dataset,
     check_dataset, check_datasets, check_image_dimension, check_images,
     check_disparities_from_input
   is one NAMED primitive here, over the abstractions the hand-written models already use:
     - an xarray Dataset is the record [dataset] of Model/DatasetCheck.v, seen as a mapping from
       variable names to variables ([ds_table]); a partial read (dataset[k], coords[k], .sel)
       returns [res] with the class of the exception Python raises;
     - a configuration value is a [jv] of Model/Json.v;
     - a raster file is an [rfile]: width, height and the samples of every band.  The model's
       file oracle [finfo] (Model/InputCheck.v) is its abstraction [finfo_of]: in particular the
       oracle bit "band 1 > band 2 somewhere" is DEFINED here as np_any (np_gt band1 band2).
   These definitions are modelled, not verified (trusted base); they are exercised through the
   proved equalities "generated = model" and the correspondence of the model with the real code.
   Definitions only (no proofs). *)
From Coq Require Import ZArith QArith List Bool String.
From Pandora Require Import Model.Json Model.Checker Model.DatasetCheck Model.InputCheck.
Import ListNotations.
Open Scope string_scope.
Open Scope Z_scope.

(* ------------------------------------------------------------------ control *)

(* `for x in l: body` where body may raise: the first exception ends the loop *)
Fixpoint for_each {A} (l : list A) (body : A -> res unit) : res unit :=
  match l with
  | [] => Ok tt
  | x :: r => andthen (body x) (for_each r body)
  end.

(* ------------------------------------------------------------------ types of the generated text *)

Definition xr_dataset := dataset.        (* xr.Dataset *)
Definition xr_disparity := disparity.    (* the DataArray dataset["disparity"] *)
Definition xr_image := image.            (* the DataArray dataset["im"] *)
Definition bandname := bool.             (* an element of coords["band_im"].data, by what the code asks: is it a str *)
Definition pyvalue := jv.                (* a value of the configuration *)

(* a data variable read with a key that is not a literal: only its numpy shape is known *)
Inductive dataarray :=
| DAImage (im : image)
| DADisp (d : disparity)
| DAOther (s : shape).

Definition da_shape (a : dataarray) : shape :=          (* a.data.shape *)
  match a with DAImage im => im_shape im | DADisp d => d_shape d | DAOther s => s end.

(* ------------------------------------------------------------------ xarray Dataset as a mapping *)

Fixpoint assoc {A} (k : string) (l : list (string * A)) : option A :=
  match l with
  | [] => None
  | (k', a) :: r => if String.eqb k k' then Some a else assoc k r
  end.

(* the data variables, by name *)
Definition ds_table (ds : dataset) : list (string * dataarray) :=
  (match ds_im ds with Some im => [("im", DAImage im)] | None => [] end) ++
  (match ds_disp ds with Some d => [("disparity", DADisp d)] | None => [] end) ++
  map (fun e => (fst e, DAOther (snd e))) (ds_vars ds).

(* `k in dataset` *)
Definition ds_contains (ds : dataset) (k : string) : bool :=
  match assoc k (ds_table ds) with Some _ => true | None => false end.

(* iter(dataset): the names of the data variables *)
Definition ds_iter (ds : dataset) : list string := map fst (ds_table ds).

(* dataset[k] *)
Definition ds_item (ds : dataset) (k : string) : res dataarray :=
  match assoc k (ds_table ds) with Some a => Ok a | None => Raise EKey end.

(* dataset["im"], dataset["disparity"] (literal keys): the variable with its content *)
Definition ds_item_im (ds : dataset) : res xr_image :=
  match ds_im ds with Some im => Ok im | None => Raise EKey end.
Definition ds_item_disparity (ds : dataset) : res xr_disparity :=
  match ds_disp ds with Some d => Ok d | None => Raise EKey end.

(* "band_im" in dataset.coords / dataset.coords["band_im"].data *)
Definition ds_has_coord_band_im (ds : dataset) : bool :=
  match ds_band_im ds with Some _ => true | None => false end.
Definition ds_coord_band_im (ds : dataset) : res (list bandname) :=
  match ds_band_im ds with Some b => Ok b | None => Raise EKey end.

(* isinstance(band, str) *)
Definition bandname_is_str (b : bandname) : bool := b.

(* list(dataset.attrs): the attribute names; set(...) and set difference on names *)
Definition py_set (l : list string) : list string := l.
Definition set_diff (a b : list string) : list string := filter (fun x => negb (mem_string x b)) a.
Definition set_nonempty (a : list string) : bool := match a with [] => false | _ => true end.
Definition py_str (s : string) : string := s.

(* ------------------------------------------------------------------ the disparity DataArray *)

(* "band_disp" in disparity.coords / disparity.coords["band_disp"].data *)
Definition da_has_coord_band_disp (d : disparity) : bool := d_has_coord d.
Definition da_coord_band_disp (d : disparity) : res (list label) :=
  if d_has_coord d then Ok (d_labels d) else Raise EKey.

(* {l1, l2}.issubset(labels) *)
Definition labels_issubset (want have : list label) : bool :=
  forallb (fun l => mem_label l have) want.

(* disparity.sel(band_disp=l).data: the value of band l at every pixel (KeyError when no band carries
   the label; labels are distinct -- an xarray index) *)
Definition da_sel_band_disp (d : disparity) (l : label) : res (list cell) :=
  if mem_label l (d_labels d)
  then Ok (map (fun px => nth (index_of l (d_labels d)) px None) (d_pixels d))
  else Raise EKey.

(* ------------------------------------------------------------------ numpy *)

Definition np_isnan (a : list cell) : list bool := map is_nan a.
Definition np_all (a : list bool) : bool := forallb (fun b => b) a.
Definition np_any (a : list bool) : bool := existsb (fun b => b) a.

(* a > b, element by element (False as soon as one operand is NaN) *)
Fixpoint np_gt (a b : list cell) : list bool :=
  match a, b with
  | x :: a', y :: b' => cell_gt x y :: np_gt a' b'
  | _, _ => []
  end.

(* ------------------------------------------------------------------ Python values of the configuration *)

Definition py_is_none (v : jv) : bool := match v with JNull => true | _ => false end.

(* len(v) *)
Definition py_len (v : jv) : res Z :=
  match v with
  | JList l => Ok (Z.of_nat (List.length l))
  | JDict d => Ok (Z.of_nat (List.length d))
  | JStr s => Ok (Z.of_nat (String.length s))
  | _ => Raise EType
  end.

(* v[i] for an integer i (negative: from the end) *)
Definition py_index (v : jv) (i : Z) : res jv :=
  match v with
  | JList l =>
    let n := Z.of_nat (List.length l) in
    let j := if i <? 0 then i + n else i in
    if (0 <=? j) && (j <? n) then Ok (nth (Z.to_nat j) l JNull) else Raise EIndex
  | JStr s =>
    let n := Z.of_nat (String.length s) in
    let j := if i <? 0 then i + n else i in
    if (0 <=? j) && (j <? n) then Ok (JStr (String.substring (Z.to_nat j) 1 s)) else Raise EIndex
  | JDict _ => Raise EKey          (* the keys of a configuration dictionary are strings *)
  | _ => Raise EType
  end.

(* a < b on numbers (Python compares int / float exactly); other operand types: TypeError
   (str < str, list < list are not modelled: the schema [int, int] excludes them) *)
Definition py_lt (a b : jv) : res bool :=
  match num_of a, num_of b with
  | Some x, Some y => Ok (num_lt x y)
  | _, _ => Raise EType
  end.

(* v[k] for a string k *)
Definition py_subscript (v : jv) (k : string) : res jv := subscript v k.

(* k in v for a string k *)
Definition py_contains (k : string) (v : jv) : res bool :=
  match v with
  | JDict d => Ok (has_key k d)
  | JList l => Ok (existsb (fun x => match x with JStr s => String.eqb s k | _ => false end) l)
  | JStr s => Ok (match String.index 0 k s with Some _ => true | None => false end)
  | _ => Raise EType
  end.

(* ------------------------------------------------------------------ rasterio *)

Record rfile := mkRfile {
  rf_width : Z;                    (* DatasetReader.width *)
  rf_height : Z;                   (* DatasetReader.height *)
  rf_bands : list (list cell);     (* the samples of every band, in the file's own sample type *)
}.

Definition rf_count (f : rfile) : Z := Z.of_nat (List.length (rf_bands f)).   (* DatasetReader.count *)

(* reader.read(k): band k (1-based); IndexError outside 1..count *)
Definition rio_read (f : rfile) (k : Z) : res (list cell) :=
  if (1 <=? k) && (k <=? rf_count f) then Ok (nth (Z.to_nat (k - 1)) (rf_bands f) []) else Raise EIndex.

(* the file oracle of Model/InputCheck.v as an abstraction of a file *)
Definition finfo_of (f : rfile) : finfo :=
  mkF (rf_width f) (rf_height f) (rf_count f)
      (np_any (np_gt (nth 0 (rf_bands f) []) (nth 1 (rf_bands f) []))).

Definition abs_fs (fs : string -> option rfile) : string -> option finfo :=
  fun p => option_map finfo_of (fs p).

(* img_tools.rasterio_open(x): rasterio.open (the translator checks that it is nothing else) *)
Definition rasterio_open (fs : string -> option rfile) (v : jv) : res rfile :=
  match v with
  | JStr p => match fs p with Some f => Ok f | None => Raise EIO end
  | _ => Raise EType
  end.

(* ------------------------------------------------------------------ a Dataset is a mapping *)

(* names are unique: the other variables are pairwise distinct and none is called "im" / "disparity" *)
Definition py_dataset (ds : dataset) : Prop :=
  NoDup (map fst (ds_vars ds)) /\ ~ In "im" (map fst (ds_vars ds)) /\ ~ In "disparity" (map fst (ds_vars ds)).

(* ------------------------------------------------------------------ check_input_section with its custom checking as a parameter *)

(* Model/InputCheck.v [check_completed] with everything that follows the json-checker validation (the two
   calls of check_disparities_from_input and the call of check_images, on which values of the completed
   configuration) abstracted as one function of the configuration; Proofs/CheckGenP.v: equal to
   [check_completed] when the parameter is [model_custom], the tail of the hand-written model *)
Section Completed.
  Variable orc : string -> jv -> option bool.
  Variable SC : input_schemas.
  Variable custom : jv -> res unit.

  Definition check_completed_with (cfg : jv) : res unit :=
    do inp <- subscript cfg "input" ;;
    do l <- subscript inp "left" ;;
    do ld <- subscript l "disp" ;;
    do rstr <- (if is_list ld then Ok false
                else do r <- subscript inp "right" ;; do rd <- subscript r "disp" ;; Ok (is_str rd)) ;;
    if negb (accepts orc (chosen_schema SC (is_list ld) rstr) cfg) then Raise ESchema
    else custom cfg.
End Completed.

Section ModelCustom.
  Variable fs : string -> option finfo.
  Variable images : list string.

  Definition model_custom (cfg : jv) : res unit :=
    do inp <- subscript cfg "input" ;;
    do l <- subscript inp "left" ;;
    do ld <- subscript l "disp" ;;
    do limg <- subscript l "img" ;;
    andthen (check_disparities_from_input fs ld limg)
    (do r <- subscript inp "right" ;;
     do rd <- subscript r "disp" ;;
     do rimg <- subscript r "img" ;;
     andthen (check_disparities_from_input fs rd rimg) (check_images fs images inp)).
End ModelCustom.
