(* C03 -- model of WinnerTakesAll.to_disp / argmin_split / argmax_split
   (pandora/disparity/disparity.py:425-540), mirroring how the code computes:

     indices_nan = np.isnan(cv)                       -> [indices_nan]
     cv[indices_nan] = +inf (min) / -inf (max)        -> [cv1] ([subst])
     disp = argmin_split(cv) / argmax_split(cv)       -> [loop2] over B x B blocks writing
                                                         disp_coord[np.argmin(block, axis=2)]
     cv[indices_nan] = nan                            -> [cv2] ([restore])
     invalid_mc = np.min(indices_nan, axis=2)         -> [invalid_mc]
     disparity_map[invalid_mc] = invalid_disparity    -> [dmap]
     cv["disp_indices"] = disparity_map.copy()
     disp_map["confidence_measure"] = cv[...]; validity_mask = deepcopy(cv[...])

   Definitions only.  Arrays are functions of (row, col) (DESIGN 2.1); a pixel of the
   cost volume is the list of its costs along the disparity axis. *)
From Coq Require Import ZArith QArith List Bool.
From Pandora Require Import Lib.Ext Lib.Blocks.
Import ListNotations.

(* np.argmin / np.argmax along an axis without NaN: first index of the extremum.
   [better x best] decides whether the scanned value replaces the current best. *)
Fixpoint arg_scan (better : ext -> ext -> bool) (l : list ext) (i besti : nat) (bestv : ext) : nat :=
  match l with
  | [] => besti
  | x :: r => if better x bestv then arg_scan better r (S i) i x
              else arg_scan better r (S i) besti bestv
  end.
Definition arg_first (better : ext -> ext -> bool) (l : list ext) : nat :=
  match l with
  | [] => O
  | x :: r => arg_scan better r 1 0 x
  end.
Definition np_argmin : list ext -> nat := arg_first (fun x b => negb (ext_leb b x)).  (* x < b *)
Definition np_argmax : list ext -> nat := arg_first (fun x b => negb (ext_leb x b)).  (* x > b *)

Definition sub_inf (mx : bool) : ext := if mx then MInf else PInf.
Definition subst (mx : bool) (c : cost) : ext :=
  match c with None => sub_inf mx | Some e => e end.
Definition restore (nan : list bool) (l : list ext) : list cost :=
  map (fun p : bool * ext => if fst p then None else Some (snd p)) (combine nan l).

Record wta_out : Type := mkWtaOut {
  o_disp : Z -> Z -> option Q;          (* disp_map["disparity_map"] *)
  o_cv : Z -> Z -> list cost;           (* cv["cost_volume"] after the call *)
  o_disp_indices : Z -> Z -> option Q;  (* cv["disp_indices"] *)
  o_conf : Z -> Z -> list (option Q);   (* disp_map["confidence_measure"] *)
  o_mask : Z -> Z -> Z                  (* disp_map["validity_mask"] *)
}.

Definition to_disp (mx : bool) (B nr nc : Z) (disps : list Q) (invalid : option Q)
           (cv : Z -> Z -> list cost) (conf : Z -> Z -> list (option Q)) (mask : Z -> Z -> Z) : wta_out :=
  let indices_nan := fun r c => map is_nan (cv r c) in
  let cv1 := fun r c => map (subst mx) (cv r c) in
  let arg := if mx then np_argmax else np_argmin in
  let disp := loop2 (fun i j => nth (arg (cv1 i j)) disps 0%Q) B nr nc nr nc 0 0 (fun _ _ => 0%Q) in
  let cv2 := fun r c => restore (indices_nan r c) (cv1 r c) in
  let invalid_mc := fun r c => forallb (fun b : bool => b) (indices_nan r c) in
  let dmap := fun r c => if invalid_mc r c then invalid else Some (disp r c) in
  mkWtaOut dmap cv2 dmap conf mask.
