(* Model of pandora/criteria.py (validity_mask, allocate_left_mask, allocate_right_mask,
   mask_invalid_variable_disparity_range, mask_border, binary_dilation_msk) and of the tail of
   matching_cost.cv_masked, pixel by pixel, with the flag arithmetic written as the code writes it:
   every write goes through [fire], whose operator (+=, -=, |=, =) and constant are READ from the
   list of flag sites regenerated from the source (Gen/Flags.v).

   Definitions only (no proofs).

   Conventions: a 2-D array is a function of (row, col); numpy whole-array statements are
   modelled by what they do to one element.  Column coordinates start at 0 with step 1
   (cv.coords["col"] = 0..nc-1), window sizes are odd (w = 2*off+1), d_min <= d_max are the
   integer ends of cv.coords["disp"]. *)
From Coq Require Import ZArith List Bool.
Import ListNotations.
Open Scope Z_scope.

(* ------------------------------------------------------------------ vocabulary of Gen/Flags.v *)

Inductive fop := OpAdd | OpSub | OpOr | OpSet.

(* pandora/constants.py: PANDORA_MSK_PIXEL_<name> *)
Inductive cname :=
| K_INVALID | K_LEFT_NODATA_OR_BORDER | K_RIGHT_NODATA_OR_DISPARITY_RANGE_MISSING
| K_RIGHT_INCOMPLETE_DISPARITY_RANGE | K_STOPPED_INTERPOLATION | K_FILLED_OCCLUSION | K_FILLED_MISMATCH
| K_IN_VALIDITY_MASK_LEFT | K_IN_VALIDITY_MASK_RIGHT | K_OCCLUSION | K_MISMATCH | K_FILLED_NODATA
| K_INTERVAL_REGULARIZED.

Definition all_cnames : list cname :=
  [K_INVALID; K_LEFT_NODATA_OR_BORDER; K_RIGHT_NODATA_OR_DISPARITY_RANGE_MISSING;
   K_RIGHT_INCOMPLETE_DISPARITY_RANGE; K_STOPPED_INTERPOLATION; K_FILLED_OCCLUSION; K_FILLED_MISMATCH;
   K_IN_VALIDITY_MASK_LEFT; K_IN_VALIDITY_MASK_RIGHT; K_OCCLUSION; K_MISMATCH; K_FILLED_NODATA;
   K_INTERVAL_REGULARIZED].

Definition cname_code (c : cname) : Z :=
  match c with
  | K_INVALID => 100 | K_LEFT_NODATA_OR_BORDER => 0 | K_RIGHT_NODATA_OR_DISPARITY_RANGE_MISSING => 1
  | K_RIGHT_INCOMPLETE_DISPARITY_RANGE => 2 | K_STOPPED_INTERPOLATION => 3 | K_FILLED_OCCLUSION => 4
  | K_FILLED_MISMATCH => 5 | K_IN_VALIDITY_MASK_LEFT => 6 | K_IN_VALIDITY_MASK_RIGHT => 7
  | K_OCCLUSION => 8 | K_MISMATCH => 9 | K_FILLED_NODATA => 10 | K_INTERVAL_REGULARIZED => 11
  end.
Definition cname_eqb (a b : cname) : bool := cname_code a =? cname_code b.

(* right-hand side of a write *)
Inductive fexpr :=
| EZero                                   (* a fresh array of zeros *)
| EConst (c : cname)                      (* cst.C *)
| ETimes (c : cname)                      (* cst.C * (a 0/1 factor), xr.where(cond, cst.C, 0) *)
| EOneOf (l : list cname) (zero : bool)   (* the flag returned by refinement_method: one of l, or 0 *)
| ECopy                                   (* copy.deepcopy(cv["validity_mask"]) *)
| EKernel                                 (* the mask returned by a numba kernel that received it *)
| EBorderCall.                            (* mask_border(dataset) *)

(* syntactic guard around a write: (mask[same element] & cst.C) != 0  (set = true) / == 0 *)
Inductive guard := GBit (c : cname) (set : bool).

(* one role per write the model knows; the translator maps (file, function, ordinal) to a role *)
Inductive role :=
| R_vm_init | R_vm_b2neg | R_vm_b2pos | R_vm_b2zero | R_vm_b1
| R_l_nodata | R_l_invalid | R_r_b27 | R_r_nodata | R_mivdr
| R_bord_top | R_bord_bot | R_bord_left | R_bord_right
| R_ard_init | R_ard_b1 | R_ard_b2 | R_todisp_copy
| R_ref_kernel | R_aref_kernel | R_ref_method | R_ref_stopped | R_aref_method | R_aref_stopped
| R_xc_occl | R_xc_mism | R_xc_unoccl | R_xc_outside | R_xc_border
| R_mc_kernel_occ | R_mc_kernel_mis | R_mc_border
| R_mco_sub_r | R_mco_add_r | R_mco_sub_l | R_mco_add_l | R_mcm_sub | R_mcm_add
| R_sgm_kernel_mis | R_sgm_kernel_occ | R_sgo_sub | R_sgo_add
| R_sgm_sub_o | R_sgm_add_o | R_sgm_sub_f | R_sgm_add_f
| R_mfi_or.

Definition all_roles : list role :=
  [R_vm_init; R_vm_b2neg; R_vm_b2pos; R_vm_b2zero; R_vm_b1;
   R_l_nodata; R_l_invalid; R_r_b27; R_r_nodata; R_mivdr;
   R_bord_top; R_bord_bot; R_bord_left; R_bord_right;
   R_ard_init; R_ard_b1; R_ard_b2; R_todisp_copy;
   R_ref_kernel; R_aref_kernel; R_ref_method; R_ref_stopped; R_aref_method; R_aref_stopped;
   R_xc_occl; R_xc_mism; R_xc_unoccl; R_xc_outside; R_xc_border;
   R_mc_kernel_occ; R_mc_kernel_mis; R_mc_border;
   R_mco_sub_r; R_mco_add_r; R_mco_sub_l; R_mco_add_l; R_mcm_sub; R_mcm_add;
   R_sgm_kernel_mis; R_sgm_kernel_occ; R_sgo_sub; R_sgo_add;
   R_sgm_sub_o; R_sgm_add_o; R_sgm_sub_f; R_sgm_add_f;
   R_mfi_or].

Definition role_code (r : role) : Z :=
  match r with
  | R_vm_init => 0 | R_vm_b2neg => 1 | R_vm_b2pos => 2 | R_vm_b2zero => 3 | R_vm_b1 => 4
  | R_l_nodata => 5 | R_l_invalid => 6 | R_r_b27 => 7 | R_r_nodata => 8 | R_mivdr => 9
  | R_bord_top => 10 | R_bord_bot => 11 | R_bord_left => 12 | R_bord_right => 13
  | R_ard_init => 14 | R_ard_b1 => 15 | R_ard_b2 => 16 | R_todisp_copy => 17
  | R_ref_kernel => 18 | R_aref_kernel => 19 | R_ref_method => 20 | R_ref_stopped => 21
  | R_aref_method => 22 | R_aref_stopped => 23
  | R_xc_occl => 24 | R_xc_mism => 25 | R_xc_unoccl => 26 | R_xc_outside => 27 | R_xc_border => 28
  | R_mc_kernel_occ => 29 | R_mc_kernel_mis => 30 | R_mc_border => 31
  | R_mco_sub_r => 32 | R_mco_add_r => 33 | R_mco_sub_l => 34 | R_mco_add_l => 35
  | R_mcm_sub => 36 | R_mcm_add => 37
  | R_sgm_kernel_mis => 38 | R_sgm_kernel_occ => 39 | R_sgo_sub => 40 | R_sgo_add => 41
  | R_sgm_sub_o => 42 | R_sgm_add_o => 43 | R_sgm_sub_f => 44 | R_sgm_add_f => 45
  | R_mfi_or => 46
  end.
Definition role_eqb (a b : role) : bool := role_code a =? role_code b.

Record site := mkSite {
  s_role : role; s_line : Z; s_op : fop; s_expr : fexpr; s_guards : list guard }.

(* ------------------------------------------------------------------ flag arithmetic *)

(* an environment = the constants and the sites of the tree under test *)
Record env := mkEnv { e_const : cname -> Z; e_sites : list site }.

Definition dummy_site : site := mkSite R_vm_init 0 OpSet EZero [].

Definition site_of (E : env) (r : role) : site :=
  match find (fun s => role_eqb (s_role s) r) (e_sites E) with
  | Some s => s
  | None => dummy_site
  end.

(* the constant a write adds / removes / sets when its 0/1 factor is 1 *)
Definition expr_val (K : cname -> Z) (e : fexpr) : Z :=
  match e with
  | EConst c | ETimes c => K c
  | EOneOf [c] _ => K c
  | _ => 0
  end.

Definition apply_op (op : fop) (m v : Z) : Z :=
  match op with
  | OpAdd => m + v
  | OpSub => m - v
  | OpOr => Z.lor m v
  | OpSet => v
  end.

(* execute the write of role [r] on the flag [m]; [b] is the 0/1 factor of the right-hand side
   (true for a plain constant) *)
Definition fire (E : env) (r : role) (m : Z) (b : bool) : Z :=
  let s := site_of E r in
  apply_op (s_op s) m (if b then expr_val (e_const E) (s_expr s) else 0).

(* the write of role [r] on the flag [m] is carry-free: a `+=` finds its bit clear, a `-=` finds it set
   (`|=` and `=` are always safe) *)
Definition fire_ok (E : env) (r : role) (m : Z) (b : bool) : bool :=
  let s := site_of E r in
  let v := if b then expr_val (e_const E) (s_expr s) else 0 in
  match s_op s with
  | OpAdd => Z.land m v =? 0
  | OpSub => Z.land m v =? v
  | _ => true
  end.

(* ------------------------------------------------------------------ ranges *)

Fixpoint zseq (lo : Z) (n : nat) : list Z :=
  match n with
  | O => []
  | S k => lo :: zseq (lo + 1) k
  end.
(* lo, lo+1, ..., hi (empty when hi < lo) *)
Definition zrange (lo hi : Z) : list Z := zseq lo (Z.to_nat (hi - lo + 1)).

(* ------------------------------------------------------------------ the layout of one call *)

Record layout := mkLayout {
  nr : Z; nc : Z;              (* cv.sizes row / col (= image size) *)
  off : Z;                     (* cv.attrs["offset_row_col"] = (window_size - 1) / 2 *)
  dmin : Z; dmax : Z;          (* cv.coords["disp"][0], [-1] *)
  lhas : bool; rhas : bool;    (* "msk" in img.data_vars *)
  lm : Z -> Z -> Z; rm : Z -> Z -> Z;    (* img["msk"].data *)
  l_nd : Z; l_vl : Z; r_nd : Z; r_vl : Z (* attrs no_data_mask / valid_pixels of each image *)
}.

Section Criteria.
  Variable E : env.
  Variable L : layout.

  (* binary_dilation_msk: scipy binary_dilation of (msk == no_data_mask) by ones((w, w)),
     border_value 0: a pixel is set iff some pixel of its window, inside the image, is no_data *)
  Definition dil (m : Z -> Z -> Z) (ndv : Z) (r c : Z) : bool :=
    existsb (fun i =>
      existsb (fun j => m i j =? ndv)
              (zrange (Z.max 0 (c - off L)) (Z.min (nc L - 1) (c + off L))))
      (zrange (Z.max 0 (r - off L)) (Z.min (nr L - 1) (r + off L))).

  (* (msk != no_data_mask) & (msk != valid_pixels) *)
  Definition isinv (m : Z -> Z -> Z) (ndv vlv : Z) (r c : Z) : bool :=
    negb (m r c =? ndv) && negb (m r c =? vlv).

  (* --- validity_mask: the three-way case on the sign of d_min / d_max (col[0] = 0, col[-1] = nc-1) *)
  Definition last_col : Z := nc L - 1.

  Definition bit1_col (c : Z) : bool :=
    if dmax L <? 0 then c + dmax L <? 0 + off L
    else if dmin L >? 0 then c + dmin L >? last_col - off L
    else false.

  Definition vm_base (c : Z) : Z :=
    let m := fire E R_vm_init 0 true in
    let m :=
      if dmax L <? 0 then
        if (c + dmax L >=? 0 + off L) && (c + dmin L <? 0 + off L) then fire E R_vm_b2neg m true else m
      else if dmin L >? 0 then
        if (c + dmin L <=? last_col - off L) && (c + dmax L >? last_col - off L) then fire E R_vm_b2pos m true else m
      else
        if (c + dmin L <? 0 + off L) || (c + dmax L >? last_col - off L) then fire E R_vm_b2zero m true else m in
    if bit1_col c then fire E R_vm_b1 m true else m.

  (* --- allocate_left_mask *)
  Definition alloc_left (m : Z) (r c : Z) : Z :=
    let m := fire E R_l_nodata m (dil (lm L) (l_nd L) r c) in
    fire E R_l_invalid m (isinv (lm L) (l_nd L) (l_vl L) r c).

  (* --- allocate_right_mask: the loop over dsp with its two counters, their reset on the bit_1
     columns and the two `== len(range)` tests INSIDE the loop.  State: (b_2_7, no_data_right, mask) *)
  Definition range_len : Z := dmax L - dmin L + 1.

  Definition arm_step (r c : Z) (st : Z * Z * Z) (dsp : Z) : Z * Z * Z :=
    let '(b27, ndr, m) := st in
    let cd := c + dsp in
    let valid_index := (cd >=? 0 + off L) && (cd <=? last_col - off L) in
    let b27 := if valid_index then b27 + (if isinv (rm L) (r_nd L) (r_vl L) r cd then 1 else 0) else b27 + 1 in
    let ndr := if valid_index then ndr + (if dil (rm L) (r_nd L) r cd then 1 else 0) else ndr + 1 in
    let b27 := if bit1_col c then 0 else b27 in
    let ndr := if bit1_col c then 0 else ndr in
    let m := if b27 =? range_len then fire E R_r_b27 m true else m in
    let m := if ndr =? range_len then fire E R_r_nodata m true else m in
    (b27, ndr, m).

  Definition alloc_right (m : Z) (r c : Z) : Z :=
    snd (fold_left (arm_step r c) (zrange (dmin L) (dmax L)) (0, 0, m)).

  Definition validity_mask_px (r c : Z) : Z :=
    let m := vm_base c in
    let m := if lhas L then alloc_left m r c else m in
    if rhas L then alloc_right m r c else m.

  (* --- mask_invalid_variable_disparity_range: [allnan] = every cost of the pixel is NaN *)
  Definition mivdr (allnan : bool) (m : Z) : Z :=
    if allnan then
      if Z.land m (e_const E K_RIGHT_NODATA_OR_DISPARITY_RANGE_MISSING) =? 0 then fire E R_mivdr m true else m
    else m.

  (* --- mask_border: four slice assignments; Python slice bounds are normalised as numpy does
     (a negative bound counts from the end, -0 is 0) *)
  Definition py_idx (n s : Z) : Z := if s <? 0 then Z.max 0 (n + s) else Z.min s n.
  Definition in_sl (lo hi x : Z) : bool := (lo <=? x) && (x <? hi).

  Definition mask_border_px (r c : Z) (m : Z) : Z :=
    let o := off L in
    let m := if in_sl 0 (py_idx (nr L) o) r then fire E R_bord_top m true else m in               (* [:o, :] *)
    let m := if in_sl (py_idx (nr L) (- o)) (nr L) r then fire E R_bord_bot m true else m in      (* [-o:, :] *)
    let m := if in_sl (py_idx (nr L) o) (py_idx (nr L) (- o)) r && in_sl 0 (py_idx (nc L) o) c
             then fire E R_bord_left m true else m in                                          (* [o:-o, :o] *)
    let m := if in_sl (py_idx (nr L) o) (py_idx (nr L) (- o)) r && in_sl (py_idx (nc L) (- o)) (nc L) c
             then fire E R_bord_right m true else m in                                         (* [o:-o, -o:] *)
    m.

  (* --- the mask of the cost volume after matching_cost_prepare + cv_masked *)
  Definition after_mc (allnan : Z -> Z -> bool) (r c : Z) : Z :=
    let m := mivdr (allnan r c) (validity_mask_px r c) in
    if off L >? 0 then mask_border_px r c m else m.
End Criteria.
