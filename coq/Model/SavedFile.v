(* pandora.main at the level of the FILES (C19): the configuration file is read with json.load
   (read_config_file), cfg/config.json is written with json.dump (common.save_config).
   Model/JsonText.v is the model of the two.  Definitions only. *)
From Coq Require Import ZArith List Bool String.
From Pandora Require Import Model.Json Model.JsonText Model.Checker Model.Pipeline Model.SavedCfg.
Import ListNotations.

Section File.
  Variable D : input_defs.
  Variable orc : string -> jv -> option bool.
  Variable grid_ok : jv -> jv -> bool.
  Variable images_ok : dict -> bool.
  Variable bands_of : jv -> list jv.
  Variable classes : list class_def.
  Variable interp : list string.

  (* check_conf(read_config_file(path)) *)
  Definition check_file (text : string) : option dict :=
    match parse text with
    | Some (JDict user) => full_check D orc grid_ok images_ok bands_of classes interp user
    | _ => None
    end.

  (* from the text of the configuration file to the text of cfg/config.json
     (None: the file is not JSON of the subset, or not a dictionary, or check_conf raises) *)
  Definition main_file (margins : jv) (text : string) : option string :=
    match parse text with
    | Some (JDict user) =>
      match main_saved D orc grid_ok images_ok bands_of classes interp margins user with
      | Some saved => Some (print (JDict saved))
      | None => None
      end
    | _ => None
    end.
End File.
