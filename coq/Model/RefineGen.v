(* C06: the kernels regenerated from the Python source (Gen/RefineKernels.v) plugged into the
   hand-written glue of Model/Refine.v: which refinement_method the configured class passes to
   loop_refinement, the (row, col) loop nest over independent pixels, the in-place update of the
   disparity map and of the mask between two refinement steps.

   Definitions only; the proofs are in Proofs/RefineGenP.v. *)
From Coq Require Import ZArith QArith List.
From Pandora Require Import Lib.FloatQ Model.Refine.
From Pandora Require Gen.RefineKernels.
Import ListNotations.

Module G := Pandora.Gen.RefineKernels.

(* the `method` argument of loop_refinement (self.refinement_method): the generated refinement_method
   of the class registered under the configured name *)
Definition gmethod (K : consts) (me : method) : fl -> fl -> fl -> fl -> measure -> fres :=
  match me with Vfit => G.vfit K | Quadratic => G.quadratic K end.

(* one pixel: the generated body of the loop nest, called as subpixel_refinement calls it *)
Definition gstep (K : consts) (me : method) (m : measure) (dmin dmax : Q) (s : Z)
           (cv : list (option Q)) (disp : option Q) (mask : Z) : pres :=
  G.loop_pixel K cv disp mask dmin dmax s m (gmethod K me).

(* one call of subpixel_refinement / a segment refinement, refinement.1, ...: as Model.Refine.refine_map
   and refine_steps, with the generated pixel body *)
Fixpoint grefine_map (K : consts) (me : method) (m : measure) (dmin dmax : Q) (s : Z) (px : list pixel) : ires :=
  match px with
  | [] => IOk []
  | p :: r =>
    match gstep K me m dmin dmax s (px_cv p) (px_disp p) (px_mask p) with
    | PRaise => IRaise
    | POut => match grefine_map K me m dmin dmax s r with IRaise => IRaise | _ => IOut end
    | POk d c k =>
      match grefine_map K me m dmin dmax s r with
      | IOk l => IOk ((d, c, k) :: l)
      | e => e
      end
    end
  end.

Fixpoint grefine_steps (K : consts) (mes : list method) (m : measure) (dmin dmax : Q) (s : Z)
         (px : list pixel) (last : list (option Q * option Q * Z)) : ires :=
  match mes with
  | [] => IOk last
  | me :: r =>
    match grefine_map K me m dmin dmax s px with
    | IOk l => grefine_steps K r m dmin dmax s (reload px l) l
    | e => e
    end
  end.
