(* Model of the configuration flow of pandora.main (pandora/__init__.py) and of
   check_configuration.check_conf / check_input_section (C19, second sentence):

     user_cfg = json.load(file)
     cfg      = check_conf(user_cfg, machine)        # input section, then pipeline section
     ...      derive the right interval [-max, -min] ON A COPY (fix: e44909e; before the fix
              it was written into cfg["input"]["right"]["disp"], see main_saved_before)
     run      # cost_volume_confidence_run overwrites cfg["pipeline"][step]["indicator"]
     cfg["margins"] = machine.margins.to_dict()
     json.dump(cfg)

   The pipeline section is Model/Pipeline.v (C05).  File-system facts (a path opens, grid sizes,
   image sizes, band names) are oracles.  Definitions only. *)
From Coq Require Import ZArith List Bool String Ascii.
From Pandora Require Import Model.Json Model.Checker Model.Pipeline.
Import ListNotations.
Open Scope string_scope.

(* the input schemas and defaults of check_configuration.py (regenerated: Gen/Schemas.v) *)
Record input_defs := mkInputDefs {
  i_left : list (string * bool * schema);       (* input_configuration_schema["left"] *)
  i_right : list (string * bool * schema);
  i_int_left : list (string * bool * schema);   (* ..._integer_disparity *)
  i_int_right : list (string * bool * schema);
  i_gn_left : list (string * bool * schema);    (* ..._left_disparity_grids_right_none *)
  i_gn_right : list (string * bool * schema);
  i_gg_left : list (string * bool * schema);    (* ..._left_disparity_grids_right_grids *)
  i_gg_right : list (string * bool * schema);
  i_default : dict;                             (* default_short_configuration_input *)
}.

(* dict.update on a schema dictionary *)
Fixpoint schema_set (k : string) (o : bool) (s : schema) (l : list (string * bool * schema)) :=
  match l with
  | [] => [(k, o, s)]
  | (k', o', s') :: r => if String.eqb k k' then (k', o, s) :: r else (k', o', s') :: schema_set k o s r
  end.

Definition schema_update (base over : list (string * bool * schema)) :=
  fold_left (fun acc e => schema_set (fst (fst e)) (snd (fst e)) (snd e) acc) over base.

(* input_step.split(".") *)
Fixpoint split_dot_aux (cur : string -> string) (s : string) : list string :=
  match s with
  | EmptyString => [cur EmptyString]
  | String a r =>
    if Ascii.eqb a "."%char then cur EmptyString :: split_dot_aux (fun x => x) r
    else split_dot_aux (fun x => cur (String a x)) r
  end.
Definition split_dot (s : string) : list string := split_dot_aux (fun x => x) s.

(* the value cost_volume_confidence_run stores under "indicator" for a step name *)
Definition indicator_of (name : string) : string :=
  match split_dot name with
  | [_; suffix] => "." ++ suffix
  | _ => ""
  end.

Definition is_list (v : jv) : bool := match v with JList _ => true | _ => false end.
Definition is_str (v : jv) : bool := match v with JStr _ => true | _ => false end.

Definition src_of (disp : jv) : disp_source :=
  match disp with JList _ => SrcList | JStr _ => SrcGrid | _ => SrcNone end.

Definition subdict (k : string) (d : dict) : option dict :=
  match lookup k d with Some (JDict x) => Some x | _ => None end.

Section Main.
  Variable D : input_defs.
  Variable orc : string -> jv -> option bool.   (* rasterio_can_open / rasterio_can_open_mandatory *)
  Variable grid_ok : jv -> jv -> bool.          (* the grid tests of check_disparities_from_input (path, image) *)
  Variable images_ok : dict -> bool.            (* check_images(cfg["input"]) does not raise *)
  Variable bands_of : jv -> list jv.            (* get_metadata: band descriptions of an image path *)
  Variable classes : list class_def.
  Variable interp : list string.

  (* check_disparities_from_input: False = raises *)
  Definition disp_value_ok (disp img : jv) : bool :=
    match disp with
    | JList (a :: b :: _) =>
      match num_of a, num_of b with
      | Some x, Some y => negb (num_lt y x)          (* disparity[1] < disparity[0] -> ValueError *)
      | _, _ => false
      end
    | JList _ => false                               (* IndexError *)
    | JStr _ => grid_ok disp img
    | _ => true
    end.

  (* check_input_section applied to {"input": ...} (or {} when the user gave no input section) *)
  Definition input_check (user_input : dict) : option dict :=
    match update_conf (i_default D) user_input with
    | None => None
    | Some cfg =>
      match subdict "input" cfg with
      | None => None
      | Some inp =>
        match subdict "left" inp, subdict "right" inp with
        | Some lft, Some rgt =>
          match lookup "disp" lft, lookup "disp" rgt, lookup "img" lft, lookup "img" rgt with
          | Some ld, Some rd, Some li, Some ri =>
            let '(bl, br) :=
              if is_list ld then (i_int_left D, i_int_right D)
              else if is_str rd then (i_gg_left D, i_gg_right D)
              else (i_gn_left D, i_gn_right D) in
            let sch := SDict [("input", false,
                               SDict [("left", false, SDict (schema_update (i_left D) bl));
                                      ("right", false, SDict (schema_update (i_right D) br))])] in
            if accepts orc sch (JDict cfg) && disp_value_ok ld li && disp_value_ok rd ri && images_ok inp
            then Some cfg else None
          | _, _, _, _ => None
          end
        | _, _ => None
        end
      end
    end.

  Definition section_of (k : string) (user : dict) : dict :=
    match lookup k user with Some v => [(k, v)] | None => [] end.

  (* the two datasets get_metadata builds from the checked input section *)
  Definition images_of (cfg_in : dict) : option images :=
    match subdict "input" cfg_in with
    | Some inp =>
      match subdict "left" inp, subdict "right" inp with
      | Some lft, Some rgt =>
        match lookup "disp" lft, lookup "disp" rgt, lookup "img" lft, lookup "img" rgt with
        | Some ld, Some rd, Some li, Some ri =>
          Some (mkImages (bands_of li) (bands_of ri) (src_of ld) (src_of rd))
        | _, _, _, _ => None
        end
      | _, _ => None
      end
    | None => None
    end.

  (* concat_conf: successive dict.update on an empty dictionary *)
  Definition concat_conf (l : list dict) : dict :=
    fold_left (fun acc d => fold_left (fun a kv => set_key (fst kv) (snd kv) a) d acc) l [].

  (* check_configuration.check_conf *)
  Definition full_check (user : dict) : option dict :=
    match input_check (section_of "input" user) with
    | None => None
    | Some cfg_in =>
      match images_of cfg_in with
      | None => None
      | Some im =>
        match pipeline_check classes interp im (section_of "pipeline" user) with
        | None => None
        | Some cfg_p => Some (concat_conf [cfg_in; cfg_p])
        end
      end
    end.

  (* ---- what the run does to cfg: each cost_volume_confidence step gets its indicator *)
  Definition rewrite_step (name : string) (v : jv) : jv :=
    match v with
    | JDict cfg =>
      if String.eqb (kind_of_step name) "cost_volume_confidence"
      then JDict (set_key "indicator" (JStr (indicator_of name)) cfg)
      else v
    | _ => v
    end.

  Definition run_rewrites (cfg : dict) : dict :=
    match lookup "pipeline" cfg with
    | Some (JDict steps) =>
      set_key "pipeline" (JDict (map (fun kv => (fst kv, rewrite_step (fst kv) (snd kv))) steps)) cfg
    | _ => cfg
    end.

  (* ---- main: the dictionary handed to json.dump; margins = machine.margins.to_dict() (C20) *)
  Definition main_saved (margins : jv) (user : dict) : option dict :=
    match full_check user with
    | None => None
    | Some cfg => Some (set_key "margins" margins (run_rewrites cfg))
    end.

  (* ---- before fix e44909e (D8): the derived interval was stored in cfg itself *)
  Definition neg_num (v : jv) : jv :=
    match v with
    | JInt z => JInt (- z)
    | JBool b => JInt (if b then -1 else 0)
    | _ => v
    end.

  Definition derive_right_before (cfg : dict) : dict :=
    match subdict "input" cfg with
    | Some inp =>
      match subdict "left" inp, subdict "right" inp with
      | Some lft, Some rgt =>
        match lookup "disp" rgt, lookup "disp" lft with
        | Some JNull, Some (JList (a :: b :: _)) =>
          set_key "input" (JDict (set_key "right" (JDict (set_key "disp" (JList [neg_num b; neg_num a]) rgt)) inp)) cfg
        | _, _ => cfg
        end
      | _, _ => cfg
      end
    | None => cfg
    end.

  Definition main_saved_before (margins : jv) (user : dict) : option dict :=
    match full_check user with
    | None => None
    | Some cfg => Some (set_key "margins" margins (run_rewrites (derive_right_before cfg)))
    end.
End Main.

(* the file-system oracle of the correspondence runs: every path the harness writes opens;
   rasterio_can_open accepts None / "none", rasterio_can_open_mandatory does not *)
Definition open_orc (name : string) (v : jv) : option bool :=
  match v with
  | JStr _ => Some true
  | JNull => Some (String.eqb name "rasterio_can_open")
  | _ => Some false
  end.
