(* Model of the data flow of the run callbacks of PandoraMachine
   (pandora/state_machine.py): which step function is called on which machine
   attributes, for the left data and -- under the right_disp_map guard -- for
   the right data.  The callbacks themselves are NOT written here: Gen/Callbacks.v
   (regenerated from /repo by translator/gen_callbacks.py) supplies them.
   The step functions are arbitrary (parameter F of the semantics).
   Definitions only. *)
From Coq Require Import List Bool.
Import ListNotations.

(* machine attributes holding data *)
Inductive slot :=
| Limg | Rimg | Lcv | Rcv | Ldisp | Rdisp
| Lmin | Lmax | Rmin | Rmax            (* disp_min/max, right_disp_min/max *)
| Lumin | Lumax | Rumin | Rumax        (* dmin_user/dmax_user(_right) *)
| Lpyr | Rpyr.                         (* img_left_pyramid / img_right_pyramid *)

Definition swap_slot (x : slot) : slot :=
  match x with
  | Limg => Rimg | Rimg => Limg | Lcv => Rcv | Rcv => Lcv | Ldisp => Rdisp | Rdisp => Ldisp
  | Lmin => Rmin | Rmin => Lmin | Lmax => Rmax | Rmax => Lmax
  | Lumin => Rumin | Rumin => Lumin | Lumax => Rumax | Rumax => Lumax
  | Lpyr => Rpyr | Rpyr => Lpyr
  end.

Definition slot_eqb (a b : slot) : bool :=
  match a, b with
  | Limg, Limg | Rimg, Rimg | Lcv, Lcv | Rcv, Rcv | Ldisp, Ldisp | Rdisp, Rdisp
  | Lmin, Lmin | Lmax, Lmax | Rmin, Rmin | Rmax, Rmax
  | Lumin, Lumin | Lumax, Lumax | Rumin, Rumin | Rumax, Rumax | Lpyr, Lpyr | Rpyr, Rpyr => true
  | _, _ => false
  end.

(* step functions called by the callbacks *)
Inductive fname :=
| FAllocate | FValidityMask | FComputeCv | FCvMasked | FAggregate | FOptimize | FSegment
| FToDisp | FFilter | FRefine | FCrossCheck | FInterpolate | FConfidence | FDisparityRange
| FPop | FScale | FSetNone
| FCfgCond.   (* marker: the calls after it in the block run only when a configuration key is present *)

Definition fname_eqb (a b : fname) : bool :=
  match a, b with
  | FAllocate, FAllocate | FValidityMask, FValidityMask | FComputeCv, FComputeCv | FCvMasked, FCvMasked
  | FAggregate, FAggregate | FOptimize, FOptimize | FSegment, FSegment | FToDisp, FToDisp
  | FFilter, FFilter | FRefine, FRefine | FCrossCheck, FCrossCheck | FInterpolate, FInterpolate
  | FConfidence, FConfidence | FDisparityRange, FDisparityRange | FPop, FPop | FScale, FScale
  | FSetNone, FSetNone | FCfgCond, FCfgCond => true
  | _, _ => false
  end.

Inductive cbname :=
| CbMcPrepare | CbMcRun | CbAgg | CbSeg | CbOpt | CbDsp | CbFlt | CbRef | CbVal | CbMsc | CbCvc.

(* callee, slots read as arguments (in order), slots assigned from the result *)
Record call := mkCall { c_fun : fname; c_args : list slot; c_outs : list slot }.

(* left block; right block; is the right block under the right_disp_map guard? *)
Record segment := mkSeg { sg_left : list call; sg_right : list call; sg_guarded : bool }.

(* In-place mutation.  Python step methods also write through some of their
   arguments; which ones is taken from reading the step classes (hand-written
   table, part of the trusted base, exercised by the C08/C18 runs):
   cv_masked(img, img, CV, ..), cost_volume_aggregation(img, img, CV),
   filter_disparity(DISP), subpixel_refinement(cv, DISP),
   interpolated_disparity(DISP), list.pop on the pyramid,
   to_disp(CV, img, img) (stores the variable disp_indices in the cost volume
   dataset -- found by the write-set audit of the C08 check). *)
Definition mutated (f : fname) : list nat :=
  match f with
  | FCvMasked => [2%nat] | FAggregate => [2%nat] | FFilter => [0%nat] | FRefine => [1%nat]
  | FInterpolate => [0%nat] | FPop => [0%nat] | FToDisp => [0%nat]
  | _ => []
  end.

Definition nth_slots (args : list slot) (idx : list nat) : list slot :=
  flat_map (fun i => match nth_error args i with Some x => [x] | None => [] end) idx.

(* every slot a call may write: assigned results, then mutated arguments *)
Definition writes (c : call) : list slot := c_outs c ++ nth_slots (c_args c) (mutated (c_fun c)).

Definition swap_call (c : call) : call :=
  mkCall (c_fun c) (map swap_slot (c_args c)) (map swap_slot (c_outs c)).

Section Semantics.
  Variable V : Type.
  (* the step functions: from the values of the argument slots to the values
     written (assigned results first, then mutated arguments) *)
  Variable F : fname -> list V -> list V.

  Definition state := slot -> V.
  Definition upd (s : state) (x : slot) (v : V) : state :=
    fun y => if slot_eqb y x then v else s y.

  Fixpoint write_all (s : state) (outs : list slot) (vals : list V) : state :=
    match outs, vals with
    | o :: outs', v :: vals' => write_all (upd s o v) outs' vals'
    | _, _ => s
    end.

  Definition exec_call (c : call) (s : state) : state :=
    write_all s (writes c) (F (c_fun c) (map s (c_args c))).

  (* calls of a block that execute, given the configuration condition *)
  Fixpoint active (cfgcond : bool) (blk : list call) : list call :=
    match blk with
    | [] => []
    | c :: r => if fname_eqb (c_fun c) FCfgCond then (if cfgcond then r else []) else c :: active cfgcond r
    end.

  Definition exec_block (blk : list call) (s : state) : state :=
    fold_left (fun s' c => exec_call c s') blk s.

  Definition exec_seg (rdm cfgcond : bool) (sg : segment) (s : state) : state :=
    let s1 := exec_block (active cfgcond (sg_left sg)) s in
    if negb (sg_guarded sg) || rdm then exec_block (active cfgcond (sg_right sg)) s1 else s1.

  Definition exec_cb (rdm cfgcond : bool) (segs : list segment) (s : state) : state :=
    fold_left (fun s' sg => exec_seg rdm cfgcond sg s') segs s.

  Definition swap_state (s : state) : state := fun x => s (swap_slot x).
End Semantics.
