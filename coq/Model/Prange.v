(* Model of a numba `prange` loop, and of what translator/gen_prange.py reads in the
   @njit(parallel=...) kernels of Pandora
     pandora/refinement/refinement.py          loop_refinement, loop_approximate_refinement
     pandora/cost_volume_confidence/ambiguity.py, risk.py, interval_bounds.py
     pandora/interval_tools.py                 create_connected_graph, graph_regularization

   (1) Semantics.  The body of iteration i is a program [prog]: a finite tree of atomic
       operations on a shared memory (read one cell and continue with its value, write one
       cell).  A parallel execution is ANY interleaving of the atomic operations of the
       iterations: a schedule is a list of iteration numbers, "who performs its next atomic
       operation" (a thread count, a chunk size, a permutation of whole iterations, work
       stealing ... are all particular schedules).  The sequential loop runs iteration 0 to
       completion, then 1, ...

   (2) Abstraction read from the source (Gen/Prange.v): per prange loop, the array accesses
       of its body that touch arrays the body stores into (array, store/load, shape of each
       index component, class of the stored value), the scalars carried across iterations
       and the array reductions of the enclosing function.  [race_free_b] is the boolean
       obligation on this datum; Proofs/PrangeP.v shows that it implies schedule
       independence for every family of iteration programs that [conforms] to the datum.

   Definitions only. *)
From Coq Require Import ZArith List Bool String.
Import ListNotations.
Open Scope Z_scope.

(* ------------------------------------------------------------------ cells and memory *)

(* a cell = (array name, index tuple) *)
Definition cell := (string * list Z)%type.

Fixpoint zs_eqb (a b : list Z) : bool :=
  match a, b with
  | [], [] => true
  | x :: a', y :: b' => (x =? y) && zs_eqb a' b'
  | _, _ => false
  end.
Definition cell_eqb (c d : cell) : bool := String.eqb (fst c) (fst d) && zs_eqb (snd c) (snd d).

Section Sem.
  Variable val : Type.
  Definition mem := cell -> val.
  Definition upd (m : mem) (c : cell) (v : val) : mem := fun d => if cell_eqb d c then v else m d.

  (* the body of one iteration *)
  Inductive prog :=
  | Done
  | Read (c : cell) (k : val -> prog)
  | Write (c : cell) (v : val) (k : prog).

  (* an iteration run alone, to completion *)
  Fixpoint solo (p : prog) (m : mem) : mem :=
    match p with
    | Done => m
    | Read c k => solo (k (m c)) m
    | Write c v k => solo k (upd m c v)
    end.

  (* the sequential loop  for i in range(n): body i *)
  Fixpoint seq_run (n : nat) (pool : nat -> prog) (m : mem) : mem :=
    match n with
    | O => m
    | S k => solo (pool k) (seq_run k pool m)
    end.

  (* whole iterations in an arbitrary order (a permutation, or chunks handed to threads
     that happen to run one after the other) *)
  Definition run_list (l : list nat) (pool : nat -> prog) (m : mem) : mem :=
    fold_left (fun m i => solo (pool i) m) l m.

  Definition upd_pool (pool : nat -> prog) (i : nat) (p : prog) : nat -> prog :=
    fun j => if Nat.eqb j i then p else pool j.

  (* iteration i performs its next atomic operation (nothing when it has finished) *)
  Definition step1 (i : nat) (pool : nat -> prog) (m : mem) : (nat -> prog) * mem :=
    match pool i with
    | Done => (pool, m)
    | Read c k => (upd_pool pool i (k (m c)), m)
    | Write c v k => (upd_pool pool i k, upd m c v)
    end.

  Fixpoint run_sched (s : list nat) (pool : nat -> prog) (m : mem) : (nat -> prog) * mem :=
    match s with
    | [] => (pool, m)
    | i :: r => let '(pool', m') := step1 i pool m in run_sched r pool' m'
    end.

  Definition is_done (p : prog) : bool := match p with Done => true | _ => false end.

  (* ---------------------------------------------------------------- footprints *)
  (* R i / W i : cells iteration i may read / write;  K : cells that receive one fixed
     value from whoever writes them and that nobody reads (idempotent stores). *)
  Fixpoint fp_ok (R W : cell -> bool) (K : cell -> option val) (p : prog) : Prop :=
    match p with
    | Done => True
    | Read c k => R c = true /\ forall x, fp_ok R W K (k x)
    | Write c v k => (W c = true \/ K c = Some v) /\ fp_ok R W K k
    end.

  Definition disjoint_fp (R W : nat -> cell -> bool) (K : cell -> option val) : Prop :=
    (forall i j c, i <> j -> W i c = true -> W j c = false /\ R j c = false) /\
    (forall j c v, K c = Some v -> R j c = false /\ W j c = false).
End Sem.

Arguments Done {val}.
Arguments Read {val}.
Arguments Write {val}.

(* ------------------------------------------------------------------ the datum read from the source *)

(* shape of one index component of a subscript *)
Inductive ixc :=
| IVar (v : string)      (* exactly the loop variable v *)
| IConstZ (z : Z)        (* an integer literal *)
| ISlice                 (* a slice *)
| IInd (v : string)      (* built from v only through read-only index tables: T[v, 0], T[v,1] : U[v,1]+1 *)
| IOther.                (* anything else *)

Inductive vclass := VConst (z : Z) | VOther | VLoad.

Record acc := mkAcc {
  a_arr : string;          (* array stored into somewhere in the loop body (not body-local) *)
  a_store : bool;          (* store (true) or load (false) *)
  a_idx : list ixc;
  a_val : vclass }.

Record nest := mkNest {
  n_fun : string;                 (* kernel *)
  n_line : Z;                     (* line of the `for v in prange(...)` *)
  n_var : string;                 (* v *)
  n_switch : bool;                (* parallel= is the PANDORA_NUMBA_PARALLEL switch *)
  n_accs : list acc;
  n_carried : list string;        (* names assigned in the body that are also bound outside it *)
  n_reductions : list string }.   (* numpy reductions of the enclosing function outside any prange *)

Definition ixc_is_var (v : string) (x : ixc) : bool :=
  match x with IVar w => String.eqb w v | _ => false end.
Definition ixc_is_ind (v : string) (x : ixc) : bool :=
  match x with IInd w => String.eqb w v | _ => false end.

Definition accs_of (a : string) (N : nest) : list acc :=
  filter (fun d => String.eqb (a_arr d) a) (n_accs N).

Definition stored_arrays (N : nest) : list string :=
  map a_arr (filter a_store (n_accs N)).
Definition is_stored (N : nest) (a : string) : bool :=
  existsb (String.eqb a) (stored_arrays N).

(* rule POS: some index position holds the loop variable in every access of the array *)
Definition pos_ok (v : string) (p : nat) (ds : list acc) : bool :=
  forallb (fun d => ixc_is_var v (nth p (a_idx d) IOther)) ds.
Definition max_rank (ds : list acc) : nat :=
  fold_right (fun d n => Nat.max (List.length (a_idx d)) n) O ds.
Definition find_pos (v : string) (ds : list acc) : option nat :=
  find (fun p => pos_ok v p ds) (seq 0 (max_rank ds)).

(* rule CONST: the array is only stored into, always with the same literal *)
Definition const_of (ds : list acc) : option Z :=
  match ds with
  | d :: _ =>
    match a_val d with
    | VConst z =>
      if forallb (fun e => a_store e && match a_val e with VConst y => y =? z | _ => false end) ds
      then Some z else None
    | _ => None
    end
  | [] => None
  end.

(* rule IND: the array is only stored into, at cells designated by read-only index tables
   row v (graph_regularization); disjointness of the designated cell sets is a precondition
   on the DATA, carried as a hypothesis by the theorem and sampled by the harness *)
Definition ind_ok (v : string) (ds : list acc) : bool :=
  forallb (fun d => a_store d && negb (Nat.eqb (List.length (a_idx d)) 0)
                    && forallb (ixc_is_ind v) (a_idx d)) ds.

Inductive rule := RPos (p : nat) | RConst (z : Z) | RInd | RNone.

Definition rule_of (N : nest) (a : string) : rule :=
  let ds := accs_of a N in
  match find_pos (n_var N) ds with
  | Some p => RPos p
  | None =>
    match const_of ds with
    | Some z => RConst z
    | None => if ind_ok (n_var N) ds then RInd else RNone
    end
  end.

(* reductions numba may evaluate in parallel at the top of a parallel=True function: only
   those whose result does not depend on the order of evaluation are accepted *)
Definition order_free (r : string) : bool :=
  existsb (String.eqb r)
    ["nanmin"; "nanmax"; "min"; "max"; "any"; "all"; "argwhere"]%string.

Definition race_free_b (N : nest) : bool :=
  forallb (fun a => match rule_of N a with RNone => false | _ => true end) (stored_arrays N)
  && match n_carried N with [] => true | _ => false end
  && forallb order_free (n_reductions N).

(* arrays that rely on the data precondition of rule IND *)
Definition ind_arrays (N : nest) : list string :=
  filter (fun a => match rule_of N a with RInd => true | _ => false end) (stored_arrays N).

(* ------------------------------------------------------------------ conformance *)
(* When does a concrete family of iteration programs agree with the datum?  Every
   read/write of a cell of a stored array must be an instance of one of the listed
   accesses: where the listing says "the loop variable", the concrete index is the
   iteration number; where it says "literal z", the stored value is (cst z); where it
   says "through index tables", the cell is owned by the iteration according to [own]. *)
Section Conf.
  Variable val : Type.
  Variable cst : Z -> val.
  Variable own : cell -> option nat.   (* rule IND: which iteration's table row designates the cell *)

  Fixpoint idx_match (v : string) (i : nat) (ds : list ixc) (zs : list Z) : Prop :=
    match ds, zs with
    | [], _ => True                        (* fewer subscripts than dimensions: trailing slices *)
    | d :: ds', z :: zs' =>
        (if ixc_is_var v d then z = Z.of_nat i else True) /\ idx_match v i ds' zs'
    | _ :: _, [] => False
    end.

  Definition val_match (d : acc) (x : val) : Prop :=
    match a_val d with VConst z => x = cst z | _ => True end.

  Definition acc_match (N : nest) (i : nat) (store : bool) (c : cell) (d : acc) : Prop :=
    a_arr d = fst c /\ a_store d = store /\ idx_match (n_var N) i (a_idx d) (snd c)
    /\ (forallb (ixc_is_ind (n_var N)) (a_idx d) = true -> a_idx d <> [] -> own c = Some i).

  Fixpoint conforms (N : nest) (i : nat) (p : prog val) : Prop :=
    match p with
    | Done => True
    | Read c k =>
        (is_stored N (fst c) = false \/ exists d, In d (n_accs N) /\ acc_match N i false c d)
        /\ forall x, conforms N i (k x)
    | Write c x k =>
        (exists d, In d (n_accs N) /\ acc_match N i true c d /\ val_match d x)
        /\ conforms N i k
    end.

  (* footprints induced by the datum *)
  Definition W_of (N : nest) (i : nat) (c : cell) : bool :=
    match rule_of N (fst c) with
    | RPos p => is_stored N (fst c) &&
                match nth_error (snd c) p with Some z => z =? Z.of_nat i | None => false end
    | RInd => is_stored N (fst c) &&
              match own c with Some j => Nat.eqb j i | None => false end
    | _ => false
    end.
  Definition K_of (N : nest) (c : cell) : option val :=
    if is_stored N (fst c) then
      match rule_of N (fst c) with RConst z => Some (cst z) | _ => None end
    else None.
  Definition R_of (N : nest) (i : nat) (c : cell) : bool :=
    negb (is_stored N (fst c)) || W_of N i c.
End Conf.
