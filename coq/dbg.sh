#!/bin/bash
# usage: dbg.sh File.v LINE  -- show the goal just before LINE
f=$1; n=$2
d=$(dirname $f); b=$(basename $f .v)
awk -v n=$n 'NR==n{print "Show."} {print}' $f > $d/${b}_dbg.v
coqc -Q . Pandora $d/${b}_dbg.v 2>&1 | grep -v WARNING | head -${3:-70}
rm -f $d/${b}_dbg.* $d/.${b}_dbg.aux
