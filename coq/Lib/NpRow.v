(* Additive extension of Lib/NpVec.v: the numpy operations that the ROW LOOP of
   CrossCheckingAccurate.disparity_checking (pandora/validation/validation.py) is written with, and
   their MEANING, written once.  translator/gen_xcheck_kernel.py maps one Python construct to one name
   of this file (or of Lib/NpVec.v) and knows nothing else (coq/Gen/XCheckKernel.v, regenerated at every
   run).

     - floats are [xf] of Lib/NpVec.v (rational | -inf | +inf | NaN; arithmetic exact on rationals,
       IEEE on the specials); ints are [Z]; a uint16 is a [Z] and EVERY uint16 result is reduced
       modulo 65536 ([u16]): the wrap-around of `+=` / `-=` / astype(np.uint16) is in the semantics,
       the theorems prove that it is never reached;
     - np.rint is round-half-to-even ([q_rint]); .astype(int) of a float truncates toward zero and
       gives INT_MIN = -2^63 for NaN and +-inf (x86-64 cvttsd2si);
     - np.where(b) of a 1-D boolean array is the index array of its True entries ([np_where1]; the
       1-tuple numpy returns is indexed with as the array it holds); of a 2-D boolean array it is the
       list of the (row, column) pairs in row-major order ([np_where2]);
     - fancy indexing v[idx] is [v_take] of Lib/NpVec.v (a COPY; every index must be inside the axis,
       a negative one wraps around once); the assignment v[idx] = w ([v_scatter]) stores the entries in
       order (the last one wins on a repeated index) and needs as many values as indices; the augmented
       assignment v[idx] += w is numpy's read-modify-write v[idx] = v[idx] + w (a repeated index counts
       ONCE), on uint16;
     - a 2-D array is a FLAT row-major list with its two extents ([fmat]); np.tile(v, (n, 1)),
       .transpose(), elementwise operations (equal shapes only: the broadcasting of numpy is not
       used by the code and counts as a failure), np.full(m.shape, x), m[np.where(b)] (gather),
       m[np.where(b)] = w (scatter), np.sum(b, axis=1);
     - every operation numpy refuses (and every use outside the fragment above, e.g. a negative index
       in a 2-D gather) is PARTIAL (None); the generated row function returns None as soon as one of
       them fails; the theorem "generated = model" proves it returns Some on every well-shaped input.

   Definitions only; the lemmas about them are in Proofs/XCheckGenP.v. *)
From Coq Require Import ZArith QArith Qround Qabs List Bool.
From Pandora Require Import Lib.NpVec.
Import ListNotations.
Open Scope Z_scope.

(* ---------------------------------------------------------------- scalars *)

(* np.rint on a rational: round half to even *)
Definition q_rint (q : Q) : Z :=
  let f := Qfloor q in
  match Qcompare (q - inject_Z f) (1 # 2) with
  | Lt => f
  | Gt => f + 1
  | Eq => if Z.even f then f else f + 1
  end.
Definition xrint (a : xf) : xf := match a with XFin q => XFin (inject_Z (q_rint q)) | _ => a end.

Definition NP_INT_MIN : Z := - 2 ^ 63.
(* float -> int64 (.astype(int)): truncation toward zero; NaN, +inf, -inf -> INT_MIN (a finite value beyond the int64
   range, which the hardware also turns into INT_MIN, is outside the model: the theorems bound the width by 2^63) *)
Definition x_to_int (a : xf) : Z :=
  match a with XFin q => Z.quot (Qnum q) (Zpos (Qden q)) | _ => NP_INT_MIN end.

Definition xabs (a : xf) : xf :=
  match a with XFin q => XFin (Qabs q) | XMInf => XPInf | XPInf => XPInf | XNaN => XNaN end.

(* the value a uint16 cell holds after a store of the integer z *)
Definition u16 (z : Z) : Z := z mod 65536.

(* ---------------------------------------------------------------- 1-D arrays *)

(* np.arange(a, b) of two ints *)
Definition np_arange2 (a b : Z) : ivec := map (fun i => a + Z.of_nat i) (seq 0 (Z.to_nat (b - a))).

(* np.where(b) of a 1-D boolean array *)
Fixpoint where_from (i : Z) (b : bvec) : ivec :=
  match b with
  | [] => []
  | x :: r => if x then i :: where_from (i + 1) r else where_from (i + 1) r
  end.
Definition np_where1 (b : bvec) : ivec := where_from 0 b.

(* v[idx] = w : as many values as indices, stored in order *)
Fixpoint v_scatter {A : Type} (v : list A) (idx : ivec) (w : list A) : option (list A) :=
  match idx, w with
  | [], [] => Some v
  | i :: ri, x :: rw => match v_store v i x with Some v' => v_scatter v' ri rw | None => None end
  | _, _ => None
  end.

(* v[idx] += w / v[idx] -= w on a uint16 array: v[idx] = uint16(v[idx] +- w) *)
Definition v_iadd_u16 (v : ivec) (idx : ivec) (w : ivec) : option ivec :=
  match v_take v idx with
  | None => None
  | Some cur => match vv2 (fun a b => u16 (a + b)) cur w with
                | None => None
                | Some nw => v_scatter v idx nw
                end
  end.
Definition v_isub_u16 (v : ivec) (idx : ivec) (w : ivec) : option ivec :=
  match v_take v idx with
  | None => None
  | Some cur => match vv2 (fun a b => u16 (a - b)) cur w with
                | None => None
                | Some nw => v_scatter v idx nw
                end
  end.
(* the same with a scalar on the right (broadcast to the selection) *)
Definition v_iadd_u16_s (v : ivec) (idx : ivec) (c : Z) : option ivec :=
  v_iadd_u16 v idx (repeat c (length idx)).

(* ---------------------------------------------------------------- 2-D arrays, flat row-major *)

Record fmat (A : Type) := mkF { fm_r : nat; fm_c : nat; fm_d : list A }.
Arguments mkF {A}. Arguments fm_r {A}. Arguments fm_c {A}. Arguments fm_d {A}.

(* np.tile(v, (n, 1)): n rows, each one v *)
Definition np_tile_rows {A : Type} (v : list A) (n : Z) : fmat A :=
  mkF (Z.to_nat n) (length v) (concat (repeat v (Z.to_nat n))).
(* m.transpose() *)
Definition fm_T {A : Type} (m : fmat A) : fmat A :=
  mkF (fm_c m) (fm_r m) (concat (columns (fm_c m) (chunks (fm_r m) (fm_c m) (fm_d m)))).
(* elementwise: one array, array (op) scalar *)
Definition fm_map {A B : Type} (f : A -> B) (m : fmat A) : fmat B :=
  mkF (fm_r m) (fm_c m) (map f (fm_d m)).
(* elementwise: two arrays of the same shape *)
Definition fm_zip {A B C : Type} (f : A -> B -> C) (a : fmat A) (b : fmat B) : option (fmat C) :=
  if Nat.eqb (fm_r a) (fm_r b) && Nat.eqb (fm_c a) (fm_c b)
     && Nat.eqb (length (fm_d a)) (length (fm_d b))
  then Some (mkF (fm_r a) (fm_c a) (zip2 f (fm_d a) (fm_d b))) else None.
(* np.full(m.shape, x) *)
Definition fm_full_like {A B : Type} (m : fmat A) (x : B) : fmat B :=
  mkF (fm_r m) (fm_c m) (repeat x (fm_r m * fm_c m)).

(* np.where(b) of a 2-D boolean array: the (row, column) pairs of its True entries, row-major *)
Definition np_where2 (b : fmat bool) : list (Z * Z) :=
  map (fun k => (k / Z.of_nat (fm_c b), k mod Z.of_nat (fm_c b))) (np_where1 (fm_d b)).
(* the flat position of a (row, column) pair; both must be inside their axis *)
Definition fm_lin {A : Type} (m : fmat A) (rc : Z * Z) : option Z :=
  let '(r, c) := rc in
  if (0 <=? r) && (r <? Z.of_nat (fm_r m)) && (0 <=? c) && (c <? Z.of_nat (fm_c m))
  then Some (r * Z.of_nat (fm_c m) + c) else None.
(* m[pairs] *)
Definition fm_take2 {A : Type} (m : fmat A) (pairs : list (Z * Z)) : option (list A) :=
  match omap (fm_lin m) pairs with Some idx => v_take (fm_d m) idx | None => None end.
(* m[pairs] = w *)
Definition fm_scatter2 {A : Type} (m : fmat A) (pairs : list (Z * Z)) (w : list A) : option (fmat A) :=
  match omap (fm_lin m) pairs with
  | Some idx => match v_scatter (fm_d m) idx w with
                | Some d => Some (mkF (fm_r m) (fm_c m) d)
                | None => None
                end
  | None => None
  end.
(* np.sum(b, axis=1) of a boolean array: the number of True of every row *)
Definition fbm_sum1 (b : fmat bool) : ivec := map b_sum (chunks (fm_r b) (fm_c b) (fm_d b)).
