(* Semantics of the numpy / numba operations that the confidence kernels of Pandora apply to ONE
   pixel's arrays (pandora/cost_volume_confidence/ambiguity.py, risk.py, interval_bounds.py): the
   target language of translator/gen_conf_kernels.py (see Gen/ConfKernels.v).  Hand-written, once;
   the translator maps one Python construct to one name of this file and knows nothing else.

     - a float is a rational, -inf, +inf or NaN ([xf]); arithmetic is exact on rationals (float
       rounding is outside the model: DESIGN 2.1, bridging rule b) and follows IEEE on the specials:
       NaN propagates, inf - inf = NaN, x / 0 = NaN or +-inf (what the compiled parallel kernels do:
       no ZeroDivisionError), every comparison with NaN is False;
     - an int is a [Z]; a 1-D float array is a [list xf], a 1-D int array a [list Z], a 1-D boolean
       array a [list bool]; a 2-D array is a [mat]: its rows and, separately, its number of columns
       (so that an array with 0 rows keeps its shape);
     - every operation that numpy refuses (or that reads outside an array) is PARTIAL: elementwise
       operations on two arrays of different lengths, boolean-mask assignment / indexing with a mask
       of another length, reshape to a shape of another size, an index outside the axis (a negative
       index wraps around once, as in numpy), nanmin / nanmax of an empty int array.  The translator
       hoists them into `match ... with None => None | Some tmp => ...`; a generated kernel returns
       [None] as soon as one of them fails (broadcasting of a length-1 array is not used by the kernels
       and counts as a failure).

   Definitions only; the lemmas about them are in Proofs/ConfGenP.v. *)
From Coq Require Import ZArith QArith Qabs List Bool.
Import ListNotations.
Open Scope Z_scope.

(* ---------------------------------------------------------------- scalars *)

Inductive xf := XFin (q : Q) | XMInf | XPInf | XNaN.

Definition xofz (z : Z) : xf := XFin (inject_Z z).          (* int -> float promotion *)

Definition xneg (a : xf) : xf :=
  match a with XFin x => XFin (- x) | XMInf => XPInf | XPInf => XMInf | XNaN => XNaN end.
Definition xadd (a b : xf) : xf :=
  match a, b with
  | XNaN, _ => XNaN
  | _, XNaN => XNaN
  | XFin x, XFin y => XFin (x + y)
  | XPInf, XMInf => XNaN
  | XMInf, XPInf => XNaN
  | XPInf, _ => XPInf
  | _, XPInf => XPInf
  | XMInf, _ => XMInf
  | _, XMInf => XMInf
  end.
Definition xsub (a b : xf) : xf :=
  match a, b with
  | XFin x, XFin y => XFin (x - y)
  | _, _ => xadd a (xneg b)
  end.
(* sign of a rational: -1, 0, 1 *)
Definition qsgn (x : Q) : Z := Z.sgn (Qnum x).
Definition xinf_of_sign (s : Z) : xf := if s =? 0 then XNaN else if 0 <? s then XPInf else XMInf.
Definition xsgn (a : xf) : option Z :=
  match a with XFin x => Some (qsgn x) | XMInf => Some (-1) | XPInf => Some 1 | XNaN => None end.
Definition xmul (a b : xf) : xf :=
  match a, b with
  | XFin x, XFin y => XFin (x * y)
  | _, _ => match xsgn a, xsgn b with
            | Some s, Some t => xinf_of_sign (s * t)          (* inf * 0 = NaN *)
            | _, _ => XNaN
            end
  end.
Definition xdiv (a b : xf) : xf :=
  match a, b with
  | XNaN, _ => XNaN
  | _, XNaN => XNaN
  | XFin x, XFin y => if Qeq_bool y 0 then xinf_of_sign (qsgn x) else XFin (x / y)   (* 0/0 = NaN, x/0 = +-inf *)
  | XFin _, _ => XFin 0                                                               (* x / +-inf = 0 *)
  | _, XFin y => match xsgn a with Some s => xinf_of_sign (s * (if qsgn y =? 0 then 1 else qsgn y)) | None => XNaN end
  | _, _ => XNaN                                                                      (* inf / inf *)
  end.

Definition qltb (x y : Q) : bool := negb (Qle_bool y x).
Definition xle (a b : xf) : bool :=
  match a, b with
  | XNaN, _ => false
  | _, XNaN => false
  | XFin x, XFin y => Qle_bool x y
  | XMInf, _ => true
  | _, XPInf => true
  | _, _ => false
  end.
Definition xlt (a b : xf) : bool :=
  match a, b with
  | XNaN, _ => false
  | _, XNaN => false
  | XFin x, XFin y => qltb x y
  | XPInf, _ => false
  | _, XMInf => false
  | _, _ => true
  end.
Definition xge (a b : xf) : bool := xle b a.
Definition xgt (a b : xf) : bool := xlt b a.
Definition xeqb (a b : xf) : bool :=
  match a, b with
  | XFin x, XFin y => Qeq_bool x y
  | XPInf, XPInf => true
  | XMInf, XMInf => true
  | _, _ => false
  end.
Definition xneb (a b : xf) : bool := negb (xeqb a b).
Definition xisnan (a : xf) : bool := match a with XNaN => true | _ => false end.

(* minimum / maximum of two non-NaN floats *)
Definition xmin2 (a b : xf) : xf := if xle a b then a else b.
Definition xmax2 (a b : xf) : xf := if xle a b then b else a.

(* ---------------------------------------------------------------- 1-D arrays *)

Definition vec := list xf.
Definition ivec := list Z.
Definition bvec := list bool.

Definition vlen {A : Type} (v : list A) : Z := Z.of_nat (length v).         (* v.shape[0] *)

Fixpoint zip2 {A B C : Type} (f : A -> B -> C) (la : list A) (lb : list B) : list C :=
  match la, lb with
  | a :: ra, b :: rb => f a b :: zip2 f ra rb
  | _, _ => []
  end.
(* elementwise operation on two arrays: they must have the same length *)
Definition vv2 {A B C : Type} (f : A -> B -> C) (a : list A) (b : list B) : option (list C) :=
  if Nat.eqb (length a) (length b) then Some (zip2 f a b) else None.

(* np.nanmin / np.nanmax of a float array: the NaN are skipped; NaN when nothing is left *)
Fixpoint np_nanmin (l : vec) : xf :=
  match l with
  | [] => XNaN
  | x :: r => if xisnan x then np_nanmin r
              else let m := np_nanmin r in if xisnan m then x else xmin2 x m
  end.
Fixpoint np_nanmax (l : vec) : xf :=
  match l with
  | [] => XNaN
  | x :: r => if xisnan x then np_nanmax r
              else let m := np_nanmax r in if xisnan m then x else xmax2 x m
  end.
(* ... of an int array (no NaN there): the array must not be empty *)
Fixpoint iv_min (l : ivec) : option Z :=
  match l with
  | [] => None
  | x :: r => match iv_min r with None => Some x | Some m => Some (Z.min x m) end
  end.
Fixpoint iv_max (l : ivec) : option Z :=
  match l with
  | [] => None
  | x :: r => match iv_max r with None => Some x | Some m => Some (Z.max x m) end
  end.

(* np.nanmean: sum of the non-NaN entries over their number; NaN when there is none *)
Fixpoint np_nansum (l : vec) : xf * Z :=
  match l with
  | [] => (XFin 0, 0)
  | x :: r => let '(s, n) := np_nansum r in if xisnan x then (s, n) else (xadd x s, n + 1)
  end.
Definition np_nanmean (l : vec) : xf :=
  let '(s, n) := np_nansum l in if n =? 0 then XNaN else xdiv s (xofz n).

(* np.sum of a boolean array: the number of True *)
Fixpoint b_sum (l : bvec) : Z :=
  match l with [] => 0 | b :: r => (if b then 1 else 0) + b_sum r end.

(* np.repeat(v, n): every entry n times in a row; np.repeat(x, n) of a scalar; np.arange(n); np.zeros(n) *)
Definition np_repeat {A : Type} (v : list A) (n : Z) : list A := flat_map (fun x => repeat x (Z.to_nat n)) v.
Definition np_repeat_s {A : Type} (x : A) (n : Z) : list A := repeat x (Z.to_nat n).
Definition np_arange (n : Z) : ivec := map Z.of_nat (seq 0 (Z.to_nat n)).
Definition np_zeros (n : Z) : vec := repeat (XFin 0) (Z.to_nat n).

(* v[mask] = x (boolean-mask assignment of a scalar); v[mask] (boolean indexing) *)
Definition v_setmask {A : Type} (v : list A) (mask : bvec) (x : A) : option (list A) :=
  vv2 (fun y (b : bool) => if b then x else y) v mask.
Fixpoint pick {A : Type} (v : list A) (mask : bvec) : list A :=
  match v, mask with
  | y :: rv, b :: rm => if b then y :: pick rv rm else pick rv rm
  | _, _ => []
  end.
Definition v_mask {A : Type} (v : list A) (mask : bvec) : option (list A) :=
  if Nat.eqb (length v) (length mask) then Some (pick v mask) else None.

(* v[i]: a negative index wraps around once; then it must be inside the array *)
Definition norm_index (n i : Z) : option nat :=
  let j := if i <? 0 then i + n else i in
  if (0 <=? j) && (j <? n) then Some (Z.to_nat j) else None.
Definition v_get {A : Type} (v : list A) (i : Z) : option A :=
  match norm_index (vlen v) i with Some j => nth_error v j | None => None end.
(* v[idx] for an int array idx (fancy indexing) *)
Fixpoint v_take {A : Type} (v : list A) (idx : ivec) : option (list A) :=
  match idx with
  | [] => Some []
  | i :: r => match v_get v i, v_take v r with
              | Some x, Some xs => Some (x :: xs)
              | _, _ => None
              end
  end.
(* v[i] = x *)
Fixpoint set_at {A : Type} (v : list A) (j : nat) (x : A) : list A :=
  match v, j with
  | [], _ => []
  | _ :: r, O => x :: r
  | y :: r, S j' => y :: set_at r j' x
  end.
Definition v_store {A : Type} (v : list A) (i : Z) (x : A) : option (list A) :=
  match norm_index (vlen v) i with Some j => Some (set_at v j x) | None => None end.
(* a[row, col, :] = x (scalar: every entry) ; a[row, col, :] = w (an array of the same length) *)
Definition v_fill {A : Type} (v : list A) (x : A) : list A := map (fun _ => x) v.
Definition v_assign {A : Type} (v w : list A) : option (list A) :=
  if Nat.eqb (length v) (length w) then Some w else None.

(* ---------------------------------------------------------------- 2-D arrays *)

Record mat (A : Type) := mkMat { mcols : nat; mrows : list (list A) }.
Arguments mkMat {A}. Arguments mcols {A}. Arguments mrows {A}.

(* r consecutive chunks of c entries *)
Fixpoint chunks {A : Type} (r c : nat) (l : list A) : list (list A) :=
  match r with
  | O => []
  | S r' => firstn c l :: chunks r' c (skipn c l)
  end.
(* v.reshape((r, c)): the sizes must agree *)
Definition v_reshape {A : Type} (v : list A) (r c : Z) : option (mat A) :=
  if (0 <=? r) && (0 <=? c) && (r * c =? vlen v)
  then Some (mkMat (Z.to_nat c) (chunks (Z.to_nat r) (Z.to_nat c) v)) else None.
(* v.reshape((-1, c)): c must divide the size (and not be 0) *)
Definition v_reshape_m1 {A : Type} (v : list A) (c : Z) : option (mat A) :=
  if (0 <? c) && (vlen v mod c =? 0)
  then Some (mkMat (Z.to_nat c) (chunks (Z.to_nat (vlen v / c)) (Z.to_nat c) v)) else None.

(* m.T *)
Fixpoint columns {A : Type} (n : nat) (rows : list (list A)) : list (list A) :=
  match n with
  | O => []
  | S n' => flat_map (fun r => match r with [] => [] | x :: _ => [x] end) rows :: columns n' (map (@tl A) rows)
  end.
Definition m_T {A : Type} (m : mat A) : mat A := mkMat (length (mrows m)) (columns (mcols m) (mrows m)).
(* m.flatten() *)
Definition m_flatten {A : Type} (m : mat A) : list A := concat (mrows m).
(* m[:, i] *)
Definition m_col {A : Type} (m : mat A) (i : Z) : option (list A) :=
  match norm_index (Z.of_nat (mcols m)) i with
  | Some j => Some (flat_map (fun r => match nth_error r j with Some x => [x] | None => [] end) (mrows m))
  | None => None
  end.
(* np.sum(m, axis=0) of a boolean array: the number of True of every column *)
Definition bm_sum0 (m : mat bool) : ivec :=
  map (fun col => b_sum col) (columns (mcols m) (mrows m)).

(* ---------------------------------------------------------------- loops and maps *)

(* for i in range(n): st = body i st   (the state is the tuple of the variables the body assigns) *)
Fixpoint for_list {S : Type} (its : list Z) (body : Z -> S -> option S) (st : S) : option S :=
  match its with
  | [] => Some st
  | i :: r => match body i st with Some st' => for_list r body st' | None => None end
  end.
Definition for_range {S : Type} (n : Z) (body : Z -> S -> option S) (st : S) : option S :=
  for_list (np_arange n) body st.

(* the `for row in prange(n_row): for col in prange(n_col):` nest: the body reads the (row, col) cells of
   the arrays it is given and returns the (row, col) cells of the arrays it writes *)
Fixpoint omap {A B : Type} (f : A -> option B) (l : list A) : option (list B) :=
  match l with
  | [] => Some []
  | x :: r => match f x, omap f r with Some y, Some ys => Some (y :: ys) | _, _ => None end
  end.
Definition omap2 {A B : Type} (f : A -> option B) (m : list (list A)) : option (list (list B)) :=
  omap (omap f) m.

(* np.nanmin(cv) / np.nanmax(cv) / cv.shape of a 3-D array given as rows x columns x curve *)
Definition vol := list (list vec).
Definition np_nanmin3 (cv : vol) : xf := np_nanmin (concat (concat cv)).
Definition np_nanmax3 (cv : vol) : xf := np_nanmax (concat (concat cv)).
Definition shape3 (cv : vol) : Z * Z * Z :=
  (vlen cv, vlen (hd [] cv), vlen (hd [] (hd [] cv))).

(* array (op) scalar, scalar (op) array, int array -> float array *)
Definition vs {A B C : Type} (f : A -> B -> C) (v : list A) (s : B) : list C := map (fun x => f x s) v.
Definition sv {A B C : Type} (f : A -> B -> C) (s : A) (v : list B) : list C := map (fun x => f s x) v.
Definition v_ofz (v : ivec) : vec := map xofz v.

(* the same nest over two arrays read at (row, col): they must have the same shape *)
Definition ozip {A B C : Type} (f : A -> B -> option C) (la : list A) (lb : list B) : option (list C) :=
  if Nat.eqb (length la) (length lb) then omap (fun p => f (fst p) (snd p)) (combine la lb) else None.
Definition ozip2 {A B C : Type} (f : A -> B -> option C) (ma : list (list A)) (mb : list (list B))
  : option (list (list C)) := ozip (ozip f) ma mb.

(* ---------------------------------------------------------------- whole 2-D float arrays (normalize_with_percentile) *)

Definition mat2 := list (list xf).
(* array (op) scalar *)
Definition m2s (f : xf -> xf -> xf) (m : mat2) (s : xf) : mat2 := map (map (fun x => f x s)) m.
(* np.minimum / np.maximum of two floats: NaN propagates *)
Definition xminimum (a b : xf) : xf := if xisnan a || xisnan b then XNaN else xmin2 a b.
Definition xmaximum (a b : xf) : xf := if xisnan a || xisnan b then XNaN else xmax2 a b.
(* np.clip(m, lo, hi) = minimum(maximum(m, lo), hi) *)
Definition np_clip2 (m : mat2) (lo hi : xf) : mat2 := map (map (fun x => xminimum (xmaximum x lo) hi)) m.
(* np.min / np.max of an array: NaN as soon as an entry is NaN; the array must not be empty *)
Fixpoint np_min1 (l : vec) : option xf :=
  match l with
  | [] => None
  | x :: r => match np_min1 r with None => Some x | Some m => Some (xminimum x m) end
  end.
Fixpoint np_max1 (l : vec) : option xf :=
  match l with
  | [] => None
  | x :: r => match np_max1 r with None => Some x | Some m => Some (xmaximum x m) end
  end.
Definition np_min2 (m : mat2) : option xf := np_min1 (concat m).
Definition np_max2 (m : mat2) : option xf := np_max1 (concat m).
