(* Universal value type used at the extraction boundary: the OCaml driver only
   knows how to parse and print [value]; every model function exposed to the
   correspondence harness is wrapped (in Gallina) as [value -> value]. *)
From Coq Require Import ZArith List QArith.
Import ListNotations.
Open Scope Z_scope.

Inductive value : Type :=
| VZ (z : Z)
| VL (l : list value).

Definition as_z (v : value) : Z := match v with VZ z => z | VL _ => 0 end.
Definition as_l (v : value) : list value := match v with VL l => l | VZ _ => [] end.
Definition as_b (v : value) : bool := negb (Z.eqb (as_z v) 0).
Definition as_nat (v : value) : nat := Z.to_nat (as_z v).
Definition vnth (n : nat) (v : value) : value := nth n (as_l v) (VL []).
Definition as_zs (v : value) : list Z := map as_z (as_l v).
Definition as_zss (v : value) : list (list Z) := map as_zs (as_l v).

Definition of_b (b : bool) : value := VZ (if b then 1 else 0).
Definition of_nat (n : nat) : value := VZ (Z.of_nat n).
Definition of_zs (l : list Z) : value := VL (map VZ l).
Definition of_zss (l : list (list Z)) : value := VL (map of_zs l).

(* option Z : () for None, (z) for Some z *)
Definition as_oz (v : value) : option Z :=
  match v with VL [VZ z] => Some z | _ => None end.
Definition of_oz (o : option Z) : value :=
  match o with Some z => VL [VZ z] | None => VL [] end.

(* rationals: (num den) ; option Q : () or (num den) *)
Definition as_q (v : value) : Q :=
  match v with
  | VL [VZ n; VZ d] => Qmake n (Z.to_pos d)
  | VZ n => Qmake n 1
  | _ => 0%Q
  end.
Definition of_q (q : Q) : value := let r := Qred q in VL [VZ (Qnum r); VZ (Zpos (Qden r))].
Definition as_oq (v : value) : option Q :=
  match v with
  | VL [VZ n; VZ d] => Some (Qmake n (Z.to_pos d))
  | VZ n => Some (Qmake n 1)
  | _ => None
  end.
Definition of_oq (o : option Q) : value :=
  match o with Some q => of_q q | None => VL [] end.
