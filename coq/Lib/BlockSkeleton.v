(* The SKELETON of the hand-written double block loops of Pandora, as data.

   Four functions process an array in B x B blocks with the same bookkeeping
   (disparity.py argmin_split / argmax_split, median.py median_filter, bilateral.py
   filter_bilateral, fixed_zoom_pyramid.py disparity_range):

       chunks_y = np.array_split(SRC, np.arange(B, ny, B), axis=0)
       y_begin = <oy>                                           # sk_pre
       for blk_y in chunks_y:
           chunks_x = np.array_split(blk_y, np.arange(B, nx, B), axis=1)
           x_begin = <ox>                                       # sk_outer_pre
           for blk_x in chunks_x:                               # sk_inner_body
               [y_end = y_begin + blk_y.shape[0]; x_end = x_begin + blk_x.shape[1]]
               DST[y_begin : y_end, x_begin : x_end] = K(blk_x)
               x_begin += blk_x.shape[1]
           y_begin += blk_y.shape[0]                            # sk_outer_post

   translator/gen_block_loops.py reads these functions with Python `ast` and emits, for each, a
   [skeleton] (coq/Gen/BlockLoops.v, regenerated at every run): the two split expressions, the
   statements on the running offsets WHERE THEY STAND (before the outer loop / in the outer body
   before the inner loop / in the inner body / in the outer body after the inner loop, in source
   order), the slice bounds of every write, the array the chunks are taken from and the array that
   is written (resolved through the local names down to the allocation: np.zeros / np.full_like /
   np.copy / sliding_window view / an expression over the parameters).

   This file gives
     * [exec]: the meaning of such a skeleton as a program (running offsets in an environment,
       statements executed in order, Python-clamped array_split slices);
     * [skeleton_wf]: the boolean "this is the canonical double block loop that Blocks.loop2
       models" (placement and amount of every initialisation / advance, slice bounds, axes, one
       block size >= 1 on both axes, the kernel applied to the INNER chunk, storage read <> storage
       written and the written array freshly allocated);
     * [exec_wf_loop2]: for every well-formed skeleton, every extent, every stop value of the
       np.arange and every kernel, [exec] IS [loop2] at the skeleton's own block size and start
       offsets (hence, by Blocks.loop2_spec, writes K on the rectangle and nothing else).
   The per-run obligations [skeleton_wf Gen.BlockLoops.<f> = true] are in Props/C03, C10, C15. *)
From Coq Require Import ZArith List Bool Lia.
From Pandora Require Import Lib.Blocks.
Import ListNotations.
Open Scope Z_scope.

(* ================================================================== the datatype *)

Inductive chunk : Type := COuter | CInner.     (* the loop variable of the outer / inner loop *)

(* scalar expressions met in the bookkeeping *)
Inductive expr : Type :=
| EConst (z : Z)
| EVar (v : Z)                 (* a name assigned inside the loops (running offset, local bound), by number *)
| EWin                         (* the window size W of sliding_window(a, (W, W)), the array that is split *)
| EShape (c : chunk) (axis : Z)  (* <chunk>.shape[axis] *)
| EAdd (a b : expr)
| ESub (a b : expr)
| EIntHalf (a : expr).         (* int(a / 2) *)

(* array expressions, resolved through single-assignment local names *)
Inductive aexp : Type :=
| AOpaque (id : Z)             (* an expression over the parameters (numbered; text in the generated comment) *)
| AZeros (var : Z)             (* var = np.zeros(...) *)
| AFullLike (var : Z)          (* var = np.full_like(..., c) *)
| ACopy (var : Z) (of : aexp)  (* var = np.copy(of) *)
| AWindows (a : aexp)          (* sliding_window(a, (W, W)): a strided VIEW of a *)
| AChunk (c : chunk).

Inductive kernel : Type :=
| KArgminLookup                (* cost_volume.coords["disp"].data[np.argmin(chunk, axis=2)] *)
| KArgmaxLookup
| KNanMedian                   (* np.nanmedian(chunk, axis=(2, 3)) *)
| KBilateral                   (* self.bilateral_kernel(chunk, ...) *)
| KNanMinMinusMarge            (* np.nanmin(chunk, axis=(2, 3)) - self._marge *)
| KNanMaxPlusMarge.            (* np.nanmax(chunk, axis=(2, 3)) + self._marge *)

(* w_target[w_y0 : w_y1, w_x0 : w_x1] = w_kernel(w_arg) *)
Record write : Type := mkWrite {
  w_target : aexp; w_y0 : expr; w_y1 : expr; w_x0 : expr; w_x1 : expr; w_kernel : kernel; w_arg : aexp }.

Inductive stmt : Type :=
| SAssign (v : Z) (e : expr)   (* v = e *)
| SAug (v : Z) (e : expr)      (* v += e *)
| SWrite (w : write).

Inductive dim : Type := DimShape (a : aexp) (axis : Z).     (* <a>.shape[axis] *)

(* np.array_split(sp_src, np.arange(sp_start, sp_stop, sp_step), axis=sp_axis) *)
Record split : Type := mkSplit { sp_src : aexp; sp_start : Z; sp_stop : dim; sp_step : Z; sp_axis : Z }.

Record skeleton : Type := mkSkeleton {
  sk_outer : split;
  sk_inner : split;
  sk_pre : list stmt;          (* statements on the numbered names before the outer loop *)
  sk_outer_pre : list stmt;    (* in the outer body, before the inner loop *)
  sk_inner_body : list stmt;   (* the inner body *)
  sk_outer_post : list stmt }. (* in the outer body, after the inner loop *)

(* ================================================================== decidable equalities *)

Definition chunk_eq_dec : forall a b : chunk, {a = b} + {a <> b}.
Proof. decide equality. Defined.
Definition expr_eq_dec : forall a b : expr, {a = b} + {a <> b}.
Proof. decide equality; try apply Z.eq_dec; apply chunk_eq_dec. Defined.
Definition aexp_eq_dec : forall a b : aexp, {a = b} + {a <> b}.
Proof. decide equality; try apply Z.eq_dec; apply chunk_eq_dec. Defined.
Definition kernel_eq_dec : forall a b : kernel, {a = b} + {a <> b}.
Proof. decide equality. Defined.
Definition write_eq_dec : forall a b : write, {a = b} + {a <> b}.
Proof. decide equality; try apply expr_eq_dec; try apply aexp_eq_dec; apply kernel_eq_dec. Defined.
Definition stmt_eq_dec : forall a b : stmt, {a = b} + {a <> b}.
Proof. decide equality; try apply Z.eq_dec; try apply expr_eq_dec; apply write_eq_dec. Defined.

Definition expr_eqb (a b : expr) : bool := if expr_eq_dec a b then true else false.
Definition aexp_eqb (a b : aexp) : bool := if aexp_eq_dec a b then true else false.
Definition stmt_eqb (a b : stmt) : bool := if stmt_eq_dec a b then true else false.
Definition stmts_eqb (a b : list stmt) : bool := if list_eq_dec stmt_eq_dec a b then true else false.

(* ================================================================== the meaning of a skeleton *)

Section Exec.
  Context {A : Type}.
  (* [F k i j]: the value kernel k yields for element (i, j) of the array that is split (the
     arg-min of cost_volume[i, j, :], the median of window (i, j), ...).  F is a FIXED function of
     the position: this is the meaning of the loop only when the storage the chunks are views of is
     not the storage the loop writes -- which skeleton_wf demands ([storage_ok]). *)
  Variable F : kernel -> Z -> Z -> A.
  Variable win : Z.              (* value of W *)
  Variables my mx : Z.           (* extent of the array that is split, axes 0 and 1 *)
  Variable tgt : aexp.           (* the written array that is observed *)

  Definition state : Type := ((Z -> Z) * (Z -> Z -> A))%type.

  (* <chunk>.shape[axis] while the outer chunk is rows [fst sy, snd sy) and the inner chunk columns
     [fst sx, snd sx) of it; the trailing axes (windows, disparities) are not modelled: 0 *)
  Definition shape_of (sy sx : Z * Z) (c : chunk) (axis : Z) : Z :=
    if axis =? 0 then snd sy - fst sy
    else if axis =? 1 then match c with COuter => mx | CInner => snd sx - fst sx end
    else 0.

  Fixpoint eval (env : Z -> Z) (sy sx : Z * Z) (e : expr) : Z :=
    match e with
    | EConst z => z
    | EVar v => env v
    | EWin => win
    | EShape c axis => shape_of sy sx c axis
    | EAdd a b => eval env sy sx a + eval env sy sx b
    | ESub a b => eval env sy sx a - eval env sy sx b
    | EIntHalf a => Z.quot (eval env sy sx a) 2
    end.

  Definition upd (env : Z -> Z) (v x : Z) : Z -> Z := fun u => if u =? v then x else env u.

  (* position, in the array that is split, of element (0, 0) of the kernel's argument *)
  Definition origin (sy sx : Z * Z) (a : aexp) : Z * Z :=
    match a with
    | AChunk CInner => (fst sy, fst sx)
    | AChunk COuter => (fst sy, 0)
    | _ => (0, 0)
    end.

  (* slice assignment: Blocks.assign (no clamping to the extent of the target, no wrap-around of
     negative bounds, no shape check of the value: arrays are total functions here; a well-formed
     skeleton writes a slice of exactly the shape of the chunk, at non-negative bounds) *)
  Definition exec_stmt (sy sx : Z * Z) (st : state) (s : stmt) : state :=
    let '(env, out) := st in
    match s with
    | SAssign v e => (upd env v (eval env sy sx e), out)
    | SAug v e => (upd env v (env v + eval env sy sx e), out)
    | SWrite w =>
        if aexp_eq_dec (w_target w) tgt then
          let o := origin sy sx (w_arg w) in
          (env, assign out (eval env sy sx (w_y0 w)) (eval env sy sx (w_y1 w))
                           (eval env sy sx (w_x0 w)) (eval env sy sx (w_x1 w))
                           (fun i j => F (w_kernel w) (fst o + i) (snd o + j)))
        else st
    end.

  Definition exec_stmts (sy sx : Z * Z) (l : list stmt) (st : state) : state :=
    fold_left (exec_stmt sy sx) l st.

  (* the chunks of np.array_split(x, np.arange(start, n, step), axis) on an axis of extent m *)
  Definition split_slices (sp : split) (n m : Z) : list (Z * Z) :=
    slices m 0 (arange (sp_start sp) n (sp_step sp)).

  (* [ny], [nx]: the values of the two np.arange stops.  The inner split is taken to split the
     OUTER CHUNK along axis 1 and the outer split axis 0 of the source (skeleton_wf checks both);
     a name read before any assignment is 0 here (NameError in Python; excluded by skeleton_wf). *)
  Definition exec (sk : skeleton) (ny nx : Z) (st0 : state) : state :=
    let st1 := exec_stmts (0, 0) (0, 0) (sk_pre sk) st0 in
    fold_left (fun st sy =>
                 let st_a := exec_stmts sy (0, 0) (sk_outer_pre sk) st in
                 let st_b := fold_left (fun st' sx => exec_stmts sy sx (sk_inner_body sk) st')
                                       (split_slices (sk_inner sk) nx mx) st_a in
                 exec_stmts sy (0, 0) (sk_outer_post sk) st_b)
              (split_slices (sk_outer sk) ny my) st1.
End Exec.

(* ================================================================== well-formedness *)

(* loop-invariant scalar expression *)
Fixpoint inv_expr (e : expr) : bool :=
  match e with
  | EConst _ | EWin => true
  | EVar _ | EShape _ _ => false
  | EAdd a b | ESub a b => inv_expr a && inv_expr b
  | EIntHalf a => inv_expr a
  end.

(* value of a loop-invariant expression, given the window size *)
Definition eval0 (win : Z) (e : expr) : Z := @eval win 0 (fun _ => 0) (0, 0) (0, 0) e.

(* "the number of rows of the current outer chunk": blk_y.shape[0] (= blk_x.shape[0]) *)
Definition rows_ext (e : expr) : bool := expr_eqb e (EShape COuter 0) || expr_eqb e (EShape CInner 0).
Definition cols_ext : expr := EShape CInner 1.             (* blk_x.shape[1] *)

Inductive root : Type := ROpaque (id : Z) | RVar (v : Z) | RChunk.
Definition root_eq_dec : forall a b : root, {a = b} + {a <> b}.
Proof. decide equality; apply Z.eq_dec. Defined.
Fixpoint root_of (a : aexp) : root :=
  match a with
  | AOpaque i => ROpaque i
  | AZeros v | AFullLike v | ACopy v _ => RVar v
  | AWindows a' => root_of a'
  | AChunk _ => RChunk
  end.
Definition is_alloc (a : aexp) : bool :=
  match a with AZeros _ | AFullLike _ | ACopy _ _ => true | _ => false end.

(* the written array is a fresh allocation whose storage is not the storage the chunks view *)
Definition storage_ok (src : aexp) (w : write) : bool :=
  is_alloc (w_target w) && (if root_eq_dec (root_of (w_target w)) (root_of src) then false else true).

(* inner body = SWrite w1; ...; SWrite wk; last   (k >= 0), every write accepted by [wok] *)
Fixpoint inner_ok (wok : write -> bool) (last : stmt) (l : list stmt) : bool :=
  match l with
  | [] => false
  | [s] => stmt_eqb s last
  | SWrite w :: r => wok w && inner_ok wok last r
  | _ :: _ => false
  end.

Fixpoint writes_of (l : list stmt) : list write :=
  match l with
  | [] => []
  | SWrite w :: r => w :: writes_of r
  | _ :: r => writes_of r
  end.

Definition arg_ok (w : write) : bool := aexp_eqb (w_arg w) (AChunk CInner).

(* form A: bounds written in place;  running offsets are names 0 (rows) and 1 (columns) *)
Definition write_okA (w : write) : bool :=
  expr_eqb (w_y0 w) (EVar 0)
  && match w_y1 w with EAdd a b => expr_eqb a (EVar 0) && rows_ext b | _ => false end
  && expr_eqb (w_x0 w) (EVar 1)
  && expr_eqb (w_x1 w) (EAdd (EVar 1) cols_ext)
  && arg_ok w.

Definition formA (sk : skeleton) : bool :=
  match sk_pre sk, sk_outer_pre sk, sk_outer_post sk with
  | [SAssign vy ey], [SAssign vx ex], [SAug vy' ry] =>
      (vy =? 0) && inv_expr ey && (vx =? 1) && inv_expr ex && (vy' =? 0) && rows_ext ry
      && inner_ok write_okA (SAug 1 cols_ext) (sk_inner_body sk)
  | _, _, _ => false
  end.

(* form B: y_end / x_end locals; names 0 = y_begin, 1 = y_end, 2 = x_begin, 3 = x_end *)
Definition write_okB (w : write) : bool :=
  expr_eqb (w_y0 w) (EVar 0) && expr_eqb (w_y1 w) (EVar 1)
  && expr_eqb (w_x0 w) (EVar 2) && expr_eqb (w_x1 w) (EVar 3) && arg_ok w.

Definition formB (sk : skeleton) : bool :=
  match sk_pre sk, sk_outer_pre sk, sk_outer_post sk, sk_inner_body sk with
  | [SAssign vy ey], [SAssign vx ex], [SAug vy' ry], SAssign v1 (EAdd a1 b1) :: SAssign v3 e3 :: body =>
      (vy =? 0) && inv_expr ey && (vx =? 2) && inv_expr ex && (vy' =? 0) && rows_ext ry
      && (v1 =? 1) && expr_eqb a1 (EVar 0) && rows_ext b1
      && (v3 =? 3) && expr_eqb e3 (EAdd (EVar 2) cols_ext)
      && inner_ok write_okB (SAug 2 cols_ext) body
  | _, _, _, _ => false
  end.

Definition splits_ok (sk : skeleton) : bool :=
  let o := sk_outer sk in
  let i := sk_inner sk in
  (sp_axis o =? 0) && (sp_axis i =? 1)
  && (1 <=? sp_step o) && (sp_start o =? sp_step o)
  && (sp_start i =? sp_step o) && (sp_step i =? sp_step o)
  && aexp_eqb (sp_src i) (AChunk COuter)
  && (if root_eq_dec (root_of (sp_src o)) RChunk then false else true).

Definition skeleton_wf (sk : skeleton) : bool :=
  splits_ok sk && (formA sk || formB sk)
  && negb (match writes_of (sk_inner_body sk) with [] => true | _ => false end)
  && forallb (storage_ok (sp_src (sk_outer sk))) (writes_of (sk_inner_body sk)).

(* the parameters of a skeleton: what Blocks.loop2 is instantiated with *)
Definition sk_B (sk : skeleton) : Z := sp_step (sk_outer sk).
Definition sk_oy_expr (sk : skeleton) : expr :=
  match sk_pre sk with [SAssign _ e] => e | _ => EConst 0 end.
Definition sk_ox_expr (sk : skeleton) : expr :=
  match sk_outer_pre sk with [SAssign _ e] => e | _ => EConst 0 end.
Definition sk_oy (win : Z) (sk : skeleton) : Z := eval0 win (sk_oy_expr sk).
Definition sk_ox (win : Z) (sk : skeleton) : Z := eval0 win (sk_ox_expr sk).
Definition sk_src (sk : skeleton) : aexp := sp_src (sk_outer sk).
Definition sk_writes (sk : skeleton) : list write := writes_of (sk_inner_body sk).
(* the array written by the n-th write of the inner body *)
Definition sk_target (n : nat) (sk : skeleton) : aexp :=
  match nth_error (sk_writes sk) n with Some w => w_target w | None => AOpaque 0 end.

(* the kernel of the LAST write of the body into [tgt] *)
Fixpoint last_kernel (tgt : aexp) (ws : list write) : option kernel :=
  match ws with
  | [] => None
  | w :: r => match last_kernel tgt r with
              | Some k => Some k
              | None => if aexp_eq_dec (w_target w) tgt then Some (w_kernel w) else None
              end
  end.

(* ================================================================== lemmas *)

Lemma expr_eqb_eq : forall a b, expr_eqb a b = true -> a = b.
Proof. intros a b. unfold expr_eqb. destruct (expr_eq_dec a b); [auto | discriminate]. Qed.
Lemma aexp_eqb_eq : forall a b, aexp_eqb a b = true -> a = b.
Proof. intros a b. unfold aexp_eqb. destruct (aexp_eq_dec a b); [auto | discriminate]. Qed.
Lemma stmt_eqb_eq : forall a b, stmt_eqb a b = true -> a = b.
Proof. intros a b. unfold stmt_eqb. destruct (stmt_eq_dec a b); [auto | discriminate]. Qed.

Lemma inner_ok_shape : forall wok last l, inner_ok wok last l = true ->
  exists ws, l = map SWrite ws ++ [last] /\ forallb wok ws = true.
Proof.
  intros wok last. induction l as [|s r IH]; cbn [inner_ok]; [discriminate|].
  destruct r as [|s' r'].
  - intros H. assert (H' : stmt_eqb s last = true) by (destruct s; exact H).
    apply stmt_eqb_eq in H'. subst. exists []. split; reflexivity.
  - destruct s as [v e|v e|w]; try discriminate.
    intros H. apply andb_true_iff in H. destruct H as [Hw Hr].
    destruct (IH Hr) as (ws & Hl & Hall). exists (w :: ws). split.
    + cbn [map app]. rewrite <- Hl. reflexivity.
    + cbn [forallb]. rewrite Hw, Hall. reflexivity.
Qed.

Lemma writes_of_app_writes : forall ws l, writes_of (map SWrite ws ++ l) = ws ++ writes_of l.
Proof. induction ws; intros; cbn [map app writes_of]; [reflexivity | rewrite IHws; reflexivity]. Qed.

Lemma fold_tiles_inv : forall (S : Type) (P : Z -> S -> Prop) (body : S -> Z * Z -> S) sl lo hi st,
  tiles lo hi sl ->
  (forall s e st', lo <= s -> s <= e -> e <= hi -> P s st' -> P e (body st' (s, e))) ->
  P lo st -> P hi (fold_left body sl st).
Proof.
  intros S P body sl. induction sl as [|[s e] r IH]; intros lo hi st Ht Hb HP.
  - inversion Ht; subst. exact HP.
  - inversion Ht as [|lo' mid hi' r' Hle Hrest]; subst. cbn [fold_left].
    assert (Hmid : e <= hi) by (eapply tiles_le; eassumption).
    apply (IH e hi); [assumption | | apply Hb; try lia; assumption].
    intros s' e' st' H1 H2 H3 HP'. apply Hb; try lia. assumption.
Qed.

Section ExecLemmas.
  Context {A : Type}.
  Variable F : kernel -> Z -> Z -> A.
  Variable win : Z.
  Variables my mx : Z.
  Variable tgt : aexp.

  Notation evl := (@eval win mx).
  Notation xstmts := (@exec_stmts A F win mx tgt).

  Lemma inv_eval : forall e env sy sx, inv_expr e = true -> evl env sy sx e = eval0 win e.
  Proof.
    unfold eval0. induction e; intros env sy sx H; cbn [inv_expr] in H; try discriminate; cbn [eval];
      try reflexivity.
    - apply andb_true_iff in H. destruct H. erewrite IHe1, IHe2 by eassumption.
      rewrite <- (IHe1 (fun _ => 0) (0, 0) (0, 0)), <- (IHe2 (fun _ => 0) (0, 0) (0, 0)) by assumption.
      reflexivity.
    - apply andb_true_iff in H. destruct H. erewrite IHe1, IHe2 by eassumption.
      rewrite <- (IHe1 (fun _ => 0) (0, 0) (0, 0)), <- (IHe2 (fun _ => 0) (0, 0) (0, 0)) by assumption.
      reflexivity.
    - erewrite IHe by eassumption. rewrite <- (IHe (fun _ => 0) (0, 0) (0, 0)) by assumption. reflexivity.
  Qed.

  Lemma rows_ext_eval : forall e env sy sx, rows_ext e = true -> evl env sy sx e = snd sy - fst sy.
  Proof.
    intros e env sy sx H. unfold rows_ext in H. apply orb_true_iff in H.
    destruct H as [H | H]; apply expr_eqb_eq in H; subst; reflexivity.
  Qed.

  (* the writes of one iteration, all at the same (semantic) bounds: the last write into tgt wins *)
  Lemma writes_exec : forall ws env out sy sx y0 y1 x0 x1,
    (forall w, In w ws -> evl env sy sx (w_y0 w) = y0 /\ evl env sy sx (w_y1 w) = y1
                          /\ evl env sy sx (w_x0 w) = x0 /\ evl env sy sx (w_x1 w) = x1
                          /\ w_arg w = AChunk CInner) ->
    fst (xstmts sy sx (map SWrite ws) (env, out)) = env
    /\ forall r c, snd (xstmts sy sx (map SWrite ws) (env, out)) r c =
         match last_kernel tgt ws with
         | Some k => assign out y0 y1 x0 x1 (fun i j => F k (fst sy + i) (fst sx + j)) r c
         | None => out r c
         end.
  Proof.
    induction ws as [|w ws IH]; intros env out sy sx y0 y1 x0 x1 Hb.
    - split; reflexivity.
    - unfold exec_stmts. cbn [map fold_left].
      destruct (Hb w (or_introl eq_refl)) as (E0 & E1 & E2 & E3 & Ea).
      assert (Hb' : forall w', In w' ws -> evl env sy sx (w_y0 w') = y0 /\ evl env sy sx (w_y1 w') = y1
                          /\ evl env sy sx (w_x0 w') = x0 /\ evl env sy sx (w_x1 w') = x1
                          /\ w_arg w' = AChunk CInner) by (intros; apply Hb; right; assumption).
      cbn [exec_stmt last_kernel]. rewrite E0, E1, E2, E3, Ea. cbn [origin fst snd].
      destruct (aexp_eq_dec (w_target w) tgt) as [Et | Et].
      + destruct (IH env (assign out y0 y1 x0 x1 (fun i j => F (w_kernel w) (fst sy + i) (fst sx + j)))
                     sy sx y0 y1 x0 x1 Hb') as [IHe IHo].
        split; [exact IHe|]. intros r c. unfold exec_stmts in IHo. rewrite IHo.
        destruct (last_kernel tgt ws); [|reflexivity].
        unfold assign. destruct ((y0 <=? r) && (r <? y1) && (x0 <=? c) && (c <? x1)); reflexivity.
      + destruct (IH env out sy sx y0 y1 x0 x1 Hb') as [IHe IHo].
        split; [exact IHe|]. intros r c. unfold exec_stmts in IHo. rewrite IHo.
        destruct (last_kernel tgt ws); reflexivity.
  Qed.

  (* ONE ITERATION of the inner body, as the loop-level proof needs it: the row offset [vy] is
     kept, the column offset [vx] advances by the width of the chunk, and the rectangle
     [env vy, +h) x [env vx, +wd) of the observed array receives kernel k of the chunk *)
  Definition iter_ok (body : list stmt) (vy vx : Z) (k : kernel) : Prop :=
    forall env out sy sx,
      let st' := xstmts sy sx body (env, out) in
      fst st' vy = env vy /\ fst st' vx = env vx + (snd sx - fst sx)
      /\ forall r c, snd st' r c =
           assign out (env vy) (env vy + (snd sy - fst sy)) (env vx) (env vx + (snd sx - fst sx))
                  (fun i j => F k (fst sy + i) (fst sx + j)) r c.

  Lemma exec_stmts_app : forall sy sx l1 l2 st,
    xstmts sy sx (l1 ++ l2) st = xstmts sy sx l2 (xstmts sy sx l1 st).
  Proof. intros. unfold exec_stmts. apply fold_left_app. Qed.

  Lemma write_okA_bounds : forall w env sy sx, write_okA w = true ->
    evl env sy sx (w_y0 w) = env 0 /\ evl env sy sx (w_y1 w) = env 0 + (snd sy - fst sy)
    /\ evl env sy sx (w_x0 w) = env 1 /\ evl env sy sx (w_x1 w) = env 1 + (snd sx - fst sx)
    /\ w_arg w = AChunk CInner.
  Proof.
    intros w env sy sx H. unfold write_okA in H. repeat rewrite andb_true_iff in H.
    destruct H as ((((H0 & H1) & H2) & H3) & H4).
    apply expr_eqb_eq in H0, H2, H3. apply aexp_eqb_eq in H4.
    destruct (w_y1 w) as [| | | |a b| |]; try discriminate.
    apply andb_true_iff in H1. destruct H1 as [Ha Hb]. apply expr_eqb_eq in Ha. subst a.
    rewrite H0, H2, H3. cbn [eval]. rewrite (rows_ext_eval b) by assumption.
    repeat split; try reflexivity. exact H4.
  Qed.

  Lemma iterA : forall ws k, forallb write_okA ws = true -> last_kernel tgt ws = Some k ->
    iter_ok (map SWrite ws ++ [SAug 1 cols_ext]) 0 1 k.
  Proof.
    intros ws k Hall Hk env out sy sx. cbv zeta. rewrite exec_stmts_app.
    destruct (writes_exec ws env out sy sx (env 0) (env 0 + (snd sy - fst sy)) (env 1) (env 1 + (snd sx - fst sx)))
      as [He Ho].
    { intros w Hin. apply write_okA_bounds. rewrite forallb_forall in Hall. apply Hall. assumption. }
    destruct (xstmts sy sx (map SWrite ws) (env, out)) as [env1 out1] eqn:E1. cbn [fst snd] in He, Ho.
    subst env1. unfold exec_stmts. cbn [fold_left exec_stmt fst snd].
    unfold upd. cbn [Z.eqb Pos.eqb]. split; [reflexivity|]. split; [reflexivity|].
    intros r c. rewrite Ho, Hk. reflexivity.
  Qed.

  Lemma write_okB_bounds : forall w env sy sx, write_okB w = true ->
    evl env sy sx (w_y0 w) = env 0 /\ evl env sy sx (w_y1 w) = env 1
    /\ evl env sy sx (w_x0 w) = env 2 /\ evl env sy sx (w_x1 w) = env 3
    /\ w_arg w = AChunk CInner.
  Proof.
    intros w env sy sx H. unfold write_okB in H. repeat rewrite andb_true_iff in H.
    destruct H as ((((H0 & H1) & H2) & H3) & H4).
    apply expr_eqb_eq in H0, H1, H2, H3. apply aexp_eqb_eq in H4.
    rewrite H0, H1, H2, H3. repeat split; try reflexivity. exact H4.
  Qed.

  Lemma iterB : forall ws k ry, forallb write_okB ws = true -> last_kernel tgt ws = Some k ->
    rows_ext ry = true ->
    iter_ok (SAssign 1 (EAdd (EVar 0) ry) :: SAssign 3 (EAdd (EVar 2) cols_ext)
             :: map SWrite ws ++ [SAug 2 cols_ext]) 0 2 k.
  Proof.
    intros ws k ry Hall Hk Hry env out sy sx. cbv zeta.
    unfold exec_stmts. cbn [fold_left].
    cbn [exec_stmt eval]. rewrite (rows_ext_eval ry) by assumption.
    set (env1 := upd (upd env 1 (env 0 + (snd sy - fst sy))) 3 _).
    assert (E0 : env1 0 = env 0) by reflexivity.
    assert (E1 : env1 1 = env 0 + (snd sy - fst sy)) by reflexivity.
    assert (E2 : env1 2 = env 2) by reflexivity.
    assert (E3 : env1 3 = env 2 + (snd sx - fst sx)).
    { unfold env1, upd. cbn [Z.eqb Pos.eqb eval cols_ext shape_of fst snd]. reflexivity. }
    rewrite fold_left_app.
    destruct (writes_exec ws env1 out sy sx (env1 0) (env1 1) (env1 2) (env1 3)) as [He Ho].
    { intros w Hin. apply write_okB_bounds. rewrite forallb_forall in Hall. apply Hall. assumption. }
    unfold exec_stmts in He, Ho.
    destruct (fold_left (exec_stmt F win mx tgt sy sx) (map SWrite ws) (env1, out)) as [env2 out2] eqn:E.
    cbn [fst snd] in He, Ho.
    subst env2. cbn [fold_left exec_stmt fst snd].
    split; [unfold upd; cbn [Z.eqb Pos.eqb]; exact E0|].
    split; [unfold upd at 1; cbn [Z.eqb Pos.eqb]; rewrite E2; reflexivity|].
    intros r c. rewrite Ho, Hk, E0, E1, E2, E3. reflexivity.
  Qed.

  (* ---------------------------------------------------------------- the loops *)

  Section Loops.
    Variables (B ny nx : Z) (body : list stmt) (vy vx : Z) (k : kernel).
    Variables (ey ex ry : expr).
    Hypothesis HB : 1 <= B.
    Hypothesis Hmy : 0 <= my.
    Hypothesis Hmx : 0 <= mx.
    Hypothesis Hv : vy <> vx.
    Hypothesis Hiter : iter_ok body vy vx k.
    Hypothesis Hey : inv_expr ey = true.
    Hypothesis Hex : inv_expr ex = true.
    Hypothesis Hry : rows_ext ry = true.

    Let oy := eval0 win ey.
    Let ox := eval0 win ex.

    Lemma inner_loop : forall env out1 sy,
      env vx = ox ->
      let st' := fold_left (fun st' sx => xstmts sy sx body st') (blocks B nx mx) (env, out1) in
      fst st' vy = env vy
      /\ forall r c, snd st' r c =
           if (env vy <=? r) && (r <? env vy + (snd sy - fst sy)) && (ox <=? c) && (c <? ox + mx)
           then F k (fst sy + (r - env vy)) (c - ox) else out1 r c.
    Proof.
      intros env out1 sy Hx. cbv zeta.
      set (P := fun (pos : Z) (st : @state A) =>
                  fst st vy = env vy /\ fst st vx = ox + pos
                  /\ forall r c, snd st r c =
                       if (env vy <=? r) && (r <? env vy + (snd sy - fst sy)) && (ox <=? c) && (c <? ox + pos)
                       then F k (fst sy + (r - env vy)) (c - ox) else out1 r c).
      assert (HP : P mx (fold_left (fun st' sx => xstmts sy sx body st') (blocks B nx mx) (env, out1))).
      { apply (fold_tiles_inv _ P _ (blocks B nx mx) 0 mx).
        - apply blocks_tile; assumption.
        - intros s e [env' out'] Hs Hse He (P1 & P2 & P3). cbn [fst snd] in P1, P2, P3.
          destruct (Hiter env' out' sy (s, e)) as (I1 & I2 & I3). cbn [fst snd] in I1, I2, I3.
          unfold P. split; [rewrite I1; exact P1|]. split; [rewrite I2, P2; lia|].
          intros r c. rewrite I3. unfold assign. rewrite P1, P2, !P3.
          bdz. f_equal; lia.
        - unfold P. cbn [fst snd]. split; [reflexivity|]. split; [lia|]. intros r c. bdz. }
      destruct HP as (P1 & _ & P3). split; assumption.
    Qed.

    Theorem loops_spec : forall env0 out0 r c,
      snd (fold_left (fun st sy =>
                 let st_a := xstmts sy (0, 0) [SAssign vx ex] st in
                 let st_b := fold_left (fun st' sx => xstmts sy sx body st') (blocks B nx mx) st_a in
                 xstmts sy (0, 0) [SAug vy ry] st_b)
              (blocks B ny my) (xstmts (0, 0) (0, 0) [SAssign vy ey] (env0, out0))) r c
      = loop2 (F k) B ny nx my mx oy ox out0 r c.
    Proof.
      intros env0 out0 r c. rewrite loop2_spec by assumption. revert r c.
      set (P := fun (pos : Z) (st : @state A) =>
                  fst st vy = oy + pos
                  /\ forall r c, snd st r c =
                       if (oy <=? r) && (r <? oy + pos) && (ox <=? c) && (c <? ox + mx)
                       then F k (r - oy) (c - ox) else out0 r c).
      match goal with |- forall r c, snd ?X r c = _ => assert (HP : P my X) end.
      { apply (fold_tiles_inv _ P _ (blocks B ny my) 0 my).
        - apply blocks_tile; assumption.
        - intros s e [env' out'] Hs Hse He (P1 & P3). cbn [fst snd] in P1, P3. cbv zeta.
          unfold exec_stmts at 3. cbn [fold_left exec_stmt].
          rewrite (inv_eval ex) by assumption. fold ox.
          set (env1 := upd env' vx ox).
          assert (E1x : env1 vx = ox) by (unfold env1, upd; rewrite Z.eqb_refl; reflexivity).
          assert (E1y : env1 vy = env' vy).
          { unfold env1, upd. destruct (Z.eqb_spec vy vx); [contradiction | reflexivity]. }
          destruct (inner_loop env1 out' (s, e) E1x) as [L1 L3]. cbv zeta in L1, L3.
          match type of L1 with fst ?X vy = _ => destruct X as [env2 out2] end. cbn [fst snd] in L1, L3.
          unfold exec_stmts. cbn [fold_left exec_stmt].
          rewrite (rows_ext_eval ry) by assumption. cbn [fst snd]. unfold P. cbn [fst snd]. split.
          + unfold upd. rewrite Z.eqb_refl. rewrite L1, E1y, P1. lia.
          + intros r c. rewrite L3, E1y, P1, P3. bdz. f_equal; lia.
        - unfold P, exec_stmts. cbn [fold_left exec_stmt fst snd]. split.
          + unfold upd. rewrite Z.eqb_refl. rewrite (inv_eval ey) by assumption. fold oy. lia.
          + intros r c. bdz. }
      destruct HP as [_ HP]. exact HP.
    Qed.
  End Loops.
End ExecLemmas.

(* ------------------------------------------------------------------ the theorem *)

Lemma formA_shape : forall sk, formA sk = true ->
  exists ey ex ry ws,
    sk_pre sk = [SAssign 0 ey] /\ sk_outer_pre sk = [SAssign 1 ex] /\ sk_outer_post sk = [SAug 0 ry]
    /\ sk_inner_body sk = map SWrite ws ++ [SAug 1 cols_ext]
    /\ inv_expr ey = true /\ inv_expr ex = true /\ rows_ext ry = true /\ forallb write_okA ws = true.
Proof.
  intros sk H. unfold formA in H.
  destruct (sk_pre sk) as [|[vy ey| |] [|]]; try discriminate.
  destruct (sk_outer_pre sk) as [|[vx ex| |] [|]]; try discriminate.
  destruct (sk_outer_post sk) as [|[|vy' ry|] [|]]; try discriminate.
  repeat rewrite andb_true_iff in H. destruct H as ((((((H1 & H2) & H3) & H4) & H5) & H6) & H7).
  apply Z.eqb_eq in H1, H3, H5. subst.
  destruct (inner_ok_shape _ _ _ H7) as (ws & Hl & Hall).
  exists ey, ex, ry, ws. repeat split; assumption.
Qed.

Lemma formB_shape : forall sk, formB sk = true ->
  exists ey ex ry ry' ws,
    sk_pre sk = [SAssign 0 ey] /\ sk_outer_pre sk = [SAssign 2 ex] /\ sk_outer_post sk = [SAug 0 ry]
    /\ sk_inner_body sk = SAssign 1 (EAdd (EVar 0) ry') :: SAssign 3 (EAdd (EVar 2) cols_ext)
                          :: map SWrite ws ++ [SAug 2 cols_ext]
    /\ inv_expr ey = true /\ inv_expr ex = true /\ rows_ext ry = true /\ rows_ext ry' = true
    /\ forallb write_okB ws = true.
Proof.
  intros sk H. unfold formB in H.
  destruct (sk_pre sk) as [|[vy ey| |] [|]]; try discriminate.
  destruct (sk_outer_pre sk) as [|[vx ex| |] [|]]; try discriminate.
  destruct (sk_outer_post sk) as [|[|vy' ry|] [|]]; try discriminate.
  destruct (sk_inner_body sk) as [|[v1 e1| |] [|s2 body]]; try discriminate;
    destruct e1 as [| | | |a1 b1| |]; try discriminate;
    destruct s2 as [v3 e3| |]; try discriminate.
  repeat rewrite andb_true_iff in H.
  destruct H as (((((((((((H1 & H2) & H3) & H4) & H5) & H6) & H7) & H8) & H9) & H10) & H11) & H12).
  apply Z.eqb_eq in H1, H3, H5, H7, H10. apply expr_eqb_eq in H8, H11. subst.
  destruct (inner_ok_shape _ _ _ H12) as (ws & Hl & Hall).
  exists ey, ex, ry, b1, ws. rewrite Hl. repeat split; assumption.
Qed.

Lemma splits_ok_blocks : forall sk, splits_ok sk = true ->
  1 <= sk_B sk
  /\ (forall n m, split_slices (sk_outer sk) n m = blocks (sk_B sk) n m)
  /\ (forall n m, split_slices (sk_inner sk) n m = blocks (sk_B sk) n m).
Proof.
  intros sk H. unfold splits_ok in H. repeat rewrite andb_true_iff in H.
  destruct H as (((((((H1 & H2) & H3) & H4) & H5) & H6) & H7) & H8).
  apply Z.leb_le in H3. apply Z.eqb_eq in H4, H5, H6. unfold sk_B, split_slices, blocks, split_points.
  rewrite H4, H5, H6. auto.
Qed.

(* For every well-formed skeleton, every kernel function F, window size, extents (my, mx) >= 0 of
   the split array, every pair of np.arange stop values (ny, nx), every initial environment and
   initial content of the written array: executing the skeleton IS loop2 with the skeleton's
   block size and start offsets, at the kernel of (the last write into) the observed array. *)
Theorem exec_wf_loop2 : forall (A : Type) (F : kernel -> Z -> Z -> A) win my mx tgt sk k ny nx env0 out0 r c,
  skeleton_wf sk = true -> 0 <= my -> 0 <= mx ->
  last_kernel tgt (sk_writes sk) = Some k ->
  snd (exec F win my mx tgt sk ny nx (env0, out0)) r c
  = loop2 (F k) (sk_B sk) ny nx my mx (sk_oy win sk) (sk_ox win sk) out0 r c.
Proof.
  intros A F win my mx tgt sk k ny nx env0 out0 r c Hwf Hmy Hmx Hk.
  unfold skeleton_wf in Hwf. repeat rewrite andb_true_iff in Hwf.
  destruct Hwf as (((Hs & Hf) & _) & _).
  destruct (splits_ok_blocks sk Hs) as (HB & Ho & Hi).
  unfold exec, sk_oy, sk_ox, sk_oy_expr, sk_ox_expr. rewrite Ho, Hi.
  apply orb_true_iff in Hf. destruct Hf as [Hf | Hf].
  - destruct (formA_shape sk Hf) as (ey & ex & ry & ws & E1 & E2 & E3 & E4 & Iy & Ix & Ir & Hall).
    unfold sk_writes in Hk. rewrite E4, writes_of_app_writes in Hk. cbn [writes_of] in Hk.
    rewrite app_nil_r in Hk.
    rewrite E1, E2, E3, E4.
    apply (loops_spec F win my mx tgt (sk_B sk) ny nx _ 0 1 k ey ex ry); try assumption; try lia.
    apply iterA; assumption.
  - destruct (formB_shape sk Hf) as (ey & ex & ry & ry' & ws & E1 & E2 & E3 & E4 & Iy & Ix & Ir & Ir' & Hall).
    unfold sk_writes in Hk. rewrite E4 in Hk. cbn [writes_of] in Hk.
    rewrite writes_of_app_writes in Hk. cbn [writes_of] in Hk. rewrite app_nil_r in Hk.
    rewrite E1, E2, E3, E4.
    apply (loops_spec F win my mx tgt (sk_B sk) ny nx _ 0 2 k ey ex ry); try assumption; try lia.
    apply iterB; assumption.
Qed.

(* ================================================================== the four roles
   What each model additionally fixes about its loop: the start offsets, the kernel, what the
   written array holds before the loop (zeros / a constant / a copy of the very array the windows
   are views of).  [skeleton_wf] is a conjunct of each. *)

Definition kernel_eqb (a b : kernel) : bool := if kernel_eq_dec a b then true else false.
Lemma kernel_eqb_eq : forall a b, kernel_eqb a b = true -> a = b.
Proof. intros a b. unfold kernel_eqb. destruct (kernel_eq_dec a b); [auto | discriminate]. Qed.

Definition half_win : expr := EIntHalf EWin.                       (* int(W / 2) *)
Definition half_win_m1 : expr := EIntHalf (ESub EWin (EConst 1)).  (* int((W - 1) / 2) *)

(* argmin_split / argmax_split: offsets 0, np.zeros output, chunks of the cost volume itself *)
Definition wta_skeleton_ok (mx : bool) (sk : skeleton) : bool :=
  skeleton_wf sk
  && expr_eqb (sk_oy_expr sk) (EConst 0) && expr_eqb (sk_ox_expr sk) (EConst 0)
  && match sk_src sk with AOpaque _ => true | _ => false end
  && match sk_writes sk with
     | [w] => match w_target w with AZeros _ => true | _ => false end
              && kernel_eqb (w_kernel w) (if mx then KArgmaxLookup else KArgminLookup)
     | _ => false
     end.

(* median_filter / filter_bilateral: offsets int(W / 2), the output is np.copy(a) and the chunks are
   windows of that same a *)
Definition filter_skeleton_ok (k : kernel) (sk : skeleton) : bool :=
  skeleton_wf sk
  && expr_eqb (sk_oy_expr sk) half_win && expr_eqb (sk_ox_expr sk) half_win
  && match sk_writes sk, sk_src sk with
     | [w], AWindows a => match w_target w with ACopy _ a' => aexp_eqb a a' | _ => false end
                          && kernel_eqb (w_kernel w) k
     | _, _ => false
     end.

(* disparity_range: offsets int((W - 1) / 2), two np.full_like outputs (min then max), windows *)
Definition ms_skeleton_ok (sk : skeleton) : bool :=
  skeleton_wf sk
  && expr_eqb (sk_oy_expr sk) half_win_m1 && expr_eqb (sk_ox_expr sk) half_win_m1
  && match sk_writes sk, sk_src sk with
     | [w1; w2], AWindows _ =>
         match w_target w1, w_target w2 with
         | AFullLike v1, AFullLike v2 => negb (v1 =? v2)
         | _, _ => false
         end
         && kernel_eqb (w_kernel w1) KNanMinMinusMarge && kernel_eqb (w_kernel w2) KNanMaxPlusMarge
     | _, _ => false
     end.

Lemma half_win_val : forall w, 0 <= w -> eval0 w half_win = w / 2.
Proof. intros w H. unfold eval0, half_win. cbn [eval]. apply Z.quot_div_nonneg; lia. Qed.
Lemma half_win_m1_val : forall w, 1 <= w -> eval0 w half_win_m1 = (w - 1) / 2.
Proof. intros w H. unfold eval0, half_win_m1. cbn [eval]. apply Z.quot_div_nonneg; lia. Qed.

(* the mutations of the skeleton met in practice are NOT the loop: executed on a 1 x 3 array with
   B = 1 (three column blocks), "x_begin initialised before the outer loop" coincides with the
   canonical loop only on the first row block; with two row blocks it writes the second row of
   blocks at columns 3.. instead of 0.. *)
Definition ex_canon : skeleton :=
  mkSkeleton (mkSplit (AOpaque 0) 1 (DimShape (AOpaque 0) 0) 1 0)
             (mkSplit (AChunk COuter) 1 (DimShape (AOpaque 0) 1) 1 1)
             [SAssign 0 (EConst 0)] [SAssign 1 (EConst 0)]
             [SWrite (mkWrite (AZeros 0) (EVar 0) (EAdd (EVar 0) (EShape COuter 0)) (EVar 1)
                              (EAdd (EVar 1) (EShape CInner 1)) KNanMedian (AChunk CInner));
              SAug 1 (EShape CInner 1)]
             [SAug 0 (EShape COuter 0)].
Definition ex_x_not_reset : skeleton :=
  mkSkeleton (sk_outer ex_canon) (sk_inner ex_canon)
             [SAssign 0 (EConst 0); SAssign 1 (EConst 0)] []
             (sk_inner_body ex_canon) (sk_outer_post ex_canon).
Definition ex_run (sk : skeleton) : list (list Z) :=
  let out := snd (exec (fun _ i j => 10 * i + j + 1) 0 2 3 (AZeros 0) sk 2 3 (fun _ => 0, fun _ _ => 0)) in
  map (fun r => map (out r) [0; 1; 2; 3; 4; 5]) [0; 1].
Example ex_canon_wf : skeleton_wf ex_canon = true /\ ex_run ex_canon = [[1; 2; 3; 0; 0; 0]; [11; 12; 13; 0; 0; 0]].
Proof. vm_compute. split; reflexivity. Qed.
Example ex_x_not_reset_refused :
  skeleton_wf ex_x_not_reset = false /\ ex_run ex_x_not_reset = [[1; 2; 3; 0; 0; 0]; [0; 0; 0; 11; 12; 13]].
Proof. vm_compute. split; reflexivity. Qed.
