(* Semantics of the numpy array operations that the translated bodies of census_transform, popcount32b,
   compute_mean_raster, compute_std_raster and masks_dilatation use (hand-written; the target language of
   translator/gen_census_zncc_fns.py, see Gen/CensusZnccFns.v).

   A 2-D array is a record [arr A]: a validity flag, its shape and a total function of the two indices.  The flag
   [a_ok] is what makes the reading FAIL CLOSED: every operation that numpy would refuse (a negative dimension, two
   operands of different shapes -- broadcasting is never assumed --, an as_strided view that leaves the buffer, a
   concatenation of arrays of different widths) clears it, and the theorems about a generated function prove
   [a_ok = true] together with the shape and the values at the in-range indices.  Python slices keep their
   semantics: a negative bound counts from the end, [-0] is [0] (so [x[b:-b]] is EMPTY for b = 0), bounds are
   clipped to the axis.

   Integer arrays hold exact integers (integer radiometry: every float64 cumulative sum is exact, a nancumsum is a
   cumsum); uint32 arithmetic wraps modulo 2^32 ([u32]); the mean / variance rasters are exact rationals.  A mask of
   NaN / 0 (masks_dilatation) is an array of booleans, [true] = NaN; adding two such masks is [orb].

   Definitions only; the lemmas about them are in Proofs/CensusZnccFnsP.v. *)
From Coq Require Import ZArith List Bool QArith Qabs.
From Pandora Require Import Model.MatchingCost.
Import ListNotations.
Open Scope Z_scope.

(* ------------------------------------------------------------------ uint32 *)

Definition u32 (x : Z) : Z := x mod 4294967296.

(* ------------------------------------------------------------------ Python slices *)

(* a slice bound v on an axis of length n; [None] is the omitted bound (default d) *)
Definition py_bound (n : Z) (v : option Z) (d : Z) : Z :=
  match v with
  | None => d
  | Some k => if k <? 0 then Z.max 0 (n + k) else Z.min k n
  end.
Definition sl_start (n : Z) (a : option Z) : Z := py_bound n a 0.
Definition sl_stop (n : Z) (b : option Z) : Z := py_bound n b n.
Definition sl_len (n : Z) (a b : option Z) : Z := Z.max 0 (sl_stop n b - sl_start n a).

(* ------------------------------------------------------------------ 2-D arrays *)

Record arr (A : Type) : Type := MkArr { a_ok : bool; a_nr : Z; a_nc : Z; a_at : Z -> Z -> A }.
Arguments MkArr {A} _ _ _ _.
Arguments a_ok {A} _.
Arguments a_nr {A} _.
Arguments a_nc {A} _.
Arguments a_at {A} _ _ _.

(* an input array of the caller: ny x nx, values I *)
Definition np_of {A : Type} (ny nx : Z) (I : Z -> Z -> A) : arr A := MkArr ((0 <=? ny) && (0 <=? nx)) ny nx I.

Definition same_shape {A B : Type} (a : arr A) (b : arr B) : bool := (a_nr a =? a_nr b) && (a_nc a =? a_nc b).

Definition np_map {A B : Type} (f : A -> B) (a : arr A) : arr B :=
  MkArr (a_ok a) (a_nr a) (a_nc a) (fun r c => f (a_at a r c)).
(* element-wise binary operation of two arrays of the SAME shape *)
Definition np_zip {A B C : Type} (f : A -> B -> C) (a : arr A) (b : arr B) : arr C :=
  MkArr (a_ok a && a_ok b && same_shape a b) (a_nr a) (a_nc a) (fun r c => f (a_at a r c) (a_at b r c)).

(* np.zeros((nr, nc)); np.zeros(n) inside np.c_[...] is the column np.zeros((n, 1)) *)
Definition np_zeros (nr nc : Z) : arr Z := MkArr ((0 <=? nr) && (0 <=? nc)) nr nc (fun _ _ => 0).

(* np.r_[a, b]: b under a;  np.c_[a, b]: b right of a *)
Definition np_r_ {A : Type} (a b : arr A) : arr A :=
  MkArr (a_ok a && a_ok b && (a_nc a =? a_nc b)) (a_nr a + a_nr b) (a_nc a)
        (fun r c => if r <? a_nr a then a_at a r c else a_at b (r - a_nr a) c).
Definition np_c_ {A : Type} (a b : arr A) : arr A :=
  MkArr (a_ok a && a_ok b && (a_nr a =? a_nr b)) (a_nr a) (a_nc a + a_nc b)
        (fun r c => if c <? a_nc a then a_at a r c else a_at b r (c - a_nc a)).

(* np.cumsum / np.nancumsum (integer data) along axis 0 (down the rows) or 1 (along the columns) *)
Definition np_cumsum (axis : Z) (a : arr Z) : arr Z :=
  MkArr (a_ok a && ((axis =? 0) || (axis =? 1))) (a_nr a) (a_nc a)
        (fun r c => if axis =? 0 then zsum (map (fun j => a_at a j c) (zrange 0 (r + 1)))
                    else zsum (map (fun j => a_at a r j) (zrange 0 (c + 1)))).

(* a[r0:r1, c0:c1] *)
Definition np_slice {A : Type} (a : arr A) (r0 r1 c0 c1 : option Z) : arr A :=
  MkArr (a_ok a) (sl_len (a_nr a) r0 r1) (sl_len (a_nc a) c0 c1)
        (fun r c => a_at a (sl_start (a_nr a) r0 + r) (sl_start (a_nc a) c0 + c)).

Definition np_sub : arr Z -> arr Z -> arr Z := np_zip Z.sub.
Definition np_sq : arr Z -> arr Z := np_map (fun x => x * x).                       (* a ** 2 *)
(* a > b as 0 / 1 *)
Definition np_gt : arr Z -> arr Z -> arr Z := np_zip (fun x y => Z.b2z (x >? y)).
Definition np_ge : arr Z -> arr Z -> arr Z := np_zip (fun x y => Z.b2z (x >=? y)).
Definition np_lt : arr Z -> arr Z -> arr Z := np_zip (fun x y => Z.b2z (x <? y)).
Definition np_le : arr Z -> arr Z -> arr Z := np_zip (fun x y => Z.b2z (x <=? y)).
(* a << k (a boolean array shifted by a Python int is int64: no wrap below 2^63) *)
Definition np_shl (a : arr Z) (k : Z) : arr Z := np_map (fun x => Z.shiftl x k) a.
Definition np_astype_u32 : arr Z -> arr Z := np_map u32.
(* a[:, :] += b with a of dtype uint32 *)
Definition np_iadd_u32 : arr Z -> arr Z -> arr Z := np_zip (fun x y => u32 (x + y)).

(* ------------------------------------------------------------------ as_strided views *)

(* the stride of an axis of the view: the row stride or the column stride of the base array *)
Inductive stride := StRow | StCol.
Definition on_row (k : stride) (i : Z) : Z := match k with StRow => i | StCol => 0 end.
Definition on_col (k : stride) (i : Z) : Z := match k with StRow => 0 | StCol => i end.

Record arr4 (A : Type) : Type :=
  MkArr4 { a4_ok : bool; a4_n0 : Z; a4_n1 : Z; a4_n2 : Z; a4_n3 : Z; a4_at : Z -> Z -> Z -> Z -> A }.
Arguments MkArr4 {A} _ _ _ _ _ _.
Arguments a4_ok {A} _.
Arguments a4_n0 {A} _.
Arguments a4_n1 {A} _.
Arguments a4_n2 {A} _.
Arguments a4_n3 {A} _.
Arguments a4_at {A} _ _ _ _ _.

(* as_strided(a, (n0, n1, n2, n3), (k0, k1, k2, k3)): element (i0, i1, i2, i3) is the element of a whose row /
   column is the sum of the indices of the axes that carry the row / column stride; valid when no dimension is
   negative and the last element of the view is inside the base array *)
Definition np_as_strided4 {A : Type} (a : arr A) (n0 n1 n2 n3 : Z) (k0 k1 k2 k3 : stride) : arr4 A :=
  let ok_dims := (0 <=? n0) && (0 <=? n1) && (0 <=? n2) && (0 <=? n3) in
  let empty := (n0 =? 0) || (n1 =? 0) || (n2 =? 0) || (n3 =? 0) in
  let last_r := on_row k0 (n0 - 1) + on_row k1 (n1 - 1) + on_row k2 (n2 - 1) + on_row k3 (n3 - 1) in
  let last_c := on_col k0 (n0 - 1) + on_col k1 (n1 - 1) + on_col k2 (n2 - 1) + on_col k3 (n3 - 1) in
  MkArr4 (a_ok a && ok_dims && (empty || ((last_r <? a_nr a) && (last_c <? a_nc a)))) n0 n1 n2 n3
         (fun i0 i1 i2 i3 => a_at a (on_row k0 i0 + on_row k1 i1 + on_row k2 i2 + on_row k3 i3)
                                    (on_col k0 i0 + on_col k1 i1 + on_col k2 i2 + on_col k3 i3)).

(* v[:, :, i, j] *)
Definition np_index23 {A : Type} (v : arr4 A) (i j : Z) : arr A :=
  MkArr (a4_ok v && (0 <=? i) && (i <? a4_n2 v) && (0 <=? j) && (j <? a4_n3 v)) (a4_n0 v) (a4_n1 v)
        (fun r c => a4_at v r c i j).

(* a 3-D view (n0, n1, n2) summed over its last axis: np.sum(as_strided(a, (n0, n1, n2), (k0, k1, k2)), 2), on NaN / 0
   masks (booleans, true = NaN): the sum is NaN iff one of the n2 terms is *)
Definition np_sum_strided3_nan (a : arr bool) (n0 n1 n2 : Z) (k0 k1 k2 : stride) : arr bool :=
  let ok_dims := (0 <=? n0) && (0 <=? n1) && (0 <=? n2) in
  let empty := (n0 =? 0) || (n1 =? 0) || (n2 =? 0) in
  let last_r := on_row k0 (n0 - 1) + on_row k1 (n1 - 1) + on_row k2 (n2 - 1) in
  let last_c := on_col k0 (n0 - 1) + on_col k1 (n1 - 1) + on_col k2 (n2 - 1) in
  MkArr (a_ok a && ok_dims && (empty || ((last_r <? a_nr a) && (last_c <? a_nc a)))) n0 n1
        (fun r c => existsb (fun i => a_at a (on_row k0 r + on_row k1 c + on_row k2 i)
                                             (on_col k0 r + on_col k1 c + on_col k2 i)) (zrange 0 n2)).

(* ------------------------------------------------------------------ loops *)

(* for k in range(n): st = body k st *)
Definition for_range {S : Type} (n : Z) (body : Z -> S -> S) (init : S) : S :=
  fold_left (fun st k => body k st) (zrange 0 n) init.

(* ------------------------------------------------------------------ rational rasters *)

(* a / float(d) *)
Definition np_div_scalar (a : arr Z) (d : Z) : arr Q :=
  MkArr (a_ok a && negb (d =? 0)) (a_nr a) (a_nc a) (fun r c => (inject_Z (a_at a r c) / inject_Z d)%Q).
Definition npq_sub : arr Q -> arr Q -> arr Q := np_zip Qminus.
Definition npq_sq : arr Q -> arr Q := np_map (fun x => (x * x)%Q).                   (* a ** 2 *)
Definition npq_abs : arr Q -> arr Q := np_map Qabs.
Definition npq_scale (k : Q) : arr Q -> arr Q := np_map (fun x => (k * x)%Q).        (* k * a *)
Definition qltb (x y : Q) : bool := negb (Qle_bool y x).
Definition npq_lt : arr Q -> arr Q -> arr bool := np_zip qltb.                       (* a < b *)
(* a[np.where(m)] = v  (also a[m] = v for a boolean m) *)
Definition np_set_where {A : Type} (m : arr bool) (v : A) (a : arr A) : arr A :=
  MkArr (a_ok a && a_ok m && same_shape a m) (a_nr a) (a_nc a) (fun r c => if a_at m r c then v else a_at a r c).

(* ------------------------------------------------------------------ masks *)

Definition np_ne_scalar (a : arr Z) (k : Z) : arr bool := np_map (fun x => negb (x =? k)) a.   (* a != k *)
Definition np_eq_scalar (a : arr Z) (k : Z) : arr bool := np_map (fun x => x =? k) a.          (* a == k *)
Definition np_and : arr bool -> arr bool -> arr bool := np_zip andb.                           (* a & b *)
(* np.zeros(shape) as a NaN / 0 mask: nowhere NaN *)
Definition np_zeros_mask (nr nc : Z) : arr bool := MkArr ((0 <=? nr) && (0 <=? nc)) nr nc (fun _ _ => false).

(* scipy.ndimage.binary_dilation(a, structure=np.ones((sr, sc)), iterations=it), default origin and border value 0:
   for it = 1 the output at (r, c) is set iff an input pixel INSIDE the array is set at (r - (i - sr//2),
   c - (j - sc//2)) for some (i, j) of the structure.  Modelled (validated by the correspondence), not verified;
   only it = 1 and odd sr, sc (a centred structure) are given a meaning. *)
Definition np_binary_dilation (a : arr bool) (sr sc it : Z) : arr bool :=
  MkArr (a_ok a && (0 <? sr) && (0 <? sc) && Z.odd sr && Z.odd sc && (it =? 1)) (a_nr a) (a_nc a)
        (fun r c => existsb (fun i => existsb (fun j =>
            let rr := r - (i - sr / 2) in let cc := c - (j - sc / 2) in
            (0 <=? rr) && (rr <? a_nr a) && (0 <=? cc) && (cc <? a_nc a) && a_at a rr cc)
            (zrange 0 sc)) (zrange 0 sr)).

(* ------------------------------------------------------------------ datasets *)

(* what masks_dilatation reads of an image dataset: the selected band (for the sizes), the optional msk variable,
   attrs["valid_pixels"] and attrs["no_data_mask"] *)
Record dataset : Type := MkDs { d_im : arr Z; d_msk : option (arr Z); d_valid_pixels : Z; d_no_data_mask : Z }.

(* an image dataset of ny x nx pixels: band im, optional mask m, attrs valid_pixels = vp, no_data_mask = nd *)
Definition ds_of (ny nx vp nd : Z) (im : img) (m : option img) : dataset :=
  MkDs (np_of ny nx im) (match m with Some x => Some (np_of ny nx x) | None => None end) vp nd.

(* ------------------------------------------------------------------ what a theorem says of an array *)

(* the array is valid (numpy raises nowhere while building it), has shape (nr, nc) and holds f at the non-negative
   indices *)
Definition is_arr {A : Type} (a : arr A) (nr nc : Z) (f : Z -> Z -> A) : Prop :=
  a_ok a = true /\ a_nr a = nr /\ a_nc a = nc /\ forall r c, 0 <= r -> 0 <= c -> a_at a r c = f r c.
