(* Semantics of the scalar Python/numba operations the refinement kernels use, over exact
   rationals with an explicit NaN (hand-written; the target language of
   translator/gen_refine_kernels.py, see Gen/RefineKernels.v).

   A Python float (or an int promoted to float) is [fl = option Q], NaN = [None].  Arithmetic is
   exact (float rounding is outside the model: DESIGN 2.1, bridging rule b) and propagates NaN;
   every comparison with NaN is False, except `!=`; `x / 0` raises ZeroDivisionError (numba's
   default error model "python"), which is the [None] of [fdiv]'s outer option; `int(NaN)` is
   undefined behaviour in compiled code, the [None] of [fint].  `min(a, b)` / `max(a, b)` are the
   Python builtins: b when b < a (resp. b > a), else a.

   Definitions only; the lemmas about them are in Proofs/RefineGenP.v. *)
From Coq Require Import ZArith QArith Qabs Bool.
Open Scope Q_scope.

Definition fl := option Q.

Definition fq (q : Q) : fl := Some q.
Definition fz (z : Z) : fl := Some (inject_Z z).       (* int -> float promotion *)
Definition fnan : fl := None.                          (* np.nan *)

Definition f2 (op : Q -> Q -> Q) (a b : fl) : fl :=
  match a, b with Some x, Some y => Some (op x y) | _, _ => None end.
Definition f1 (op : Q -> Q) (a : fl) : fl :=
  match a with Some x => Some (op x) | None => None end.

Definition fadd := f2 Qplus.
Definition fsub := f2 Qminus.
Definition fmul := f2 Qmult.
Definition fneg := f1 Qopp.
Definition fabs := f1 Qabs.
(* x ** n for a literal n >= 1 *)
Definition fpow (a : fl) (n : positive) : fl := f1 (fun x => Qpower_positive x n) a.

(* a / b : None = ZeroDivisionError *)
Definition fdiv (a b : fl) : option fl :=
  match b with
  | Some y => if Qeq_bool y 0 then None else Some (f1 (fun x => x / y) a)
  | None => Some None
  end.

Definition qltb (x y : Q) : bool := negb (Qle_bool y x).

Definition fcmp (t : Q -> Q -> bool) (a b : fl) : bool :=
  match a, b with Some x, Some y => t x y | _, _ => false end.
Definition flt := fcmp qltb.                                   (* a <  b *)
Definition fgt := fcmp (fun x y => qltb y x).                  (* a >  b *)
Definition fle := fcmp Qle_bool.                               (* a <= b *)
Definition fge := fcmp (fun x y => Qle_bool y x).              (* a >= b *)
Definition feq := fcmp Qeq_bool.                               (* a == b *)
Definition fne (a b : fl) : bool := negb (feq a b).            (* a != b : True on NaN *)

Definition fisnan (a : fl) : bool := match a with None => true | Some _ => false end.

Definition fmin (a b : fl) : fl := if flt b a then b else a.   (* min(a, b) *)
Definition fmax (a b : fl) : fl := if fgt b a then b else a.   (* max(a, b) *)

(* int(x): truncation toward zero; None = int(NaN) *)
Definition qtrunc (q : Q) : Z := Z.quot (Qnum q) (Zpos (Qden q)).
Definition fint (a : fl) : option Z := match a with Some x => Some (qtrunc x) | None => None end.

(* what a refinement_method returns: (sub_disp, sub_cost, valid) or ZeroDivisionError *)
Inductive fres := FRet (sub_disp sub_cost : fl) (valid : Z) | FRaise.
