(* Conversions between the function view of 2-D arrays used by the models and the lists of
   rows used at the extraction boundary.  Definitions only. *)
From Coq Require Import ZArith List.
Import ListNotations.
Open Scope Z_scope.

Definition zrange (n : Z) : list Z := map Z.of_nat (seq 0 (Z.to_nat n)).

Definition of_rows {A : Type} (d : A) (rows : list (list A)) : Z -> Z -> A :=
  fun r c => nth (Z.to_nat c) (nth (Z.to_nat r) rows []) d.

Definition to_rows {A : Type} (nr nc : Z) (f : Z -> Z -> A) : list (list A) :=
  map (fun r => map (fun c => f r c) (zrange nc)) (zrange nr).
