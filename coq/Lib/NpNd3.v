(* Additions to the numpy combinators of Lib/NpNd.v for the winner-takes-all code of Pandora
   (pandora/disparity/disparity.py WinnerTakesAll.to_disp / argmin_split / argmax_split,
   extract_disparity_interval_from_cost_volume), whose arrays are a rank-3 cost volume, rank-2 maps
   and a rank-1 disparity axis.  translator/gen_wta_fns.py maps the Python `ast` of those functions to
   Gallina terms over these combinators one construct at a time (coq/Gen/WtaFns.v, regenerated at every
   run) and knows nothing else; everything that is meaning is here:

     - a cost is [option ext] (Lib/Ext.v): None is NaN, Some PInf / Some MInf are np.inf / -np.inf;
     - a reduction along the LAST axis of a rank-3 array (np.min(axis=2) of booleans = "all",
       np.argmin / np.argmax(axis=2)): numpy refuses an empty reduction axis (ValueError), so does [err];
     - np.argmin / np.argmax give int64 positions ([Z] here: a disparity axis is shorter than 2^63);
       [np_astype_int bits] is the C cast to a narrower signed integer (two's complement wrap-around);
     - a[I] with an integer array I on a rank-1 array a ("fancy" lookup): the result has the shape of I,
       an index may be negative (counted from the end, once), anything outside [-n, n) is an IndexError;
     - np.nan_to_num(x, copy=False, nan=v) ALSO rewrites +inf / -inf to the largest / smallest finite
       float32 (the dtype of Pandora's cost volumes) when posinf / neginf are not given.

   Definitions only (lemmas: Proofs/NpNd3P.v). *)
From Coq Require Import ZArith QArith List Bool.
From Pandora Require Import Lib.Arr Lib.Ext Lib.NpNd.
Import ListNotations.
Open Scope Z_scope.

(* np.isnan of an array whose elements are optional (NaN = None) *)
Definition np_isnan_o {A : Type} (X : nd (option A)) : nd bool := np_map o_none X.

(* np.zeros((n, m), dtype=float) *)
Definition np_zeros2 (n m : Z) : nd oq := mkNd ((n <? 0) || (m <? 0)) [n; m] (fun _ => Some 0%Q).

(* a rank-1 array given by a Python list literal of integers *)
Definition nd1_z (l : list Z) : nd Z :=
  mkNd false [Z.of_nat (length l)] (fun idx => match idx with [i] => nth (Z.to_nat i) l 0 | _ => 0 end).

(* ---------------------------------------------------------------- reductions along axis 2 of a rank-3 array *)
(* the values X[i, j, :] in order *)
Definition axis2_list {A : Type} (X : nd A) (n2 i j : Z) : list A := map (fun k => elt X [i; j; k]) (zrange n2).

Definition np_reduce_2 {A B : Type} (f : list A -> B) (X : nd A) : nd B :=
  match shp X with
  | [n0; n1; n2] =>
      mkNd (err X || (n2 <=? 0)) [n0; n1]
           (fun idx => match idx with [i; j] => f (axis2_list X n2 i j) | _ => f [] end)
  | _ => mkNd true [] (fun _ => f [])
  end.

(* np.min(M, axis=2) of a boolean array: True iff every element is True *)
Definition np_min_bool_2 : nd bool -> nd bool := np_reduce_2 (forallb (fun b : bool => b)).

(* np.argmin / np.argmax along a list of costs: the position of the first NaN when there is one (NaN
   propagates through the comparisons of numpy's reduction), else the first position of the extremum *)
Fixpoint first_nan (l : list cost) (i : nat) : option nat :=
  match l with
  | [] => None
  | None :: _ => Some i
  | Some _ :: r => first_nan r (S i)
  end.
Definition ext_of (c : cost) : ext := match c with Some e => e | None => PInf end.
Fixpoint arg_scan (better : ext -> ext -> bool) (l : list ext) (i besti : nat) (bestv : ext) : nat :=
  match l with
  | [] => besti
  | x :: r => if better x bestv then arg_scan better r (S i) i x else arg_scan better r (S i) besti bestv
  end.
Definition arg_first (better : ext -> ext -> bool) (l : list ext) : nat :=
  match l with [] => O | x :: r => arg_scan better r 1 0 x end.
Definition arg_cost (better : ext -> ext -> bool) (l : list cost) : Z :=
  match first_nan l 0 with
  | Some i => Z.of_nat i
  | None => Z.of_nat (arg_first better (map ext_of l))
  end.
Definition lt_ext (x b : ext) : bool := negb (ext_leb b x).   (* x < b *)
Definition gt_ext (x b : ext) : bool := negb (ext_leb x b).   (* x > b *)
Definition np_argmin_2 : nd cost -> nd Z := np_reduce_2 (arg_cost lt_ext).
Definition np_argmax_2 : nd cost -> nd Z := np_reduce_2 (arg_cost gt_ext).

(* ---------------------------------------------------------------- integer casts *)
(* the value of z after a C cast to a signed integer of [bits] bits *)
Definition wrap_int (bits z : Z) : Z := (z + 2 ^ (bits - 1)) mod 2 ^ bits - 2 ^ (bits - 1).
Definition np_astype_int (bits : Z) (I : nd Z) : nd Z := np_map (wrap_int bits) I.

(* ---------------------------------------------------------------- lookup a[I] on a rank-1 array *)
(* every index of an array of shape s, in C order *)
Fixpoint all_idx (s : list Z) : list (list Z) :=
  match s with
  | [] => [[]]
  | n :: t => flat_map (fun i => map (cons i) (all_idx t)) (zrange n)
  end.
Definition idx_bad (n i : Z) : bool := negb ((- n <=? i) && (i <? n)).
Definition idx_wrap (n i : Z) : Z := if i <? 0 then i + n else i.
Definition np_take {A : Type} (D : nd A) (I : nd Z) : nd A :=
  match shp D with
  | [n] => mkNd (err D || err I || existsb (fun idx => idx_bad n (elt I idx)) (all_idx (shp I))) (shp I)
                (fun idx => elt D [idx_wrap n (elt I idx)])
  | _ => mkNd true [] (fun _ => elt D [])
  end.

(* ---------------------------------------------------------------- np.nan_to_num(x, copy=False, nan=v) on a float32 volume *)
Definition f32_max : Q := inject_Z ((2 ^ 24 - 1) * 2 ^ 104).
Definition nan_to_num_c (v : cost) (c : cost) : cost :=
  match c with
  | None => v
  | Some PInf => Some (Fin f32_max)
  | Some MInf => Some (Fin (- f32_max))
  | Some (Fin q) => Some (Fin q)
  end.
Definition np_nan_to_num (X : nd cost) (v : cost) : nd cost := np_map (nan_to_num_c v) X.
