(* A small imperative IR for the numba kernels of Pandora that are plain Python loops over
   scalars and array cells (pandora/aggregation/cbca.py: cbca_step_1..4, cross_support), and
   its evaluator.  The translator (translator/gen_cbca_kernels.py) maps the Python `ast` of a
   kernel to a [kernel] one construct at a time and knows nothing else; everything that is
   *meaning* is here, written once:

     - numpy / numba indexing: a negative index wraps around once ([norm_idx]); any index
       that is still outside its axis is an ERROR of the evaluation (numba does not check
       bounds: such a read is undefined behaviour, so "the evaluation succeeds" is the
       in-range side condition of every load and store of the kernel);
     - Python `range(start, stop, step)` ([py_range]), `for` with `break`, the loop variable
       keeping its last value after the loop and its previous value when the range is empty;
     - basic slices `a[lo:hi, j]` with Python's clamping of the bounds ([slice_bound]);
     - IEEE specials: a float is a rational, +inf, -inf or NaN ([fl]); comparisons with NaN
       are false, inf - inf = NaN, ...; integers are unbounded (the widths i2 / i4 / i8 / f4 / f8
       of the dtypes are recorded in the tree but do not change the evaluation);
     - numeric promotion: int op int is an int, anything else is a float.

   Variables are numbers: scalar parameters then scalar locals in order of first assignment,
   array parameters then local arrays likewise, so that renaming a local does not change
   the tree.  Definitions only. *)
From Coq Require Import ZArith QArith Qabs List Bool.
Import ListNotations.
Open Scope Z_scope.

(* ---------------------------------------------------------------- values *)

Inductive fl := Fin (q : Q) | PInf | MInf | NaN.
Inductive val := VInt (z : Z) | VFlt (f : fl).

Definition bz (b : bool) : Z := if b then 1 else 0.
Definition to_fl (v : val) : fl := match v with VInt z => Fin (inject_Z z) | VFlt f => f end.

Definition fneg (a : fl) : fl :=
  match a with Fin x => Fin (Qred (- x)) | PInf => MInf | MInf => PInf | NaN => NaN end.
Definition fadd (a b : fl) : fl :=
  match a, b with
  | NaN, _ => NaN
  | _, NaN => NaN
  | Fin x, Fin y => Fin (Qred (x + y))
  | PInf, MInf => NaN
  | MInf, PInf => NaN
  | PInf, _ => PInf
  | _, PInf => PInf
  | MInf, _ => MInf
  | _, MInf => MInf
  end.
Definition fsub (a b : fl) : fl :=
  match a, b with
  | Fin x, Fin y => Fin (Qred (x - y))
  | _, _ => fadd a (fneg b)
  end.
Definition fabs (a : fl) : fl :=
  match a with Fin x => Fin (Qabs x) | PInf => PInf | MInf => PInf | NaN => NaN end.
(* a <= b, a < b, a == b ; false as soon as a NaN is involved *)
Definition fle (a b : fl) : bool :=
  match a, b with
  | NaN, _ => false
  | _, NaN => false
  | Fin x, Fin y => Qle_bool x y
  | MInf, _ => true
  | _, PInf => true
  | _, _ => false
  end.
Definition flt (a b : fl) : bool :=
  match a, b with
  | NaN, _ => false
  | _, NaN => false
  | Fin x, Fin y => negb (Qle_bool y x)
  | PInf, _ => false
  | _, MInf => false
  | _, _ => true
  end.
Definition feq (a b : fl) : bool :=
  match a, b with
  | Fin x, Fin y => Qeq_bool x y
  | PInf, PInf => true
  | MInf, MInf => true
  | _, _ => false
  end.

Inductive binop := BAdd | BSub | BMul | BMin | BMax | BGe | BGt | BLe | BLt | BEq | BNe.
Inductive unop := UAbs | UNot | UNeg | UIsNan | UIsFinite.

Definition vbin (o : binop) (a b : val) : option val :=
  match a, b with
  | VInt x, VInt y =>
      Some (VInt (match o with
                  | BAdd => x + y | BSub => x - y | BMul => x * y
                  | BMin => Z.min x y | BMax => Z.max x y
                  | BGe => bz (y <=? x) | BGt => bz (y <? x) | BLe => bz (x <=? y) | BLt => bz (x <? y)
                  | BEq => bz (x =? y) | BNe => bz (negb (x =? y))
                  end))
  | _, _ =>
      let x := to_fl a in
      let y := to_fl b in
      match o with
      | BAdd => Some (VFlt (fadd x y))
      | BSub => Some (VFlt (fsub x y))
      | BMul | BMin | BMax => None                 (* not used on floats by the kernels *)
      | BGe => Some (VInt (bz (fle y x)))
      | BGt => Some (VInt (bz (flt y x)))
      | BLe => Some (VInt (bz (fle x y)))
      | BLt => Some (VInt (bz (flt x y)))
      | BEq => Some (VInt (bz (feq x y)))
      | BNe => Some (VInt (bz (negb (feq x y))))
      end
  end.

Definition vun (o : unop) (a : val) : option val :=
  match a with
  | VInt z =>
      match o with
      | UAbs => Some (VInt (Z.abs z))
      | UNot => Some (VInt (bz (z =? 0)))
      | UNeg => Some (VInt (- z))
      | UIsNan => Some (VInt 0)
      | UIsFinite => Some (VInt 1)
      end
  | VFlt f =>
      match o with
      | UAbs => Some (VFlt (fabs f))
      | UNot => None
      | UNeg => Some (VFlt (fneg f))
      | UIsNan => Some (VInt (match f with NaN => 1 | _ => 0 end))
      | UIsFinite => Some (VInt (match f with Fin _ => 1 | _ => 0 end))
      end
  end.

(* ---------------------------------------------------------------- arrays *)

Record arr := mkArr { ashape : list Z; adata : list Z -> val }.

(* numpy / numba: a negative index wraps around once; then it must be inside the axis *)
Definition norm_idx (n i : Z) : option Z :=
  let j := if i <? 0 then i + n else i in
  if (0 <=? j) && (j <? n) then Some j else None.
Fixpoint norm_idxs (sh idx : list Z) : option (list Z) :=
  match sh, idx with
  | [], [] => Some []
  | n :: sh', i :: idx' =>
      match norm_idx n i, norm_idxs sh' idx' with
      | Some j, Some js => Some (j :: js)
      | _, _ => None
      end
  | _, _ => None
  end.
Fixpoint idx_eqb (a b : list Z) : bool :=
  match a, b with
  | [], [] => true
  | x :: a', y :: b' => (x =? y) && idx_eqb a' b'
  | _, _ => false
  end.

Definition aread (A : arr) (idx : list Z) : option val :=
  match norm_idxs (ashape A) idx with
  | Some js => Some (adata A js)
  | None => None
  end.
Definition aupd (A : arr) (js : list Z) (v : val) : arr :=
  mkArr (ashape A) (fun k => if idx_eqb k js then v else adata A k).
Definition awrite (A : arr) (idx : list Z) (v : val) : option arr :=
  match norm_idxs (ashape A) idx with
  | Some js => Some (aupd A js v)
  | None => None
  end.

Definition irange (a n : Z) : list Z := map (fun k => a + Z.of_nat k) (seq 0 (Z.to_nat n)).

(* bound of a basic slice on an axis of length n (step 1) *)
Definition slice_bound (n i : Z) : Z := if i <? 0 then Z.max (i + n) 0 else Z.min i n.
(* np.sum(A[lo:hi, j]) for a 2-D array *)
Definition asum_slice (A : arr) (lo hi j : Z) : option val :=
  match ashape A with
  | [n0; n1] =>
      match norm_idx n1 j with
      | Some j' =>
          let l := slice_bound n0 lo in
          let h := slice_bound n0 hi in
          Some (VFlt (fold_left (fun acc k => fadd acc (to_fl (adata A [k; j']))) (irange l (h - l)) (Fin 0)))
      | None => None
      end
  | _ => None
  end.

(* range(a, b, s), s <> 0 *)
Definition py_range (a b s : Z) : list Z :=
  let n := if 0 <? s then (b - a + s - 1) / s else (a - b + (- s) - 1) / (- s) in
  map (fun k => a + s * Z.of_nat k) (seq 0 (Z.to_nat n)).

(* ---------------------------------------------------------------- syntax *)

Inductive dtype := F64 | F32 | I16 | I32 | I64.
Definition dzero (d : dtype) : val :=
  match d with F64 | F32 => VFlt (Fin 0) | I16 | I32 | I64 => VInt 0 end.

Inductive expr :=
| EInt (z : Z)
| EVar (x : nat)                            (* scalar parameter or local *)
| EShape (a : nat) (k : nat)                (* a.shape[k] *)
| ELoad1 (a : nat) (i : expr)               (* a[i] *)
| ELoad2 (a : nat) (i j : expr)             (* a[i, j] *)
| ELoad3 (a : nat) (i j k : expr)           (* a[i, j, k] *)
| EUn (o : unop) (e : expr)
| EBin (o : binop) (e1 e2 : expr)
| ESumSlice (a : nat) (lo hi j : expr).     (* np.sum(a[lo:hi, j]) *)

Inductive stmt :=
| SAssign (x : nat) (e : expr)                       (* x = e *)
| SAlloc (a : nat) (shape : list expr) (d : dtype)   (* a = np.zeros(shape, dtype=d) *)
| SCopy (a b : nat)                                  (* a = np.copy(b) *)
| SRowCopy (a : nat) (i : expr) (b : nat) (j : expr) (* a[i, :] = b[j, :] *)
| SStore2 (a : nat) (i j : expr) (e : expr)          (* a[i, j] = e *)
| SStore3 (a : nat) (i j k : expr) (e : expr)        (* a[i, j, k] = e *)
| SAug2 (a : nat) (i j : expr) (e : expr)            (* a[i, j] += e *)
| SIf (c : expr) (th el : list stmt)
| SFor (x : nat) (start stop step : expr) (body : list stmt)   (* for x in range(start, stop, step) *)
| SBreak.

(* k_sig: the numba signature of the decorator (dtype and rank of each parameter, rank 0 = scalar);
   k_nsc / k_nar: number of scalar / array variables (parameters included); k_ret: the returned arrays *)
Record kernel := mkKernel { k_sig : list (dtype * nat); k_nsc : nat; k_nar : nat;
                            k_body : list stmt; k_ret : list nat }.

(* ---------------------------------------------------------------- evaluation *)

(* scalars and arrays are numbered; a slot is [None] until the variable is assigned *)
Record state := mkSt { sv : list (option val); sa : list (option arr) }.
Fixpoint set_nth {A : Type} (k : nat) (v : A) (l : list (option A)) : list (option A) :=
  match k, l with
  | O, [] => [Some v]
  | O, _ :: t => Some v :: t
  | S k', [] => None :: set_nth k' v []
  | S k', x :: t => x :: set_nth k' v t
  end.
Definition get_nth {A : Type} (l : list (option A)) (k : nat) : option A :=
  match nth_error l k with Some (Some v) => Some v | _ => None end.
Definition getv (st : state) (x : nat) : option val := get_nth (sv st) x.
Definition geta (st : state) (a : nat) : option arr := get_nth (sa st) a.
Definition setv (x : nat) (v : val) (st : state) : state := mkSt (set_nth x v (sv st)) (sa st).
Definition seta (a : nat) (A : arr) (st : state) : state := mkSt (sv st) (set_nth a A (sa st)).

Definition as_int (o : option val) : option Z :=
  match o with Some (VInt z) => Some z | _ => None end.

Fixpoint eval (st : state) (e : expr) : option val :=
  match e with
  | EInt z => Some (VInt z)
  | EVar x => getv st x
  | EShape a k =>
      match geta st a with
      | Some A => match nth_error (ashape A) k with Some n => Some (VInt n) | None => None end
      | None => None
      end
  | ELoad1 a i =>
      match geta st a, as_int (eval st i) with
      | Some A, Some i' => aread A [i']
      | _, _ => None
      end
  | ELoad2 a i j =>
      match geta st a, as_int (eval st i), as_int (eval st j) with
      | Some A, Some i', Some j' => aread A [i'; j']
      | _, _, _ => None
      end
  | ELoad3 a i j k =>
      match geta st a, as_int (eval st i), as_int (eval st j), as_int (eval st k) with
      | Some A, Some i', Some j', Some k' => aread A [i'; j'; k']
      | _, _, _, _ => None
      end
  | EUn o e1 => match eval st e1 with Some v => vun o v | None => None end
  | EBin o e1 e2 =>
      match eval st e1, eval st e2 with
      | Some v1, Some v2 => vbin o v1 v2
      | _, _ => None
      end
  | ESumSlice a lo hi j =>
      match geta st a, as_int (eval st lo), as_int (eval st hi), as_int (eval st j) with
      | Some A, Some l, Some h, Some j' => asum_slice A l h j'
      | _, _, _, _ => None
      end
  end.

Fixpoint eval_ints (st : state) (es : list expr) : option (list Z) :=
  match es with
  | [] => Some []
  | e :: es' =>
      match as_int (eval st e), eval_ints st es' with
      | Some z, Some zs => Some (z :: zs)
      | _, _ => None
      end
  end.

Inductive res := ROk (st : state) | RBrk (st : state) | RErr.

(* a block: statements in sequence; `break` leaves the block (and the enclosing blocks up to
   the innermost loop) *)
Definition blockF (ex : stmt -> state -> res) : list stmt -> state -> res :=
  fix blk (l : list stmt) (st : state) : res :=
    match l with
    | [] => ROk st
    | s :: l' => match ex s st with
                 | ROk st' => blk l' st'
                 | r => r
                 end
    end.

(* for x in its: body *)
Fixpoint loop (body : state -> res) (x : nat) (its : list Z) (st : state) : res :=
  match its with
  | [] => ROk st
  | i :: rest =>
      match body (setv x (VInt i) st) with
      | ROk st' => loop body x rest st'
      | RBrk st' => ROk st'
      | RErr => RErr
      end
  end.

Definition store (a : nat) (idx : list expr) (rhs : arr -> list Z -> option val) (st : state) : res :=
  match geta st a, eval_ints st idx with
  | Some A, Some zs =>
      match rhs A zs with
      | Some v => match awrite A zs v with
                  | Some A' => ROk (seta a A' st)
                  | None => RErr
                  end
      | None => RErr
      end
  | _, _ => RErr
  end.

Definition row_copy (A B : arr) (i j : Z) : option arr :=
  match ashape A, ashape B with
  | [n0; n1], [m0; m1] =>
      if n1 =? m1 then
        match norm_idx n0 i, norm_idx m0 j with
        | Some i', Some j' =>
            Some (mkArr (ashape A)
                        (fun k => match k with
                                  | [r; c] => if r =? i' then adata B [j'; c] else adata A k
                                  | _ => adata A k
                                  end))
        | _, _ => None
        end
      else None
  | _, _ => None
  end.

Fixpoint exec (s : stmt) (st : state) {struct s} : res :=
  match s with
  | SAssign x e => match eval st e with Some v => ROk (setv x v st) | None => RErr end
  | SAlloc a shape d =>
      match eval_ints st shape with
      | Some sh => if forallb (fun n => 0 <=? n) sh
                   then ROk (seta a (mkArr sh (fun _ => dzero d)) st) else RErr
      | None => RErr
      end
  | SCopy a b => match geta st b with Some B => ROk (seta a B st) | None => RErr end
  | SRowCopy a i b j =>
      match geta st a, geta st b, as_int (eval st i), as_int (eval st j) with
      | Some A, Some B, Some i', Some j' =>
          match row_copy A B i' j' with Some A' => ROk (seta a A' st) | None => RErr end
      | _, _, _, _ => RErr
      end
  | SStore2 a i j e => store a [i; j] (fun _ _ => eval st e) st
  | SStore3 a i j k e => store a [i; j; k] (fun _ _ => eval st e) st
  | SAug2 a i j e =>
      store a [i; j] (fun A zs => match aread A zs, eval st e with
                                  | Some v0, Some v => vbin BAdd v0 v
                                  | _, _ => None
                                  end) st
  | SIf c th el =>
      match as_int (eval st c) with
      | Some z => if z =? 0 then blockF exec el st else blockF exec th st
      | None => RErr
      end
  | SFor x a b c body =>
      match as_int (eval st a), as_int (eval st b), as_int (eval st c) with
      | Some a', Some b', Some c' =>
          if c' =? 0 then RErr else loop (blockF exec body) x (py_range a' b' c') st
      | _, _, _ => RErr
      end
  | SBreak => RBrk st
  end.

Definition exec_block : list stmt -> state -> res := blockF exec.

Fixpoint collect {A : Type} (l : list (option A)) : option (list A) :=
  match l with
  | [] => Some []
  | Some x :: l' => match collect l' with Some xs => Some (x :: xs) | None => None end
  | None :: _ => None
  end.

(* scalars / arrays: the actual parameters, in the order of the Python signature *)
Definition init_state (k : kernel) (scalars : list val) (arrays : list arr) : state :=
  mkSt (map Some scalars ++ repeat None (k_nsc k - length scalars))
       (map Some arrays ++ repeat None (k_nar k - length arrays)).
Definition run_kernel (k : kernel) (scalars : list val) (arrays : list arr) : option (list arr) :=
  match exec_block (k_body k) (init_state k scalars arrays) with
  | ROk st => collect (map (geta st) (k_ret k))
  | _ => None
  end.
