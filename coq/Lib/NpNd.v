(* The numpy array operations that the vectorised filter code of Pandora is written with
   (pandora/filter/bilateral.py bilateral_kernel / gauss_spatial_kernel / filter_bilateral,
   pandora/filter/median.py median_filter / filter_disparity, median_for_intervals.py), and their
   MEANING, written once.  translator/gen_filter_kernels.py maps the Python `ast` of those
   functions to Gallina terms over these combinators one construct at a time and knows nothing
   else (coq/Gen/FilterKernels.v, regenerated at every run); everything that is meaning is here:

     - an n-d array is a shape and a total function of the index list; [err] is raised by an
       operation numpy would refuse (operands that cannot be broadcast together, an index outside
       its axis, a boolean mask of another shape, a negative dimension): "err = false" is the
       in-range / well-shaped side condition of the theorems about the generated code;
     - BROADCASTING (np_binop): shapes are aligned on their trailing axes, two extents must be
       equal or one of them 1, an axis of extent 1 is read at index 0;
     - np.transpose without axes reverses the axes; basic indexing a[:, :, k, l] drops the indexed
       axes, a negative index wraps around once;
     - float elements are [option Q]: None is NaN (a disparity map holds no +-inf: assumption of
       the check); NaN propagates through - * /; x / 0 is NaN here (numpy: NaN for 0 / 0, +-inf
       otherwise -- outside the domain, every theorem proves the divisor non-zero);
     - np.nansum(axis=(2, 3)) of a 4-d array: NaN counts for 0, an all-NaN slice sums to 0;
     - boolean-mask assignment a[m] = v / a[m] = b[m] / a[m] |= c, np.where(c) as an index.

   Definitions only (lemmas: Proofs/NpNdP.v). *)
From Coq Require Import ZArith QArith List Bool.
From Pandora Require Import Lib.Arr.
Import ListNotations.
Open Scope Z_scope.

Record nd (A : Type) : Type := mkNd { err : bool; shp : list Z; elt : list Z -> A }.
Arguments mkNd {A}. Arguments err {A}. Arguments shp {A}. Arguments elt {A}.

Definition oq : Type := option Q.

(* ---------------------------------------------------------------- elements *)
Definition o_none {A : Type} (o : option A) : bool := match o with None => true | Some _ => false end.
Definition o_some {A : Type} (o : option A) : bool := match o with None => false | Some _ => true end.

Definition f_sub (a b : oq) : oq := match a, b with Some x, Some y => Some (x - y)%Q | _, _ => None end.
Definition f_mul (a b : oq) : oq := match a, b with Some x, Some y => Some (x * y)%Q | _, _ => None end.
Definition f_div (a b : oq) : oq :=
  match a, b with
  | Some x, Some y => if Qeq_bool y 0 then None else Some (x / y)%Q
  | _, _ => None
  end.
(* an elementwise real function (the normalized Gaussian): NaN stays NaN *)
Definition f_map (g : Q -> Q) (a : oq) : oq := match a with Some x => Some (g x) | None => None end.

(* exact rational addition on the least common denominator (equal to Qplus as a rational, lemma
   [q_add_correct]; keeps the numbers of the executable code small) *)
Definition q_add (x y : Q) : Q :=
  let '(g, (bb, dd)) := Z.ggcd (Zpos (Qden x)) (Zpos (Qden y)) in
  Qmake (Qnum x * dd + Qnum y * bb) (Z.to_pos (Zpos (Qden x) * dd)).
(* np.nansum of a list: NaN counts for 0 *)
Definition nansum_q (l : list oq) : Q :=
  fold_right (fun o acc => match o with Some x => q_add x acc | None => acc end) 0%Q l.
Definition nansum_list (l : list oq) : oq := Some (nansum_q l).

(* ---------------------------------------------------------------- python scalars *)
(* int(q) of a float: truncation toward zero *)
Definition py_int_q (q : Q) : Z := Z.quot (Qnum q) (Zpos (Qden q)).
(* int(a / b) of two integers (true division, then truncation) *)
Definition py_int_div (a b : Z) : Z := Z.quot a b.

(* ---------------------------------------------------------------- shapes *)
Fixpoint shape_eqb (a b : list Z) : bool :=
  match a, b with
  | [], [] => true
  | x :: a', y :: b' => (x =? y) && shape_eqb a' b'
  | _, _ => false
  end.

Definition np_shape {A : Type} (X : nd A) (k : nat) : Z := nth k (shp X) 0.

(* broadcasting, on REVERSED shapes / indices (trailing axes first) *)
Fixpoint bshape_r (a b : list Z) : option (list Z) :=
  match a, b with
  | [], _ => Some b
  | _, [] => Some a
  | x :: a', y :: b' =>
      match bshape_r a' b' with
      | None => None
      | Some t => if x =? y then Some (x :: t)
                  else if x =? 1 then Some (y :: t)
                  else if y =? 1 then Some (x :: t) else None
      end
  end.
Fixpoint bidx_r (s idx : list Z) : list Z :=
  match s, idx with
  | x :: s', i :: idx' => (if x =? 1 then 0 else i) :: bidx_r s' idx'
  | _, _ => []
  end.
(* the element of X that takes part in element [idx] of a broadcast result *)
Definition bget {A : Type} (X : nd A) (idx : list Z) : A :=
  elt X (rev (bidx_r (rev (shp X)) (rev idx))).

Definition np_binop {A B C : Type} (f : A -> B -> C) (X : nd A) (Y : nd B) : nd C :=
  match bshape_r (rev (shp X)) (rev (shp Y)) with
  | Some s => mkNd (err X || err Y) (rev s) (fun idx => f (bget X idx) (bget Y idx))
  | None => mkNd true [] (fun idx => f (bget X idx) (bget Y idx))
  end.

Definition np_subtract : nd oq -> nd oq -> nd oq := np_binop f_sub.
Definition np_multiply : nd oq -> nd oq -> nd oq := np_binop f_mul.
Definition np_divide : nd oq -> nd oq -> nd oq := np_binop f_div.

Definition np_map {A B : Type} (f : A -> B) (X : nd A) : nd B :=
  mkNd (err X) (shp X) (fun idx => f (elt X idx)).

(* self.normalized_gaussian(X, sigma): elementwise; [g] = the Gaussian of that sigma (data) *)
Definition np_gauss (g : Q -> Q) (X : nd oq) : nd oq := np_map (f_map g) X.

Definition np_copy {A : Type} (X : nd A) : nd A := X.
Definition np_isnan (X : nd oq) : nd bool := np_map o_none X.
Definition np_isfinite (X : nd oq) : nd bool := np_map o_some X.
(* (X & c) != 0 *)
Definition np_and_ne0 (X : nd Z) (c : Z) : nd bool := np_map (fun m => negb (Z.land m c =? 0)) X.
(* np.where(C) with one argument: the positions where C holds, used as an index *)
Definition np_where (C : nd bool) : nd bool := C.

Definition np_transpose {A : Type} (X : nd A) : nd A :=
  mkNd (err X) (rev (shp X)) (fun idx => elt X (rev idx)).

(* basic indexing with full slices and integers: a[:, :, k, l] *)
Inductive sl : Type := SlAll | SlIdx (i : Z).
Fixpoint gi_shape (s : list Z) (k : list sl) : list Z :=
  match s, k with
  | n :: s', SlAll :: k' => n :: gi_shape s' k'
  | _ :: s', SlIdx _ :: k' => gi_shape s' k'
  | s, [] => s
  | [], _ :: _ => []
  end.
Fixpoint gi_err (s : list Z) (k : list sl) : bool :=
  match s, k with
  | _ :: s', SlAll :: k' => gi_err s' k'
  | n :: s', SlIdx i :: k' => negb ((- n <=? i) && (i <? n)) || gi_err s' k'
  | _, [] => false
  | [], _ :: _ => true                     (* too many indices *)
  end.
Fixpoint gi_idx (s : list Z) (k : list sl) (idx : list Z) : list Z :=
  match s, k with
  | _ :: s', SlAll :: k' =>
      match idx with i :: idx' => i :: gi_idx s' k' idx' | [] => [] end
  | n :: s', SlIdx i :: k' => (if i <? 0 then i + n else i) :: gi_idx s' k' idx
  | _, [] => idx
  | [], _ :: _ => []
  end.
Definition np_getitem {A : Type} (X : nd A) (k : list sl) : nd A :=
  mkNd (err X || gi_err (shp X) k) (gi_shape (shp X) k) (fun idx => elt X (gi_idx (shp X) k idx)).

(* a reduction over axes (2, 3) of a 4-d array: the slice X[i, j, :, :] row-major *)
Definition np_reduce_23 {A B : Type} (f : list A -> B) (X : nd A) : nd B :=
  match shp X with
  | [n0; n1; n2; n3] =>
      mkNd (err X) [n0; n1]
           (fun idx => match idx with
                       | [i; j] => f (flat_map (fun a => map (fun b => elt X [i; j; a; b]) (zrange n3)) (zrange n2))
                       | _ => f []
                       end)
  | _ => mkNd true [] (fun _ => f [])
  end.
Definition np_nansum_23 : nd oq -> nd oq := np_reduce_23 nansum_list.

(* pandora.common.sliding_window(X, (w0, w1)): the as_strided VIEW of all w0 x w1 windows *)
Definition np_sliding_window {A : Type} (X : nd A) (w0 w1 : Z) : nd A :=
  match shp X with
  | [h; w] =>
      mkNd (err X || (h - w0 + 1 <? 0) || (w - w1 + 1 <? 0)) [h - w0 + 1; w - w1 + 1; w0; w1]
           (fun idx => match idx with
                       | [i; j; a; b] => elt X [i + a; j + b]
                       | _ => elt X []
                       end)
  | _ => mkNd true [] (elt X)
  end.

(* np.lib.stride_tricks.as_strided(X, shape=, strides=) of a C-CONTIGUOUS array X (np.copy and
   .copy(deep=True).data are): element [idx] of the view is the element of X at memory offset
   sum idx_k * strides_k.  Strides are counted in ELEMENTS here (numpy counts bytes on both sides,
   X.strides and the strides= argument: the item size cancels).  A negative dimension is an error;
   a read outside the memory of X is undefined behaviour in numpy -- the lemma about the generated
   sliding_window proves every offset of the view inside it. *)
Fixpoint c_strides (s : list Z) : list Z :=
  match s with
  | [] => []
  | _ :: t => fold_right Z.mul 1 t :: c_strides t
  end.
Definition np_strides {A : Type} (X : nd A) : list Z := c_strides (shp X).
Fixpoint dot (a b : list Z) : Z :=
  match a, b with
  | x :: a', y :: b' => x * y + dot a' b'
  | _, _ => 0
  end.
Fixpoint unravel (s : list Z) (off : Z) : list Z :=
  match s with
  | [] => []
  | _ :: t => let p := fold_right Z.mul 1 t in off / p :: unravel t (off mod p)
  end.
Definition np_as_strided {A : Type} (X : nd A) (shape strides : list Z) : nd A :=
  mkNd (err X || negb (Nat.eqb (length shape) (length strides)) || existsb (fun n => n <? 0) shape) shape
       (fun idx => elt X (unravel (shp X) (dot idx strides))).

(* X[y0:y1, x0:x1] of an array of rank >= 2 (0 <= y0 <= y1 <= extent, the same for x) *)
Definition np_slice01 {A : Type} (X : nd A) (y0 y1 x0 x1 : Z) : nd A :=
  match shp X with
  | _ :: _ :: rest =>
      mkNd (err X) (y1 - y0 :: x1 - x0 :: rest)
           (fun idx => match idx with
                       | i :: j :: r => elt X (y0 + i :: x0 + j :: r)
                       | _ => elt X idx
                       end)
  | _ => mkNd true [] (elt X)
  end.

(* boolean-mask assignments (the mask has the shape of the array, IndexError otherwise) *)
Definition np_setitem_mask {A : Type} (X : nd A) (M : nd bool) (v : A) : nd A :=
  mkNd (err X || err M || negb (shape_eqb (shp X) (shp M))) (shp X)
       (fun idx => if elt M idx then v else elt X idx).
(* X[M] = Y[M] *)
Definition np_setitem_mask_from {A : Type} (X : nd A) (M : nd bool) (Y : nd A) : nd A :=
  mkNd (err X || err M || err Y || negb (shape_eqb (shp X) (shp M)) || negb (shape_eqb (shp Y) (shp M))) (shp X)
       (fun idx => if elt M idx then elt Y idx else elt X idx).
(* X[M] |= c *)
Definition np_setitem_mask_or (X : nd Z) (M : nd bool) (c : Z) : nd Z :=
  mkNd (err X || err M || negb (shape_eqb (shp X) (shp M))) (shp X)
       (fun idx => if elt M idx then Z.lor (elt X idx) c else elt X idx).

(* np.zeros((n, m)) filled by `for [i, j], val in np.ndenumerate(arr): arr[i, j] = f(i, j)` *)
Definition np_tab2 {A : Type} (n m : Z) (f : Z -> Z -> A) : nd A :=
  mkNd ((n <? 0) || (m <? 0)) [n; m]
       (fun idx => match idx with [i; j] => f i j | _ => f 0 0 end).

(* 2-d arrays as the total functions of the models *)
Definition nd2 {A : Type} (ny nx : Z) (f : Z -> Z -> A) : nd A :=
  mkNd false [ny; nx] (fun idx => match idx with [r; c] => f r c | _ => f 0 0 end).
Definition fun2 {A : Type} (X : nd A) : Z -> Z -> A := fun r c => elt X [r; c].
