(* Extended costs: a cost is NaN ([None]) or an extended rational.  The infinities are
   needed because WinnerTakesAll.to_disp temporarily replaces NaN by +inf / -inf and
   because a cost volume may already contain infinities (DESIGN 2.1). *)
From Coq Require Import QArith Bool.

Inductive ext : Type := Fin (q : Q) | PInf | MInf.
Definition cost : Type := option ext.

(* the order of IEEE comparisons on non-NaN values *)
Definition ext_leb (a b : ext) : bool :=
  match a, b with
  | MInf, _ => true
  | _, PInf => true
  | Fin x, Fin y => Qle_bool x y
  | _, _ => false
  end.

(* [le_dir mx a b]: a is at least as good as b (smaller for min-type measures, larger
   for max-type / similarity measures) *)
Definition le_dir (mx : bool) (a b : ext) : bool := if mx then ext_leb b a else ext_leb a b.

Definition is_nan (c : cost) : bool := match c with None => true | Some _ => false end.
