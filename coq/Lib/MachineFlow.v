(* The CONTROL FLOW of the sequencing layer of Pandora, as data.

     pandora/state_machine.py  PandoraMachine.check_conf, run, run_prepare, run_exit, is_not_last_scale
     pandora/__init__.py       run

   translator/gen_machine_flow.py reads these six functions with Python `ast` and emits, for each, an
   ordered statement skeleton (coq/Gen/MachineFlow.v, regenerated at every run): which transition table is
   added / removed and where, the loop over cfg["pipeline"] and its iteration order, how the trigger name is
   computed from the step name (prefix, separator, component index), the `try ... except (names): raise`
   wrappers (the handled classes as a SET, the handler), `set_state`, the reset of the first round, the
   second round (its condition, the arguments of the recursive call, the restored images), the scale loop
   with its `break`, the calls run_prepare / run / run_exit and the returned pair.

   This file gives
     * [exec_stmt] / [block]: the meaning of such a skeleton as a program (exceptions, break, return,
       calls, the `transitions` trigger semantics of Model/Machine.v: [fire]), for ANY skeleton;
     * [sem_check] / [sem_run]: what PandoraMachine.check_conf / pandora.run compute according to a record
       of skeletons;
     * [check_flow_wf] / [run_flow_wf]: the boolean "this is the control flow that Model/Machine.v's
       check_conf / run implement" (equality with the canonical skeletons up to the order of
       `remove_transitions(T); set_state(s)`, two statements that commute);
   Proofs/MachineFlowP.v proves, for every well-formed record, sem_check = Model.Machine.check_conf and
   sem_run = Model.Machine.run (all machines, pipelines, callback behaviours, numbers of scales).
   The per-run obligations [check_flow_wf Gen.MachineFlow.flows = true], [run_flow_wf ... = true] are in
   Props/C01.v.  Definitions only (plus the decidable equalities). *)
From Coq Require Import ZArith List Bool String.
From Pandora Require Import Model.Machine.
Import ListNotations.
Open Scope Z_scope.

(* ================================================================== the datatype *)

Inductive tbl : Type := TCheck | TRun.            (* self._transitions_check / self._transitions_run *)
Inductive exn : Type := EMachineError | EKeyError | EAttributeError | EOtherError.
Inductive side : Type := SL | SR.                 (* the caller's left / right image *)
Inductive img : Type := PLeft | PRight.           (* the parameters img_left / img_right of check_conf *)
Inductive order : Type :=
| ODict                                           (* for x in [list(]cfg["pipeline"][)]: dictionary order *)
| OSorted                                         (* sorted(cfg["pipeline"]) *)
| OReversed.                                      (* reversed(list(cfg["pipeline"])) *)

(* the classes named by an `except (...)` clause: a set *)
Record catch : Type := mkCatch { c_machine : bool; c_key : bool; c_attribute : bool; c_other : bool }.

Inductive handler : Type :=
| HRaise (e : exn)                                (* raise E(...) *)
| HReraise.                                       (* raise *)

(* integer expressions *)
Inductive zexp : Type :=
| ZConst (z : Z)
| ZParamScales                                    (* the parameter num_scales *)
| ZSelfScales                                     (* <machine>.num_scales *)
| ZSelfScale                                      (* self.current_scale *)
| ZSub (a b : zexp).

(* conditions *)
Inductive bexp : Type :=
| BRdm                                            (* self.right_disp_map (truth value) *)
| BSecond                                         (* right_left_img_check *)
| BDotted                                         (* len(input_step.split(".")) != 1 *)
| BStateIs (s : state)                            (* <machine>.state == "<s>" *)
| BZEq (a b : zexp)
| BZGt (a b : zexp)
| BParamNone (name : string)                      (* <name> is None, name = num_scales | scale_factor *)
| BAnyStep (k : kind)                             (* [s for s in cfg["pipeline"] if s.split(".")[0] == "<k>"] *)
| BNot (b : bexp)
| BAnd (a b : bexp)
| BOr (a b : bexp).

(* which component of the step name spells the trigger *)
Inductive selector : Type :=
| SelWhole                                        (* the whole name *)
| SelIdx (sep : string) (i : Z).                  (* name.split(sep)[i] *)

(* the two arguments handed to the callbacks through trigger(name, a, b) *)
Inductive targs : Type :=
| ArgsPipelineStep                                (* cfg["pipeline"], input_step *)
| ArgsCfgStep.                                    (* cfg, input_step *)

Inductive callee : Type :=
| FCheckConf (l r : img) (second : bool)          (* self.check_conf(cfg, <l>, <r>, <second>) *)
| FRunPrepare                                     (* m.run_prepare(cfg, img_left, img_right, scale_factor, num_scales) *)
| FRun                                            (* m.run(<loop variable>, cfg) *)
| FRunExit.                                       (* m.run_exit() *)

Inductive stmt : Type :=
| SSetLeft (i : img)                              (* self.left_img = <i> *)
| SSetRight (i : img)                             (* self.right_img = <i> *)
| SResetCfg                                       (* self.pipeline_cfg = {"pipeline": {}} *)
| SResetMargins                                   (* self.margins = GlobalMargins() *)
| SSetRdmNone                                     (* self.right_disp_map = None *)
| SSetRdmCfg                                      (* self.right_disp_map = cfg["pipeline"][<first validation step>]["validation_method"] *)
| SSetScales (z : zexp)                           (* self.num_scales = z *)
| SSetScale (z : zexp)                            (* self.current_scale = z *)
| SReadMultiscale                                 (* num_scales, scale_factor = read_multiscale_params(cfg) *)
| SAddTransitions (t : tbl)                       (* self.add_transitions(<t>) *)
| SRemoveTransitions (t : tbl)                    (* self.remove_transitions(<t>) *)
| SSetState (s : state)                           (* self.set_state("<s>") *)
| SIf (c : bexp) (a b : list stmt)                (* if c: a else: b *)
| SForSteps (o : order) (body : list stmt)        (* for <step> in <o>(cfg["pipeline"]): body *)
| SForScales (n : zexp) (body : list stmt)        (* for _ in range(n): body *)
| STry (body : list stmt) (c : catch) (h : handler)   (* try: body except c: h *)
| STrigger (prefix : string) (sel : selector) (a : targs)
                                                  (* self.trigger(sel(prefix + <step>), <a>) *)
| SCall (f : callee)
| SBreak
| SReturnBool (b : bool)                          (* return True / False *)
| SReturnProducts (a b : side).                   (* return m.<a>_disparity, m.<b>_disparity *)

Record flows : Type := mkFlows {
  fl_check_conf : list stmt;                      (* PandoraMachine.check_conf *)
  fl_machine_run : list stmt;                     (* PandoraMachine.run *)
  fl_run_prepare : list stmt;                     (* PandoraMachine.run_prepare, projected on num_scales,
                                                     current_scale, right_disp_map and the transitions *)
  fl_run_exit : list stmt;                        (* PandoraMachine.run_exit *)
  fl_cond : list stmt;                            (* PandoraMachine.is_not_last_scale *)
  fl_pandora_run : list stmt }.                   (* pandora.run *)

(* ================================================================== decidable equalities *)

Definition tbl_eq_dec : forall a b : tbl, {a = b} + {a <> b}.
Proof. decide equality. Defined.
Definition exn_eq_dec : forall a b : exn, {a = b} + {a <> b}.
Proof. decide equality. Defined.
Definition side_eq_dec : forall a b : side, {a = b} + {a <> b}.
Proof. decide equality. Defined.
Definition img_eq_dec : forall a b : img, {a = b} + {a <> b}.
Proof. decide equality. Defined.
Definition order_eq_dec : forall a b : order, {a = b} + {a <> b}.
Proof. decide equality. Defined.
Definition catch_eq_dec : forall a b : catch, {a = b} + {a <> b}.
Proof. decide equality; apply bool_dec. Defined.
Definition handler_eq_dec : forall a b : handler, {a = b} + {a <> b}.
Proof. decide equality; apply exn_eq_dec. Defined.
Definition zexp_eq_dec : forall a b : zexp, {a = b} + {a <> b}.
Proof. decide equality; apply Z.eq_dec. Defined.
Definition state_eq_dec : forall a b : state, {a = b} + {a <> b}.
Proof. decide equality. Defined.
Definition kind_eq_dec : forall a b : kind, {a = b} + {a <> b}.
Proof. decide equality. Defined.
Definition bexp_eq_dec : forall a b : bexp, {a = b} + {a <> b}.
Proof. decide equality; try apply zexp_eq_dec; try apply state_eq_dec; try apply string_dec; apply kind_eq_dec. Defined.
Definition selector_eq_dec : forall a b : selector, {a = b} + {a <> b}.
Proof. decide equality; try apply Z.eq_dec; apply string_dec. Defined.
Definition targs_eq_dec : forall a b : targs, {a = b} + {a <> b}.
Proof. decide equality. Defined.
Definition callee_eq_dec : forall a b : callee, {a = b} + {a <> b}.
Proof. decide equality; try apply img_eq_dec; apply bool_dec. Defined.

Fixpoint stmt_eq_dec (a b : stmt) {struct a} : {a = b} + {a <> b}.
Proof.
  decide equality;
    try apply (list_eq_dec stmt_eq_dec); try apply img_eq_dec; try apply zexp_eq_dec; try apply tbl_eq_dec;
    try apply state_eq_dec; try apply bexp_eq_dec; try apply order_eq_dec; try apply catch_eq_dec;
    try apply handler_eq_dec; try apply string_dec; try apply selector_eq_dec; try apply targs_eq_dec;
    try apply callee_eq_dec; try apply bool_dec; try apply side_eq_dec.
Defined.

Definition block_eqb (a b : list stmt) : bool := if list_eq_dec stmt_eq_dec a b then true else false.

(* ================================================================== the meaning of a skeleton *)

(* what the interpreter carries: the machine of Model/Machine.v (state, registered transitions,
   right_disp_map set?, current_scale), which of the caller's images self.left_img / self.right_img hold,
   self.num_scales, and the trace of the run callbacks *)
Record fstate : Type := mkF {
  f_m : machine; f_left : side; f_right : side; f_scales : Z; f_trace : list ev }.

Definition with_m (st : fstate) (m : machine) : fstate :=
  mkF m (f_left st) (f_right st) (f_scales st) (f_trace st).

(* one function activation *)
Record env : Type := mkEnv {
  e_p : list step;          (* cfg["pipeline"], dictionary order *)
  e_n : Z;                  (* num_scales (read from the configuration / parameter) *)
  e_pl : side;              (* what the parameter img_left holds *)
  e_pr : side;              (* what the parameter img_right holds *)
  e_second : bool;          (* right_left_img_check *)
  e_cur : option step }.    (* the loop variable / the parameter input_step *)

Definition set_cur (e : env) (s : step) : env :=
  mkEnv (e_p e) (e_n e) (e_pl e) (e_pr e) (e_second e) (Some s).

Inductive retval : Type := RBool (b : bool) | RProducts (a b : side).

Inductive fres : Type :=
| ONormal (st : fstate)
| OBreak (st : fstate)
| ORaise (e : exn) (st : fstate)
| OReturn (v : retval) (st : fstate)
| OStuck.                   (* not a program this interpreter gives a meaning to (a trigger outside a loop,
                               `break` leaving a function, recursion deeper than the fuel) *)

Definition catches (c : catch) (e : exn) : bool :=
  match e with
  | EMachineError => c_machine c | EKeyError => c_key c
  | EAttributeError => c_attribute c | EOtherError => c_other c
  end.

Definition img_of (e : env) (i : img) : side := match i with PLeft => e_pl e | PRight => e_pr e end.

(* a statement-call: the value is dropped, an exception propagates *)
Definition as_call (o : fres) : fres :=
  match o with
  | ONormal st | OReturn _ st => ONormal st
  | ORaise x st => ORaise x st
  | OBreak _ | OStuck => OStuck
  end.

Fixpoint for_steps (f : step -> fstate -> fres) (p : list step) (st : fstate) : fres :=
  match p with
  | [] => ONormal st
  | s :: r =>
    match f s st with
    | ONormal st' => for_steps f r st'
    | OBreak st' => ONormal st'
    | o => o
    end
  end.

Fixpoint for_n (n : nat) (f : fstate -> fres) (st : fstate) : fres :=
  match n with
  | O => ONormal st
  | S n' =>
    match f st with
    | ONormal st' => for_n n' f st'
    | OBreak st' => ONormal st'
    | o => o
    end
  end.

Definition block (ex : stmt -> env -> fstate -> fres) : list stmt -> env -> fstate -> fres :=
  fix go (l : list stmt) (e : env) (st : fstate) : fres :=
    match l with
    | [] => ONormal st
    | s :: r => match ex s e st with ONormal st' => go r e st' | o => o end
    end.

Section Exec.
  Variables check_tbl run_tbl : list transition.
  (* the <step>_check_conf callback of a step while self.left_img / self.right_img hold the given images:
     None = it returns, Some e = it raises e *)
  Variable cb : step -> side -> side -> option exn.
  (* does the step name contain the separator "." *)
  Variable dotted : step -> bool.
  (* the kind spelled by another component than name.split(".")[0] (not used by a well-formed flow) *)
  Variable other_kind : step -> selector -> option kind.
  (* sorted(cfg["pipeline"]) (not used by a well-formed flow) *)
  Variable sorted_steps : list step -> list step.

  Definition table (t : tbl) : list transition := match t with TCheck => check_tbl | TRun => run_tbl end.

  Definition zeval (z : zexp) (e : env) (st : fstate) : Z :=
    (fix go (z : zexp) : Z :=
       match z with
       | ZConst c => c
       | ZParamScales => e_n e
       | ZSelfScales => f_scales st
       | ZSelfScale => m_scale (f_m st)
       | ZSub a b => go a - go b
       end) z.

  Fixpoint beval (b : bexp) (e : env) (st : fstate) : bool :=
    match b with
    | BRdm => m_rdm (f_m st)
    | BSecond => e_second e
    | BDotted => match e_cur e with Some s => dotted s | None => false end
    | BStateIs s => state_eqb (m_st (f_m st)) s
    | BZEq a c => zeval a e st =? zeval c e st
    | BZGt a c => zeval a e st >? zeval c e st
    | BParamNone _ => false    (* pandora.run hands over the integers returned by read_multiscale_params *)
    | BAnyStep k => has_kind k (e_p e)
    | BNot a => negb (beval a e st)
    | BAnd a c => beval a e st && beval c e st
    | BOr a c => beval a e st || beval c e st
    end.

  (* the kind spelled by the selected component of the step name: the FIRST component is s_kind (the
     definition of s_kind in Model/Machine.v); the whole name spells a kind iff it has no "." and its
     first (only) component does *)
  Definition sel_kind (sel : selector) (s : step) : option kind :=
    match sel with
    | SelWhole => if dotted s then None else s_kind s
    | SelIdx sep i => if (String.eqb sep ".") && (i =? 0) then s_kind s else other_kind s sel
    end.

  (* the triggers of the check table are "check_<kind>", those of the run table "<kind>"
     (translator/gen_tables.py refuses anything else) *)
  Definition phase_of_prefix (p : string) : option phase :=
    if String.eqb p "check_" then Some PCheck else if String.eqb p "" then Some PRun else None.

  Definition order_steps (o : order) (p : list step) : list step :=
    match o with ODict => p | OSorted => sorted_steps p | OReversed => rev p end.

  (* what the `after` callback of a fired transition does to what this interpreter carries
     (Model/Machine.v check_steps / run_steps make the same statements):
       <step>_check_conf  raises or returns; validation_check_conf sets right_disp_map;
       <step>_run         is recorded in the trace, left then right iff right_disp_map is set;
                          validation_run needs the right disparity map (KeyError without it);
                          run_multiscale decrements current_scale *)
  Definition callback (ph : phase) (k : kind) (s : step) (st : fstate) : fres :=
    let m := f_m st in
    match ph with
    | PCheck =>
      match cb s (f_left st) (f_right st) with
      | Some x => ORaise x st
      | None => ONormal (if kind_eqb k Val then with_m st (set_rdm m true) else st)
      end
    | PRun =>
      if kind_eqb k Val && negb (m_rdm m) then ORaise EKeyError st
      else
        let tr1 := f_trace st ++ evs (m_rdm m) (m_scale m) (s_id s) k in
        let m2 := if kind_eqb k Msc then set_scale m (m_scale m - 1) else m in
        ONormal (mkF m2 (f_left st) (f_right st) (f_scales st) tr1)
    end.

  Section WithCalls.
    (* the `conditions` callback of the conditional transitions (is_not_last_scale) *)
    Variable cond : fstate -> bool.
    Variable calls : callee -> env -> fstate -> fres.

    (* Machine.trigger(name, ...): unknown event -> AttributeError; no transition from the current state
       -> MachineError; every condition false -> returns False; else the state changes, then the callback *)
    Definition trigger (ph : option phase) (k : option kind) (s : step) (st : fstate) : fres :=
      match ph, k with
      | Some ph, Some k =>
        let m := f_m st in
        match fire (m_regs m) (m_st m) ph k (cond st) with
        | Fired d => callback ph k s (with_m st (set_st m d))
        | CondFalse => ONormal st
        | NoTransition => ORaise EMachineError st
        | UnknownEvent => ORaise EAttributeError st
        end
      | _, _ => ORaise EAttributeError st
      end.

    Definition callee_env (f : callee) (e : env) : env :=
      match f with
      | FCheckConf l r second => mkEnv (e_p e) (e_n e) (img_of e l) (img_of e r) second None
      | _ => e
      end.

    Fixpoint exec_stmt (s : stmt) (e : env) (st : fstate) {struct s} : fres :=
      let m := f_m st in
      match s with
      | SSetLeft i => ONormal (mkF m (img_of e i) (f_right st) (f_scales st) (f_trace st))
      | SSetRight i => ONormal (mkF m (f_left st) (img_of e i) (f_scales st) (f_trace st))
      | SResetCfg | SResetMargins | SReadMultiscale => ONormal st
      | SSetRdmNone => ONormal (with_m st (set_rdm m false))
      | SSetRdmCfg => ONormal (with_m st (set_rdm m true))
      | SSetScales z => ONormal (mkF m (f_left st) (f_right st) (zeval z e st) (f_trace st))
      | SSetScale z => ONormal (with_m st (set_scale m (zeval z e st)))
      | SAddTransitions t => ONormal (with_m st (set_regs m (m_regs m ++ table t)))
      | SRemoveTransitions t => ONormal (with_m st (set_regs m (remove_table (table t) (m_regs m))))
      | SSetState s' => ONormal (with_m st (set_st m s'))
      | SIf c a b => if beval c e st then block exec_stmt a e st else block exec_stmt b e st
      | SForSteps o body =>
          for_steps (fun x st' => block exec_stmt body (set_cur e x) st') (order_steps o (e_p e)) st
      | SForScales n body => for_n (Z.to_nat (zeval n e st)) (fun st' => block exec_stmt body e st') st
      | STry body c h =>
          match block exec_stmt body e st with
          | ORaise x st' =>
              if catches c x then match h with HRaise y => ORaise y st' | HReraise => ORaise x st' end
              else ORaise x st'
          | o => o
          end
      | STrigger prefix sel _ =>
          match e_cur e with
          | Some x => trigger (phase_of_prefix prefix) (sel_kind sel x) x st
          | None => OStuck
          end
      | SCall f => as_call (calls f (callee_env f e) st)
      | SBreak => OBreak st
      | SReturnBool b => OReturn (RBool b) st
      | SReturnProducts a b => OReturn (RProducts a b) st
      end.
  End WithCalls.

  Definition no_calls : callee -> env -> fstate -> fres := fun _ _ _ => OStuck.
  Definition env0 : env := mkEnv [] 0 SL SR false None.

  Section WithFlows.
    Variable fl : flows.

    (* is_not_last_scale(self, _, __) *)
    Definition sem_cond (st : fstate) : bool :=
      match block (exec_stmt (fun _ => false) no_calls) (fl_cond fl) env0 st with
      | OReturn (RBool b) _ => b
      | _ => false
      end.

    (* PandoraMachine.check_conf; [fuel] bounds the depth of the recursive calls (a well-formed flow
       reaches depth 2) *)
    Fixpoint call_check (fuel : nat) (e : env) (st : fstate) : fres :=
      match fuel with
      | O => OStuck
      | S f =>
        block (exec_stmt sem_cond
                 (fun c e' st' => match c with FCheckConf _ _ _ => call_check f e' st' | _ => OStuck end))
              (fl_check_conf fl) e st
      end.

    Definition run_calls (c : callee) (e : env) (st : fstate) : fres :=
      match c with
      | FRunPrepare => block (exec_stmt sem_cond no_calls) (fl_run_prepare fl) e st
      | FRun => block (exec_stmt sem_cond no_calls) (fl_machine_run fl) e st
      | FRunExit => block (exec_stmt sem_cond no_calls) (fl_run_exit fl) e st
      | FCheckConf _ _ _ => OStuck
      end.

    (* machine.check_conf(cfg, img_left, img_right) on a machine object in state m *)
    Definition sem_check (fuel : nat) (st : fstate) (p : list step) : fres :=
      call_check fuel (mkEnv p 0 SL SR false None) st.

    (* pandora.run(machine, img_left, img_right, cfg) where read_multiscale_params(cfg) gives n scales *)
    Definition sem_run (st : fstate) (p : list step) (n : Z) : fres :=
      block (exec_stmt sem_cond run_calls) (fl_pandora_run fl) (mkEnv p n SL SR false None) st.
  End WithFlows.
End Exec.

(* ================================================================== the canonical flows *)

Definition handled : catch := mkCatch true true true false.    (* (MachineError, KeyError, AttributeError) *)

Definition can_check_conf : list stmt :=
  [ SSetLeft PLeft;
    SSetRight PRight;
    SIf (BNot BSecond) [SResetCfg; SResetMargins; SSetRdmNone] [];
    SAddTransitions TCheck;
    SForSteps ODict
      [ STry [ SIf BDotted [STrigger "check_" (SelIdx "." 0) ArgsPipelineStep]
                           [STrigger "check_" SelWhole ArgsPipelineStep] ]
             handled (HRaise EMachineError) ];
    SRemoveTransitions TCheck;
    SSetState Begin;
    SIf (BAnd BRdm (BNot BSecond))
        [SCall (FCheckConf PRight PLeft true); SSetLeft PLeft; SSetRight PRight] [] ].

Definition can_machine_run : list stmt :=
  [ STry [STrigger "" (SelIdx "." 0) ArgsCfgStep] handled HReraise ].

Definition can_run_prepare : list stmt :=
  [ SIf (BOr (BParamNone "num_scales") (BParamNone "scale_factor")) [SSetScales (ZConst 1)] [SSetScales ZParamScales];
    SIf (BZGt ZSelfScales (ZConst 1))
        [SSetScale (ZSub ZParamScales (ZConst 1))] [SSetScale (ZConst 0)];
    SIf (BAnyStep Val) [SSetRdmCfg] [SSetRdmNone];
    SAddTransitions TRun ].

Definition can_run_exit : list stmt := [ SRemoveTransitions TRun; SSetState Begin ].

Definition can_cond : list stmt :=
  [ SIf (BZEq ZSelfScale (ZConst 0)) [SReturnBool false] []; SReturnBool true ].

Definition can_pandora_run : list stmt :=
  [ SReadMultiscale;
    SCall FRunPrepare;
    SForScales ZSelfScales [ SForSteps ODict [ SCall FRun; SIf (BStateIs Begin) [SBreak] [] ] ];
    SCall FRunExit;
    SReturnProducts SL SR ].

(* ================================================================== well-formedness *)

(* `self.set_state(s); self.remove_transitions(T)` is put in the order `remove_transitions; set_state`
   (the two statements commute: one writes the state, the other the registered transitions); top level of
   a function body only *)
Fixpoint norm (l : list stmt) : list stmt :=
  match l with
  | SSetState s :: SRemoveTransitions t :: r => SRemoveTransitions t :: SSetState s :: norm r
  | x :: r => x :: norm r
  | [] => []
  end.

Definition check_flow_wf (fl : flows) : bool :=
  block_eqb (norm (fl_check_conf fl)) can_check_conf.

Definition run_flow_wf (fl : flows) : bool :=
  block_eqb (fl_machine_run fl) can_machine_run
  && block_eqb (fl_run_prepare fl) can_run_prepare
  && block_eqb (norm (fl_run_exit fl)) can_run_exit
  && block_eqb (fl_cond fl) can_cond
  && block_eqb (fl_pandora_run fl) can_pandora_run.
