(* Generic block combinator: the loop shape shared by disparity.py (argmin_split /
   argmax_split), median.py, bilateral.py (and fixed_zoom_pyramid.py):

       chunks_y = np.array_split(x, np.arange(B, ny, B), axis=0)
       y_begin = oy
       for blk_y in chunks_y:
           chunks_x = np.array_split(blk_y, np.arange(B, nx, B), axis=1)
           x_begin = ox
           for blk_x in chunks_x:
               out[y_begin : y_begin + blk_y.shape[0], x_begin : x_begin + blk_x.shape[1]] = F(blk_x)
               x_begin += blk_x.shape[1]
           y_begin += blk_y.shape[0]

   The array that is split has extent (my, mx); the split points are computed from
   (ny, nx), which in the filters is the IMAGE size while the split array is the
   shorter array of windows (my = ny - w + 1): trailing empty blocks then occur.
   They are part of the model ([slices] clamps like Python slicing) and of the lemmas.

   2-D arrays are functions Z -> Z -> A with separately known extents (DESIGN 2.1);
   a block is a view (its start in the split array), the running offsets y_begin /
   x_begin are tracked separately exactly as in the code, and the lemma
   [run_inv] is "the running offset equals oy + the block start, whatever B >= 1". *)
From Coq Require Import ZArith List Bool Lia.
Import ListNotations.
Open Scope Z_scope.

(* ---------------------------------------------------------------- np.arange *)

Fixpoint arange_n (start step : Z) (k : nat) : list Z :=
  match k with
  | O => []
  | S k' => start :: arange_n (start + step) step k'
  end.

(* np.arange(start, stop, step) for step > 0: ceil((stop - start) / step) values *)
Definition arange (start stop step : Z) : list Z :=
  arange_n start step (Z.to_nat ((stop - start + step - 1) / step)).

(* the split points of every block loop of Pandora *)
Definition split_points (B n : Z) : list Z := arange B n B.

(* ------------------------------------------------------------ np.array_split
   np.array_split(x, pts, axis) with an explicit list of split points returns
   x[0:p1], x[p1:p2], ..., x[pk:]   (Python slices: bounds clamped to the extent m).
   A slice is represented by its (start, stop) in the split array. *)

Definition clamp (m p : Z) : Z := Z.min p m.

Fixpoint slices (m prev : Z) (pts : list Z) : list (Z * Z) :=
  match pts with
  | [] => [(clamp m prev, m)]
  | p :: r => (clamp m prev, clamp m p) :: slices m p r
  end.

(* the blocks of an axis of extent m when the split points come from size n *)
Definition blocks (B n m : Z) : list (Z * Z) := slices m 0 (split_points B n).

(* ------------------------------------------------------------------ the loop
   [run body begin sl st]: for each slice, call the body with the running offset,
   then advance the offset by the extent of the slice (blk.shape[axis]). *)

Section Run.
  Context {S : Type}.
  Fixpoint run (body : Z -> Z * Z -> S -> S) (begin : Z) (sl : list (Z * Z)) (st : S) : S :=
    match sl with
    | [] => st
    | (s, e) :: r => run body (begin + (e - s)) r (body begin (s, e) st)
    end.
End Run.

(* slice assignment out[y0:y1, x0:x1] = src  (src indexed from 0) *)
Definition assign {A : Type} (out : Z -> Z -> A) (y0 y1 x0 x1 : Z) (src : Z -> Z -> A) : Z -> Z -> A :=
  fun r c =>
    if (y0 <=? r) && (r <? y1) && (x0 <=? c) && (c <? x1) then src (r - y0) (c - x0) else out r c.

(* the double block loop; [f i j] is the value computed for element (i, j) of the split
   array (e.g. the arg-min of cost_volume[i, j, :], or the median of window (i, j)) *)
Definition loop2 {A : Type} (f : Z -> Z -> A) (B ny nx my mx oy ox : Z) (out : Z -> Z -> A)
  : Z -> Z -> A :=
  run (fun yb (sy : Z * Z) out1 =>
         let '(ys, ye) := sy in
         run (fun xb (sx : Z * Z) out2 =>
                let '(xs, xe) := sx in
                assign out2 yb (yb + (ye - ys)) xb (xb + (xe - xs))
                       (fun i j => f (ys + i) (xs + j)))
             ox (blocks B nx mx) out1)
      oy (blocks B ny my) out.

(* ================================================================== lemmas *)

(* "the slices tile [lo, hi) in order": consecutive, each non-empty or empty, never reversed *)
Inductive tiles : Z -> Z -> list (Z * Z) -> Prop :=
| tiles_nil : forall lo, tiles lo lo []
| tiles_cons : forall lo mid hi r, lo <= mid -> tiles mid hi r -> tiles lo hi ((lo, mid) :: r).

Fixpoint increasing (prev : Z) (pts : list Z) : Prop :=
  match pts with
  | [] => True
  | p :: r => prev <= p /\ increasing p r
  end.

Lemma arange_n_increasing : forall k start step prev,
  0 < step -> prev <= start -> increasing prev (arange_n start step k).
Proof.
  induction k; intros; cbn [arange_n increasing]; auto.
  split; [assumption|]. apply IHk; lia.
Qed.

Lemma split_points_increasing : forall B n, 1 <= B -> increasing 0 (split_points B n).
Proof. intros. unfold split_points, arange. apply arange_n_increasing; lia. Qed.

Lemma arange_n_In : forall k start step x,
  In x (arange_n start step k) <-> exists i, 0 <= i < Z.of_nat k /\ x = start + step * i.
Proof.
  induction k; intros; cbn [arange_n In].
  - split; [tauto|]. intros (i & H & _). lia.
  - rewrite IHk. split.
    + intros [<- | (i & Hi & ->)].
      * exists 0. lia.
      * exists (i + 1). lia.
    + intros (i & Hi & ->). destruct (Z.eq_dec i 0) as [-> | Hne].
      * left. lia.
      * right. exists (i - 1). lia.
Qed.

(* the split points are exactly the positive multiples of B strictly below n *)
Lemma split_points_spec : forall B n x, 1 <= B ->
  In x (split_points B n) <-> exists i, 1 <= i /\ x = B * i /\ x < n.
Proof.
  intros B n x HB. unfold split_points, arange. rewrite arange_n_In.
  set (k := (n - B + B - 1) / B).
  assert (Hk : B * k <= n - 1 < B * k + B).
  { unfold k. replace (n - B + B - 1) with (n - 1) by lia.
    pose proof (Z.mul_div_le (n - 1) B). pose proof (Z.mul_succ_div_gt (n - 1) B). lia. }
  split.
  - intros (i & Hi & ->). exists (i + 1). split; [lia|]. split; [lia|].
    assert (i < k) by lia. nia.
  - intros (i & Hi & -> & Hlt). exists (i - 1). split; [|lia].
    assert (i <= k) by nia. lia.
Qed.

Lemma slices_tile : forall pts m prev,
  0 <= m -> increasing prev pts -> tiles (clamp m prev) m (slices m prev pts).
Proof.
  induction pts as [|p r IH]; intros m prev Hm Hinc; cbn [slices].
  - constructor; [unfold clamp; lia | constructor].
  - destruct Hinc as [Hle Hinc]. constructor; [unfold clamp; lia|]. apply IH; assumption.
Qed.

(* For every B >= 1, every n (whatever its relation to m) the blocks tile [0, m) in order. *)
Theorem blocks_tile : forall B n m, 1 <= B -> 0 <= m -> tiles 0 m (blocks B n m).
Proof.
  intros. unfold blocks.
  replace 0 with (clamp m 0) at 1 by (unfold clamp; lia).
  apply slices_tile; [assumption|]. apply split_points_increasing; assumption.
Qed.

(* explicit form: block i is [min(i*B, m), min((i+1)*B, m)) except the last, which ends at m *)
Lemma slices_length : forall pts m prev, length (slices m prev pts) = S (length pts).
Proof. induction pts; intros; cbn [slices length]; auto. Qed.

Lemma arange_n_length : forall k s st, length (arange_n s st k) = k.
Proof. induction k; intros; cbn [arange_n length]; auto. Qed.

(* number of blocks: ceil(n / B) for n >= 1, one (possibly empty) block otherwise *)
Lemma blocks_count : forall B n m, 1 <= B -> 1 <= n ->
  Z.of_nat (length (blocks B n m)) = (n - 1) / B + 1.
Proof.
  intros. unfold blocks, split_points, arange. rewrite slices_length, arange_n_length.
  replace (n - B + B - 1) with (n - 1) by lia.
  assert (0 <= (n - 1) / B) by (apply Z.div_pos; lia). lia.
Qed.

Lemma tiles_le : forall lo hi sl, tiles lo hi sl -> lo <= hi.
Proof. induction 1; lia. Qed.

(* The running offset of the loop equals begin0 + (start of the slice - lo): an invariant
   [P pos st] established at [lo] and preserved by the body called with THAT offset holds
   at [hi] after the loop. *)
Lemma run_inv : forall (S : Type) (P : Z -> S -> Prop) (body : Z -> Z * Z -> S -> S) sl lo hi begin0 st,
  tiles lo hi sl ->
  (forall s e st', lo <= s -> s <= e -> e <= hi -> P s st' -> P e (body (begin0 + (s - lo)) (s, e) st')) ->
  P lo st ->
  P hi (run body begin0 sl st).
Proof.
  intros S P body sl. induction sl as [|[s e] r IH]; intros lo hi begin0 st Ht Hbody HP.
  - inversion Ht; subst. cbn [run]. assumption.
  - inversion Ht as [|lo' mid hi' r' Hle Hrest]; subst. cbn [run].
    assert (Hmid : e <= hi) by (eapply tiles_le; eassumption).
    apply (IH e hi (begin0 + (e - s)) (body begin0 (s, e) st) Hrest).
    + intros s' e' st' Hs1 Hs2 Hs3 HP'.
      replace (begin0 + (e - s) + (s' - e)) with (begin0 + (s' - s)) by lia.
      apply Hbody; try lia. assumption.
    + replace begin0 with (begin0 + (s - s)) at 1 by lia. apply Hbody; try lia. assumption.
Qed.

Ltac bdz := repeat match goal with
  | |- context [?a <=? ?b] => destruct (Z.leb_spec a b)
  | |- context [?a <? ?b] => destruct (Z.ltb_spec a b)
  end; cbn [andb]; try lia; try reflexivity.

(* inner loop (one row block [ys, ys+h) written at rows [yb, yb+h)) *)
Lemma inner_spec : forall (A : Type) (f : Z -> Z -> A) B nx mx ox yb h ys out1 r c,
  1 <= B -> 0 <= mx ->
  run (fun xb (sx : Z * Z) out2 =>
         let '(xs, xe) := sx in
         assign out2 yb (yb + h) xb (xb + (xe - xs)) (fun i j => f (ys + i) (xs + j)))
      ox (blocks B nx mx) out1 r c
  = if (yb <=? r) && (r <? yb + h) && (ox <=? c) && (c <? ox + mx)
    then f (ys + (r - yb)) (c - ox) else out1 r c.
Proof.
  intros A f B nx mx ox yb h ys out1 r c HB Hmx. revert r c.
  apply (run_inv _ (fun pos o => forall r c,
           o r c = if (yb <=? r) && (r <? yb + h) && (ox <=? c) && (c <? ox + pos)
                   then f (ys + (r - yb)) (c - ox) else out1 r c)
                 _ (blocks B nx mx) 0 mx ox out1).
  - apply blocks_tile; assumption.
  - intros s e o Hs Hse He HP r c. unfold assign. rewrite HP.
    bdz. f_equal; lia.
  - intros r c. bdz.
Qed.

(* The double loop writes f(r - oy, c - ox) on the rectangle [oy, oy+my) x [ox, ox+mx)
   and nothing else, for EVERY block size B >= 1 and every (ny, nx). *)
Theorem loop2_spec : forall (A : Type) (f : Z -> Z -> A) B ny nx my mx oy ox out r c,
  1 <= B -> 0 <= my -> 0 <= mx ->
  loop2 f B ny nx my mx oy ox out r c =
  if (oy <=? r) && (r <? oy + my) && (ox <=? c) && (c <? ox + mx) then f (r - oy) (c - ox) else out r c.
Proof.
  intros A f B ny nx my mx oy ox out r c HB Hmy Hmx. unfold loop2. revert r c.
  apply (run_inv _ (fun pos o => forall r c,
           o r c = if (oy <=? r) && (r <? oy + pos) && (ox <=? c) && (c <? ox + mx)
                   then f (r - oy) (c - ox) else out r c)
                 _ (blocks B ny my) 0 my oy out).
  - apply blocks_tile; assumption.
  - intros s e o Hs Hse He HP r c. rewrite inner_spec by assumption. rewrite HP.
    bdz. f_equal; lia.
  - intros r c. bdz.
Qed.

(* block independence: the result is the same for any two block sizes and any two
   sizes from which the split points are computed *)
Corollary loop2_block_independent : forall (A : Type) (f : Z -> Z -> A) B B' ny nx ny' nx' my mx oy ox out r c,
  1 <= B -> 1 <= B' -> 0 <= my -> 0 <= mx ->
  loop2 f B ny nx my mx oy ox out r c = loop2 f B' ny' nx' my mx oy ox out r c.
Proof. intros. rewrite !loop2_spec by assumption. reflexivity. Qed.
