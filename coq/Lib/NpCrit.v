(* The numpy / xarray / scipy operations that pandora/criteria.py is written with (validity_mask,
   allocate_left_mask, allocate_right_mask, mask_invalid_variable_disparity_range, mask_border,
   binary_dilation_msk), and their MEANING, written once.  translator/gen_criteria_fns.py maps the
   Python `ast` of those functions to Gallina terms over these combinators one statement at a time
   and knows nothing else (coq/Gen/CriteriaFns.v, regenerated at every run).

     - a 2-D integer array is [imat], a 2-D boolean array [bmat]: an error flag, the two extents and a
       total function of (row, col); a 1-D array is [vec A]: error flag, length, total function of the
       position.  The error flag is raised by every operation numpy would refuse (operands of different
       shapes -- broadcasting of an extent 1 is not used by the code and counts as a failure --, an
       index outside its axis, a reduction over an empty axis) and by the few that numpy accepts but
       that are outside this model (a NEGATIVE or REPEATED column index in X[:, idx] op= ..., an even
       structuring element, datasets whose coordinates differ in xr.align): "err = false" is a
       conclusion of the theorems about the generated code, never a hypothesis;
     - integers are unbounded ([Z]); .astype(np.uint16) is the reduction modulo 65536 (the translator
       refuses any other dtype, any dtype= argument of np.full); a boolean added to / multiplied by an
       integer counts for 0 / 1 ([np_b2i]);
     - np.where(b) of a 1-D boolean array is the 1-tuple of the increasing positions where b holds; the
       tuple and its only component are the same [vec Z] here ([np_tuple_get0], [np_tuple1_empty] for
       `([],)`): numpy reads X[:, (idx,)] as X[:, idx[None, :]], same elements; np.where(B) of a 2-D
       boolean array is the row-major list of the positions (row, col) where B holds ([vec (Z * Z)]);
     - a float cost volume is represented by its NaN pattern ([cube]; np.isnan is all that
       criteria.py asks of it); np.min(axis=2) of a boolean volume is "all";
     - Python slices a[lo:hi] with the bounds normalised as numpy does (negative counts from the end,
       clipped; -0 is 0); len(range(a, b)) = max 0 (b - a);
     - scipy.ndimage.binary_dilation(A, structure=np.ones((a, b)), iterations=1) (border_value 0,
       origin 0) by its index contract, for odd a, b: an element is set iff some element of its
       a x b neighbourhood inside the array is.

   Definitions only (lemmas: Proofs/NpCritP.v). *)
From Coq Require Import ZArith List Bool.
Import ListNotations.
Open Scope Z_scope.

Record imat : Type := mkM { m_err : bool; m_nr : Z; m_nc : Z; m_at : Z -> Z -> Z }.
Record bmat : Type := mkB { b_err : bool; b_nr : Z; b_nc : Z; b_at : Z -> Z -> bool }.
Record vec (A : Type) : Type := mkV { v_err : bool; v_len : Z; v_at : Z -> A }.
Arguments mkV {A}. Arguments v_err {A}. Arguments v_len {A}. Arguments v_at {A}.
(* the NaN pattern of a 3-D float array (row, col, disp) *)
Record cube : Type := mkQ { q_err : bool; q_nr : Z; q_nc : Z; q_nd : Z; q_nan : Z -> Z -> Z -> bool }.

(* ---------------------------------------------------------------- ranges, lists *)
Fixpoint upto_ (lo : Z) (n : nat) : list Z :=
  match n with
  | O => []
  | S k => lo :: upto_ (lo + 1) k
  end.
(* 0 .. n-1 *)
Definition upto (n : Z) : list Z := upto_ 0 (Z.to_nat n).
(* lo .. hi inclusive *)
Definition irange (lo hi : Z) : list Z := upto_ lo (Z.to_nat (hi - lo + 1)).
(* range(a, b) *)
Definition py_range (a b : Z) : list Z := upto_ a (Z.to_nat (b - a)).
(* len(range(a, b)) *)
Definition py_len_range (a b : Z) : Z := Z.max 0 (b - a).

Definition all_ok (l : list bool) : bool := forallb (fun b => b) l.

Fixpoint nodupb (l : list Z) : bool :=
  match l with
  | [] => true
  | x :: t => negb (existsb (Z.eqb x) t) && nodupb t
  end.
Fixpoint strict_incb (l : list Z) : bool :=
  match l with
  | x :: ((y :: _) as t) => (x <? y) && strict_incb t
  | _ => true
  end.
(* first position of j in l *)
Fixpoint pos_of_ (j : Z) (l : list Z) (k : Z) : option Z :=
  match l with
  | [] => None
  | x :: t => if x =? j then Some k else pos_of_ j t (k + 1)
  end.
Definition pos_of (j : Z) (l : list Z) : option Z := pos_of_ j l 0.

Definition pair_eqb (a b : Z * Z) : bool := (fst a =? fst b) && (snd a =? snd b).
Fixpoint pos_of2_ (p : Z * Z) (l : list (Z * Z)) (k : Z) : option Z :=
  match l with
  | [] => None
  | x :: t => if pair_eqb x p then Some k else pos_of2_ p t (k + 1)
  end.
Definition pos_of2 (p : Z * Z) (l : list (Z * Z)) : option Z := pos_of2_ p l 0.
Fixpoint nodupb2 (l : list (Z * Z)) : bool :=
  match l with
  | [] => true
  | x :: t => negb (existsb (pair_eqb x) t) && nodupb2 t
  end.

(* ---------------------------------------------------------------- guards: the partial scalar reads of a statement *)
Definition v_guard {A : Type} (ok : list bool) (v : vec A) : vec A := mkV (v_err v || negb (all_ok ok)) (v_len v) (v_at v).
Definition m_guard (ok : list bool) (X : imat) : imat := mkM (m_err X || negb (all_ok ok)) (m_nr X) (m_nc X) (m_at X).

(* ---------------------------------------------------------------- 1-D arrays *)
Definition v_to_list {A : Type} (v : vec A) : list A := map (v_at v) (upto (v_len v)).
Definition v_of_list (l : list Z) : vec Z := mkV false (Z.of_nat (length l)) (fun k => nth (Z.to_nat k) l 0).
Definition v_of_list2 (l : list (Z * Z)) : vec (Z * Z) := mkV false (Z.of_nat (length l)) (fun k => nth (Z.to_nat k) l (0, 0)).

(* v[i] with a Python integer (a negative one counts from the end) *)
Definition py_idx1 (n i : Z) : Z := if i <? 0 then i + n else i.
Definition np_item_ok {A : Type} (v : vec A) (i : Z) : bool := negb (v_err v) && (- v_len v <=? i) && (i <? v_len v).
Definition np_item {A : Type} (v : vec A) (i : Z) : A := v_at v (py_idx1 (v_len v) i).

Definition np_arange (n : Z) : vec Z := mkV false (Z.max 0 n) (fun j => j).

Definition v_map {A B : Type} (f : A -> B) (v : vec A) : vec B := mkV (v_err v) (v_len v) (fun j => f (v_at v j)).
Definition v_map2 {A B C : Type} (f : A -> B -> C) (a : vec A) (b : vec B) : vec C :=
  mkV (v_err a || v_err b || negb (v_len a =? v_len b)) (v_len a) (fun j => f (v_at a j) (v_at b j)).

Definition np_add_vs (v : vec Z) (s : Z) : vec Z := v_map (fun x => x + s) v.
Definition np_land_vs (v : vec Z) (s : Z) : vec Z := v_map (fun x => Z.land x s) v.
Definition np_lt_vs (v : vec Z) (s : Z) : vec bool := v_map (fun x => x <? s) v.
Definition np_le_vs (v : vec Z) (s : Z) : vec bool := v_map (fun x => x <=? s) v.
Definition np_gt_vs (v : vec Z) (s : Z) : vec bool := v_map (fun x => x >? s) v.
Definition np_ge_vs (v : vec Z) (s : Z) : vec bool := v_map (fun x => x >=? s) v.
Definition np_eq_vs (v : vec Z) (s : Z) : vec bool := v_map (fun x => x =? s) v.
Definition np_and_vv : vec bool -> vec bool -> vec bool := v_map2 andb.
Definition np_or_vv : vec bool -> vec bool -> vec bool := v_map2 orb.
(* np.where(c, a, b) on three 1-D arrays *)
Definition np_where_vvv (c : vec bool) (a b : vec Z) : vec Z :=
  mkV (v_err c || v_err a || v_err b || negb (v_len c =? v_len a) || negb (v_len c =? v_len b)) (v_len c)
      (fun j => if v_at c j then v_at a j else v_at b j).

(* np.where(b): the increasing positions where b holds (as a 1-tuple) *)
Definition np_where1 (b : vec bool) : vec Z :=
  let r := v_of_list (filter (v_at b) (upto (v_len b))) in mkV (v_err b) (v_len r) (v_at r).
Definition np_tuple1_empty : vec Z := v_of_list [].
Definition np_tuple_get0 (t : vec Z) : vec Z := t.

(* v[idx] with an integer index array *)
Definition np_take {A : Type} (v : vec A) (idx : vec Z) : vec A :=
  mkV (v_err v || v_err idx || negb (forallb (np_item_ok v) (v_to_list idx))) (v_len idx) (fun k => np_item v (v_at idx k)).

(* np.setdiff1d(a, b): the sorted distinct values of a that are not in b; modelled for a strictly increasing a *)
Definition np_setdiff1d (a b : vec Z) : vec Z :=
  let r := v_of_list (filter (fun x => negb (existsb (Z.eqb x) (v_to_list b))) (v_to_list a)) in
  mkV (v_err a || v_err b || negb (strict_incb (v_to_list a))) (v_len r) (v_at r).

Definition vmem (j : Z) (idx : vec Z) : bool := existsb (Z.eqb j) (v_to_list idx).

(* ---------------------------------------------------------------- 2-D arrays *)
Definition np_full2 (n m v : Z) : imat := mkM ((n <? 0) || (m <? 0)) n m (fun _ _ => v).

Definition same_shape_mm (X Y : imat) : bool := (m_nr X =? m_nr Y) && (m_nc X =? m_nc Y).
Definition same_shape_mb (X : imat) (Y : bmat) : bool := (m_nr X =? b_nr Y) && (m_nc X =? b_nc Y).
Definition same_shape_bb (X Y : bmat) : bool := (b_nr X =? b_nr Y) && (b_nc X =? b_nc Y).

Definition np_b2i (B : bmat) : imat := mkM (b_err B) (b_nr B) (b_nc B) (fun r c => if b_at B r c then 1 else 0).
Definition np_astype_u16 (X : imat) : imat := mkM (m_err X) (m_nr X) (m_nc X) (fun r c => m_at X r c mod 65536).
Definition np_mul_ms (X : imat) (s : Z) : imat := mkM (m_err X) (m_nr X) (m_nc X) (fun r c => m_at X r c * s).
Definition np_ne_ms (X : imat) (s : Z) : bmat := mkB (m_err X) (m_nr X) (m_nc X) (fun r c => negb (m_at X r c =? s)).
Definition np_eq_ms (X : imat) (s : Z) : bmat := mkB (m_err X) (m_nr X) (m_nc X) (fun r c => m_at X r c =? s).
Definition np_and_mm (X Y : bmat) : bmat :=
  mkB (b_err X || b_err Y || negb (same_shape_bb X Y)) (b_nr X) (b_nc X) (fun r c => b_at X r c && b_at Y r c).
(* xr.where(C, a, b) / np.where(C, a, b) with two integers *)
Definition np_where_mss (C : bmat) (a b : Z) : imat := mkM (b_err C) (b_nr C) (b_nc C) (fun r c => if b_at C r c then a else b).
(* X += Y *)
Definition np_iadd_mm (X Y : imat) : imat :=
  mkM (m_err X || m_err Y || negb (same_shape_mm X Y)) (m_nr X) (m_nc X) (fun r c => m_at X r c + m_at Y r c).
(* X[np.where(M)] += c with a 2-D boolean M *)
Definition np_iadd_where (X : imat) (M : bmat) (c : Z) : imat :=
  mkM (m_err X || b_err M || negb (same_shape_mb X M)) (m_nr X) (m_nc X)
      (fun r j => if b_at M r j then m_at X r j + c else m_at X r j).

(* column index arrays: inside the axis, non-negative, distinct *)
Definition idx_cols_bad (ncols : Z) (idx : vec Z) : bool :=
  v_err idx || negb (forallb (fun j => (0 <=? j) && (j <? ncols)) (v_to_list idx)) || negb (nodupb (v_to_list idx)).
(* X[:, idx] += c *)
Definition np_cols_iadd_c (X : imat) (idx : vec Z) (c : Z) : imat :=
  mkM (m_err X || idx_cols_bad (m_nc X) idx) (m_nr X) (m_nc X)
      (fun r j => if vmem j idx then m_at X r j + c else m_at X r j).
(* X[:, idx] = c *)
Definition np_cols_set_c (X : imat) (idx : vec Z) (c : Z) : imat :=
  mkM (m_err X || idx_cols_bad (m_nc X) idx) (m_nr X) (m_nc X)
      (fun r j => if vmem j idx then c else m_at X r j).
(* Y[:, idx] *)
Definition np_cols (Y : imat) (idx : vec Z) : imat :=
  mkM (m_err Y || v_err idx || negb (forallb (fun j => (0 <=? j) && (j <? m_nc Y)) (v_to_list idx))) (m_nr Y) (v_len idx)
      (fun r k => m_at Y r (v_at idx k)).
Definition np_colsb (Y : bmat) (idx : vec Z) : bmat :=
  mkB (b_err Y || v_err idx || negb (forallb (fun j => (0 <=? j) && (j <? b_nc Y)) (v_to_list idx))) (b_nr Y) (v_len idx)
      (fun r k => b_at Y r (v_at idx k)).
(* X[:, idx] += Y  (Y has one column per index) *)
Definition np_cols_iadd_m (X : imat) (idx : vec Z) (Y : imat) : imat :=
  mkM (m_err X || idx_cols_bad (m_nc X) idx || m_err Y || negb (m_nr Y =? m_nr X) || negb (m_nc Y =? v_len idx)) (m_nr X) (m_nc X)
      (fun r j => match pos_of j (v_to_list idx) with
                  | Some k => m_at X r j + m_at Y r k
                  | None => m_at X r j
                  end).

(* np.where(B) of a 2-D boolean array: the positions, row-major *)
Definition np_where2 (B : bmat) : vec (Z * Z) :=
  let l := flat_map (fun r => map (fun c => (r, c)) (filter (b_at B r) (upto (b_nc B)))) (upto (b_nr B)) in
  let r := v_of_list2 l in mkV (b_err B) (v_len r) (v_at r).
Definition in_mat (X : imat) (p : Z * Z) : bool := (0 <=? fst p) && (fst p <? m_nr X) && (0 <=? snd p) && (snd p <? m_nc X).
(* X[ys, xs] *)
Definition np_take2 (X : imat) (idx : vec (Z * Z)) : vec Z :=
  mkV (m_err X || v_err idx || negb (forallb (in_mat X) (v_to_list idx))) (v_len idx)
      (fun k => m_at X (fst (v_at idx k)) (snd (v_at idx k))).
(* X[ys, xs] = V *)
Definition np_put2 (X : imat) (idx : vec (Z * Z)) (V : vec Z) : imat :=
  mkM (m_err X || v_err idx || v_err V || negb (v_len idx =? v_len V) || negb (forallb (in_mat X) (v_to_list idx))
       || negb (nodupb2 (v_to_list idx))) (m_nr X) (m_nc X)
      (fun r c => match pos_of2 (r, c) (v_to_list idx) with
                  | Some k => v_at V k
                  | None => m_at X r c
                  end).

(* slices *)
Definition sl_bound (n : Z) (dflt : Z) (o : option Z) : Z :=
  match o with
  | None => dflt
  | Some s => if s <? 0 then Z.max 0 (n + s) else Z.min s n
  end.
Definition in_slice (n : Z) (lo hi : option Z) (x : Z) : bool := (sl_bound n 0 lo <=? x) && (x <? sl_bound n n hi).
(* X[rlo:rhi, clo:chi] = c *)
Definition np_setslice2_c (X : imat) (rlo rhi clo chi : option Z) (c : Z) : imat :=
  mkM (m_err X) (m_nr X) (m_nc X)
      (fun r j => if in_slice (m_nr X) rlo rhi r && in_slice (m_nc X) clo chi j then c else m_at X r j).

(* np.isnan of the cost volume; np.min(axis=2) of a boolean volume *)
Definition np_isnan3 (Q : cube) : cube := Q.
Definition np_min_axis2 (Q : cube) : bmat :=
  mkB (q_err Q || (q_nd Q <=? 0)) (q_nr Q) (q_nc Q) (fun r c => forallb (q_nan Q r c) (upto (q_nd Q))).

(* scipy.ndimage.binary_dilation(A, structure=np.ones((a, b)), iterations=1) *)
Definition scipy_binary_dilation_ones (A : bmat) (a b : Z) : bmat :=
  mkB (b_err A || negb (Z.odd a) || negb (Z.odd b) || (a <? 1) || (b <? 1)) (b_nr A) (b_nc A)
      (fun r c => existsb (fun i => existsb (fun j => b_at A i j)
                                           (irange (Z.max 0 (c - (b - 1) / 2)) (Z.min (b_nc A - 1) (c + (b - 1) / 2))))
                          (irange (Z.max 0 (r - (a - 1) / 2)) (Z.min (b_nr A - 1) (r + (a - 1) / 2)))).

(* ---------------------------------------------------------------- the datasets, as criteria.py reads them *)
(* an image dataset: "msk" in data_vars, img["msk"].data with its row / col coordinates, the two attributes *)
Record imgrec : Type := mkImg {
  i_has_msk : bool; i_msk : imat; i_row : vec Z; i_col : vec Z; i_no_data_mask : Z; i_valid_pixels : Z }.
(* a cost-volume dataset: coords row / col, first and last value of coords disp (integers), attrs offset_row_col and
   window_size, the NaN pattern of cost_volume *)
Record cvrec : Type := mkCv {
  cv_row : vec Z; cv_col : vec Z; cv_disp_first : Z; cv_disp_last : Z; cv_offset : Z; cv_window_size : Z;
  cv_cost_volume : cube }.
Definition cv_size_row (cv : cvrec) : Z := v_len (cv_row cv).
Definition cv_size_col (cv : cvrec) : Z := v_len (cv_col cv).

Definition veqb (a b : vec Z) : bool :=
  negb (v_err a) && negb (v_err b) && (v_len a =? v_len b) && forallb (fun k => v_at a k =? v_at b k) (upto (v_len a)).
(* _, r = xr.align(cv["validity_mask"], img["msk"]): inner join on the coordinate labels; modelled when the two
   datasets carry the same row / col coordinates (then r is img["msk"]), an error otherwise *)
Definition xr_align_snd (cv : cvrec) (img : imgrec) : imat :=
  let X := i_msk img in
  mkM (m_err X || negb (veqb (cv_row cv) (i_row img)) || negb (veqb (cv_col cv) (i_col img))
       || negb (m_nr X =? v_len (i_row img)) || negb (m_nc X =? v_len (i_col img))) (m_nr X) (m_nc X) (m_at X).
