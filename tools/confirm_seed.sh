#!/bin/bash
# confirm_seed.sh <patch.diff> <demo.py> : in a scratch worktree of /repo, confirm that
#  (1) the demo passes without the change, (2) the change applies, the test-suite result is unchanged
#  (351 pass, the 5 baseline failures), (3) the demo fails with the change.  Removes the worktree afterwards.
set -u
patch=$(readlink -f "$1"); demo=$(readlink -f "$2")
w=$(mktemp -d /tmp/confirm.XXXXXX); rmdir "$w"
git -C /repo worktree add -q --detach "$w" HEAD || exit 2
trap 'git -C /repo worktree remove --force "$w"; rm -rf "$w.cache"' EXIT
export PYTHONPATH="$w" NUMBA_CACHE_DIR="$w.cache" PYTHONHASHSEED=0
cd "$w"
/venv/bin/python -W ignore "$demo" >/dev/null 2>&1; r0=$?
git apply "$patch" || { echo "RESULT apply=FAILED"; exit 2; }
/venv/bin/python -W ignore "$demo" > "$w.cache.demo" 2>&1; r1=$?
suite=$(/venv/bin/python -m pytest -q -p no:cacheprovider --timeout=900 -n ${JOBS:-8} tests 2>&1 | tail -1)
echo "RESULT demo_without=$r0 demo_with=$r1 suite='$suite'"
tail -3 "$w.cache.demo" | grep -v WARNING | cut -c1-300; rm -f "$w.cache.demo"
