#!/venv/bin/python
"""Rewrites the table at the end of DESIGN.md section 9 from seeded/*/meta.json."""
import subprocess
p = "/verif/DESIGN.md"
s = open(p).read()
i = s.index("| seed | change (first line of the author's notes)")
table = subprocess.run(["/verif/tools/seed_table.py"], capture_output=True, text=True).stdout
open(p, "w").write(s[:i] + table)
print("table rewritten:", table.count("\n") - 2, "rows")
