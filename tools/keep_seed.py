#!/venv/bin/python
"""keep_seed.py <P> <k> : store /tmp/s/<P>/out/{patch,demo,notes}<k> as /verif/seeded/<P>-<k>/ with meta.json
built from the confirmation and trial logs in /tmp/seedlog (written by tools/confirm_seed.sh and tools/try_seed.sh)."""
import json, os, re, shutil, sys
P, k = sys.argv[1], sys.argv[2]
sid = sys.argv[3] if len(sys.argv) > 3 else k      # stored id (third round: files 1,2 are stored as 3,4)
src = f"/tmp/s/{P}/out"; dst = f"/verif/seeded/{P}-{sid}"
os.makedirs(dst, exist_ok=True)
shutil.copy(f"{src}/patch{k}.diff", f"{dst}/patch.diff")
shutil.copy(f"{src}/demo{k}.py", f"{dst}/demo.py")
notes = open(f"{src}/notes{k}.md").read() if os.path.exists(f"{src}/notes{k}.md") else ""
open(f"{dst}/notes.md", "w").write(notes)
log = open(f"/tmp/seedlog/{P}_{sid}.log").read()
m = re.search(r"RESULT demo_without=(\d+) demo_with=(\d+) suite='([^']*)'", log)
checks = {}
for blk in re.split(r"^== ", log, flags=re.M)[1:]:
    pid = blk.split()[0]
    viol = re.findall(r"^VIOLATION .*$", blk, re.M)
    rep = re.findall(r"^   replay: (.*)$", blk, re.M)
    nlc = re.findall(r"^   no longer checks: (.*)$", blk, re.M)
    summary = re.findall(r"^\[C\d\d\] .*$", blk, re.M)
    checks[pid] = {"caught": bool(viol), "violation_lines": [v[:200] for v in viol],
                   "concrete_input": any("no-failing-input-found" not in v for v in viol),
                   "replays": [r[:400] for r in rep], "no_longer_checks": nlc, "summary": summary[:1]}
meta = {
    "id": f"{P}-{sid}", "breaks_property": P,
    "needs_to_manifest": notes.strip()[:3000],
    "confirmed_by_me": {"cmd": f"tools/confirm_seed.sh seeded/{P}-{sid}/patch.diff seeded/{P}-{sid}/demo.py  (scratch worktree of /repo HEAD, removed afterwards)",
                        "demo_exit_without_change": int(m.group(1)) if m else None,
                        "demo_exit_with_change": int(m.group(2)) if m else None,
                        "test_suite_with_change": m.group(3) if m else None},
    "checks_run": {"cmd": f"tools/try_seed.sh seeded/{P}-{sid}/patch.diff " + " ".join(checks) + "  (git -C /repo apply; ./check <id> --tier quick; git -C /repo checkout -- .)",
                   "results": checks},
    "author": "fresh sub-agent given only the property text and a scratch worktree of /repo (nothing from /verif)",
}
json.dump(meta, open(f"{dst}/meta.json", "w"), indent=1)
print(dst, {p: c["caught"] for p, c in checks.items()})
