#!/venv/bin/python
"""retry_seed.py <id> [<prop>...] : re-run tools/try_seed.sh on a stored seed (after a check was strengthened)
and record the outcome as final_results (+ what changed) in seeded/<id>/meta.json."""
import json, re, subprocess, sys, time
sid = sys.argv[1]
mp = f"/verif/seeded/{sid}/meta.json"
m = json.load(open(mp))
props = sys.argv[2:] or list(m["checks_run"]["results"])
log = subprocess.run(["/verif/tools/try_seed.sh", f"/verif/seeded/{sid}/patch.diff"] + props,
                     capture_output=True, text=True).stdout
checks = {}
for blk in re.split(r"^== ", log, flags=re.M)[1:]:
    pid = blk.split()[0]
    viol = re.findall(r"^VIOLATION .*$", blk, re.M)
    checks[pid] = {"caught": bool(viol), "violation_lines": [v[:200] for v in viol],
                   "concrete_input": any("no-failing-input-found" not in v for v in viol),
                   "replays": [r[:400] for r in re.findall(r"^   replay: (.*)$", blk, re.M)],
                   "no_longer_checks": re.findall(r"^   no longer checks: (.*)$", blk, re.M),
                   "summary": re.findall(r"^\[C\d\d\] .*$", blk, re.M)[:1]}
m["final_results"] = checks
m["final_run"] = {"cmd": f"tools/try_seed.sh seeded/{sid}/patch.diff " + " ".join(props),
                  "verif_commit": subprocess.run(["git", "-C", "/verif", "rev-parse", "--short", "HEAD"], capture_output=True, text=True).stdout.strip(),
                  "repo_commit": subprocess.run(["git", "-C", "/repo", "rev-parse", "--short", "HEAD"], capture_output=True, text=True).stdout.strip(),
                  "at": time.strftime("%Y-%m-%d %H:%M")}
json.dump(m, open(mp, "w"), indent=1)
print(sid, {p: (c["caught"], c["concrete_input"]) for p, c in checks.items()})
