#!/venv/bin/python
"""Prints the markdown table of /verif/seeded/*/meta.json for DESIGN.md section 9."""
import glob, json, os
rows = []
for d in sorted(glob.glob("/verif/seeded/*/meta.json")):
    m = json.load(open(d))
    sid = m["id"]
    first = m["checks_run"]["results"]
    final = m.get("final_results", first)
    def fmt(res):
        out = []
        for p, c in sorted(res.items()):
            if c["caught"]:
                keys = []
                for r in c["replays"]:
                    w = r.split()
                    if w and w[0] == "failing-input" and len(w) > 1: keys.append(w[1])
                out.append(f"{p}: caught, " + ("concrete input (" + ", ".join(dict.fromkeys(keys))[:120] + ")" if c["concrete_input"] else "no-failing-input-found: " + "; ".join(c["no_longer_checks"])[:120]))
            else:
                out.append(f"{p}: MISSED")
        return "; ".join(out)
    what = (m.get("summary") or m["needs_to_manifest"].split("\n")[0])[:160].replace("|", "/")
    last = fmt(final) if 'final_results' in m else 'same'
    if m.get("status_after_repair"):
        last = "neutralised by fix 3babd1e (demo passes with the change); before that fix: caught (machine_history_step_order)"
    rows.append(f"| {sid} | {what} | {fmt(first)} | {last} |")
print("| seed | change (first line of the author's notes) | first run of the quick check | after strengthening |")
print("|---|---|---|---|")
print("\n".join(rows))
