#!/bin/bash
# try_seed.sh <patch.diff> <prop> [<prop>...] : apply the change to /repo, run the quick checks, undo it.
set -u
patch=$(readlink -f "$1"); shift
[ -z "$(git -C /repo status --porcelain)" ] || { echo "/repo not clean"; exit 2; }
git -C /repo apply "$patch" || exit 2
ev=$(mktemp -d /tmp/ev.XXXXXX); cp -a /verif/evidence/. $ev/
trap 'git -C /repo checkout -- .; cp -a $ev/. /verif/evidence/; rm -rf $ev' EXIT
cd /verif
for p in "$@"; do
  out=$(./check "$p" --tier "${TIER:-quick}" 2>&1 | grep -v "WARNING conda"); rc=$?
  echo "== $p exit=$(echo "$out" | grep -c '^VIOLATION' | sed 's/^0$/0 (no VIOLATION)/')"
  echo "$out" | grep -E "^VIOLATION|^KNOWN-FINDING|^\[" | cut -c1-400
  for r in $(echo "$out" | grep '^VIOLATION' | sed 's/.*replay=\([^ ]*\).*/\1/'); do
    /venv/bin/python - "$r" <<'P'
import json,sys
d=json.load(open(sys.argv[1]))
print("   replay:", d.get("kind"), d.get("key"), str(d.get("what"))[:300])
if d.get("kind")=="no-failing-input-found": print("   no longer checks:", [b["name"] for b in d.get("no_longer_checks",[])][:6])
P
  done
done
