"""T-gen: coq/Gen/Prange.v -- the array accesses of every numba `prange` loop of Pandora.

Every function of pandora/**/*.py decorated with @njit(..., parallel=...) is read with Python
`ast`.  For every `for v in prange(n)` loop (outer AND inner: each one declares its iterations
independent) the translator lists, for the arrays the body stores into and that are not private
to the body,
    (array, store/load, shape of every index component, class of the stored value)
plus the names assigned in the body that are also bound outside it (shared scalars /
accumulators) and the numpy reductions of the function that sit outside any prange (numba may
evaluate those in parallel too).  Model/Prange.v gives the meaning; Props/C18.v re-proves
`forallb race_free_b prange_nests = true` on every run.

Fail-closed: shapes the translator does not know raise TranslationError (file:line)."""
import ast
import glob
import os
import sys

from common import emit, fail, sha1_of, REPO

# attributes of an array whose use is neither a read nor a write of its cells
SHAPE_ATTRS = {"shape", "dtype", "size", "ndim"}
# methods that return a view of the receiver (aliasing is kept), resp. a fresh array
VIEW_METHODS = {"reshape", "ravel", "view", "transpose", "swapaxes"}
COPY_METHODS = {"copy", "flatten", "astype", "sum", "any", "all", "cumsum", "min", "max", "mean"}
REDUCTIONS = {"sum", "nansum", "mean", "nanmean", "prod", "nanprod", "std", "nanstd", "var", "nanvar", "cumsum",
              "min", "max", "nanmin", "nanmax", "any", "all", "dot", "median", "nanmedian", "nanquantile",
              "quantile", "percentile", "nanpercentile", "argwhere"}


def q(s):
    return '"' + s.replace('"', "'") + '"'


def is_prange_loop(node):
    return (isinstance(node, ast.For) and isinstance(node.iter, ast.Call) and isinstance(node.iter.func, ast.Name)
            and node.iter.func.id == "prange")


def parallel_kw(fn):
    """(is njit, has parallel keyword, keyword is the PANDORA_NUMBA_PARALLEL switch)"""
    for dec in fn.decorator_list:
        if isinstance(dec, ast.Call) and isinstance(dec.func, ast.Name) and dec.func.id in ("njit", "jit"):
            for kw in dec.keywords:
                if kw.arg == "parallel":
                    src = ast.dump(kw.value)
                    switch = "PANDORA_NUMBA_PARALLEL" in src and "literal_eval" in src
                    if not switch and not (isinstance(kw.value, ast.Constant) and isinstance(kw.value.value, bool)):
                        return True, True, None
                    if isinstance(kw.value, ast.Constant) and kw.value.value is False:
                        return True, False, False
                    return True, True, switch
            return True, False, False
        if isinstance(dec, ast.Name) and dec.id in ("njit", "jit"):
            return True, False, False
    return False, False, False


def bound_names(stmts):
    """names bound (assigned, loop targets, augmented) anywhere in a list of statements"""
    out = set()
    for st in stmts:
        for n in ast.walk(st):
            if isinstance(n, ast.Name) and isinstance(n.ctx, ast.Store):
                out.add(n.id)
            if isinstance(n, ast.AugAssign) and isinstance(n.target, ast.Name):
                out.add(n.target.id)
    return out


class Nest:
    def __init__(self, where, fn_name, loop, fn, switch, outer_bound):
        self.where = where
        self.fn_name = fn_name
        self.loop = loop
        self.fn = fn
        self.switch = switch
        if not isinstance(loop.target, ast.Name):
            fail(f"{where}:{loop.lineno}", "prange target is not a simple name")
        if len(loop.iter.args) != 1 or loop.iter.keywords:
            fail(f"{where}:{loop.lineno}", "prange with start/stop/step is not supported")
        if loop.orelse:
            fail(f"{where}:{loop.lineno}", "prange loop with else clause")
        self.var = loop.target.id
        self.body_bound = bound_names(loop.body)
        if self.var in self.body_bound:
            fail(f"{where}:{loop.lineno}", f"the prange variable {self.var} is rebound inside its loop body")
        # names bound in the function outside this loop body (parameters included)
        self.outer_bound = outer_bound
        self.alias = {}      # body-local name -> set of non-local arrays it may alias
        self.accs = []       # (arr, store, [ixc text], vclass text, lineno)
        self.read_only_tables = None
        self.top_alias = {}

    # -- aliasing of body-local names
    def alias_of(self, e):
        if isinstance(e, ast.Name):
            if e.id in self.alias:
                return set(self.alias[e.id])
            if e.id in self.body_bound:
                return set()          # a body-local scalar / fresh array not seen yet
            return {e.id}
        if isinstance(e, ast.Subscript):
            return self.alias_of(e.value)
        if isinstance(e, ast.Attribute):
            if e.attr in SHAPE_ATTRS:
                return set()
            if e.attr == "T":
                return self.alias_of(e.value)
            return set()
        if isinstance(e, ast.Call):
            f = e.func
            if isinstance(f, ast.Attribute) and f.attr in VIEW_METHODS:
                return self.alias_of(f.value)
            return set()
        if isinstance(e, (ast.Tuple, ast.List)):
            out = set()
            for x in e.elts:
                out |= self.alias_of(x)
            return out
        if isinstance(e, ast.IfExp):
            return self.alias_of(e.body) | self.alias_of(e.orelse)
        return set()

    def bind(self, target, value):
        if isinstance(target, ast.Name):
            self.alias[target.id] = self.alias_of(value) if value is not None else set()
        elif isinstance(target, (ast.Tuple, ast.List)):
            vals = value.elts if isinstance(value, (ast.Tuple, ast.List)) and len(value.elts) == len(target.elts) else None
            for k, t in enumerate(target.elts):
                self.bind(t, vals[k] if vals else None)

    # -- index components
    def names_in(self, e):
        return {n.id for n in ast.walk(e) if isinstance(n, ast.Name)}

    def is_ind(self, e):
        """built from the loop variable only through read-only tables: T[v, c] (+/- const), slices of those"""
        if isinstance(e, ast.Slice):
            parts = [x for x in (e.lower, e.upper, e.step) if x is not None]
            return bool(parts) and all(self.is_ind(x) or isinstance(x, ast.Constant) for x in parts) and any(
                self.is_ind(x) for x in parts)
        if isinstance(e, ast.BinOp) and isinstance(e.op, (ast.Add, ast.Sub)):
            a, b = e.left, e.right
            return (self.is_ind(a) and isinstance(b, ast.Constant)) or (self.is_ind(b) and isinstance(a, ast.Constant))
        if isinstance(e, ast.Subscript) and isinstance(e.value, ast.Name) and e.value.id in self.read_only_tables:
            idx = e.slice.elts if isinstance(e.slice, ast.Tuple) else [e.slice]
            return (len(idx) >= 1 and isinstance(idx[0], ast.Name) and idx[0].id == self.var
                    and all(isinstance(x, ast.Constant) for x in idx[1:]))
        return False

    def ixc(self, e):
        if isinstance(e, ast.Name):
            return f"IVar {q(e.id)}"
        if isinstance(e, ast.Constant) and isinstance(e.value, int) and not isinstance(e.value, bool):
            return f"IConstZ ({e.value})"
        if self.is_ind(e):
            return f"IInd {q(self.var)}"
        if isinstance(e, ast.Slice):
            return "ISlice"
        return "IOther"

    def idx_of(self, sub):
        s = sub.slice
        elts = s.elts if isinstance(s, ast.Tuple) else [s]
        return [self.ixc(x) for x in elts]

    def vclass(self, value):
        if value is None:
            return "VOther"
        if isinstance(value, ast.Constant) and isinstance(value.value, (bool, int)):
            return f"VConst ({int(value.value)})"
        return "VOther"

    # -- stores
    def store(self, target, value, lineno):
        if isinstance(target, ast.Name):
            return
        if isinstance(target, (ast.Tuple, ast.List)):
            for t in target.elts:
                self.store(t, None, lineno)
            return
        if isinstance(target, ast.Subscript):
            base = target.value
            if isinstance(base, ast.Name):
                if base.id in self.alias:           # store through a body-local name
                    for a in sorted(self.alias[base.id]):
                        self.accs.append((a, True, ["IOther"], "VOther", lineno))   # through a view: position unknown
                    return
                if base.id in self.body_bound:
                    fail(f"{self.where}:{lineno}", f"store into body-local {base.id} before its definition")
                self.accs.append((base.id, True, self.idx_of(target), self.vclass(value), lineno))
                return
            bases = self.alias_of(base)
            if not bases:
                fail(f"{self.where}:{lineno}", f"store through an unknown expression {ast.dump(base)[:80]}")
            for a in sorted(bases):
                self.accs.append((a, True, ["IOther"], "VOther", lineno))
            return
        if isinstance(target, ast.Attribute):
            fail(f"{self.where}:{lineno}", "store into an attribute inside a prange body")
        fail(f"{self.where}:{lineno}", f"unknown store target {type(target).__name__}")

    # -- loads (of everything; filtered to stored arrays at the end)
    def loads(self, e, lineno):
        """record Subscript loads A[...] with A a non-local name, and bare uses of A"""
        if e is None:
            return
        if isinstance(e, ast.Subscript):
            if isinstance(e.value, ast.Name):
                nm = e.value.id
                if nm not in self.alias and nm not in self.body_bound:
                    self.accs.append((nm, False, self.idx_of(e), "VLoad", lineno))
                elif nm in self.alias:
                    for a in sorted(self.alias[nm]):
                        self.accs.append((a, False, ["IOther"], "VLoad", lineno))
                self.loads(e.slice, lineno)
                return
            self.loads(e.value, lineno)
            self.loads(e.slice, lineno)
            return
        if isinstance(e, ast.Attribute):
            if isinstance(e.value, ast.Name) and e.attr in SHAPE_ATTRS:
                return
            self.loads(e.value, lineno)
            return
        if isinstance(e, ast.Name):
            if isinstance(e.ctx, ast.Load) and e.id not in self.body_bound and e.id != self.var:
                self.accs.append((e.id, False, [], "VLoad", lineno))       # the whole array (or a scalar)
            elif e.id in self.alias:
                for a in sorted(self.alias[e.id]):
                    self.accs.append((a, False, ["IOther"], "VLoad", lineno))
            return
        for ch in ast.iter_child_nodes(e):
            self.loads(ch, lineno)

    def visit(self, stmts):
        for st in stmts:
            ln = getattr(st, "lineno", 0)
            if isinstance(st, ast.Expr):
                if isinstance(st.value, ast.Constant):
                    continue
                self.loads(st.value, ln)
            elif isinstance(st, ast.Assign):
                self.loads(st.value, ln)
                for t in st.targets:
                    if isinstance(t, ast.Subscript):
                        self.loads(t.slice, ln)
                    self.store(t, st.value, ln)
                    self.bind(t, st.value)
            elif isinstance(st, ast.AugAssign):
                self.loads(st.value, ln)
                if isinstance(st.target, ast.Subscript):
                    self.loads(st.target, ln)          # x[i] += e reads x[i]
                    self.store(st.target, None, ln)
                elif not isinstance(st.target, ast.Name):
                    fail(f"{self.where}:{ln}", "augmented assignment to an unknown target")
            elif isinstance(st, ast.AnnAssign):
                fail(f"{self.where}:{ln}", "annotated assignment in a prange body")
            elif isinstance(st, ast.If):
                self.loads(st.test, ln)
                self.visit(st.body)
                self.visit(st.orelse)
            elif isinstance(st, (ast.For, ast.While)):
                if isinstance(st, ast.For):
                    self.loads(st.iter, ln)
                    self.bind(st.target, None)
                else:
                    self.loads(st.test, ln)
                self.visit(st.body)
                self.visit(st.orelse)
            elif isinstance(st, (ast.Continue, ast.Break, ast.Pass)):
                continue
            else:
                fail(f"{self.where}:{ln}", f"statement {type(st).__name__} in a prange body")

    def result(self):
        self.visit(self.loop.body)
        # names bound outside the loop to a view of another array: an access through the name is also an access
        # (at an unknown position) of the array it may alias
        extra = []
        for arr, st, idx, vc, ln in self.accs:
            for base in sorted(self.top_alias.get(arr, ())):
                extra.append((base, st, ["IOther"], "VOther" if st else "VLoad", ln))
        self.accs += extra
        stored = {a for a, s, _, _, _ in self.accs if s}
        accs = [x for x in self.accs if x[0] in stored]
        carried = sorted((self.body_bound & self.outer_bound) - {self.var})
        return accs, carried


def function_nests(path, rel, cls, fn, switch):
    where = rel
    fn_name = (cls + "." if cls else "") + fn.name
    params = {a.arg for a in fn.args.args + fn.args.kwonlyargs + fn.args.posonlyargs}
    if fn.args.vararg or fn.args.kwarg:
        fail(f"{where}:{fn.lineno}", "*args in a parallel kernel")
    # arrays never stored into anywhere in the function (candidates for read-only index tables)
    stored_anywhere = set()
    for n in ast.walk(fn):
        if isinstance(n, ast.Subscript) and isinstance(n.ctx, ast.Store) and isinstance(n.value, ast.Name):
            stored_anywhere.add(n.value.id)
        if isinstance(n, ast.AugAssign) and isinstance(n.target, ast.Subscript) and isinstance(n.target.value, ast.Name):
            stored_anywhere.add(n.target.value.id)
    all_bound = bound_names(fn.body)
    rebound_params = params & all_bound
    read_only_tables = params - stored_anywhere - rebound_params
    # reductions outside any prange loop
    reductions = []

    def scan_top(stmts):
        for st in stmts:
            if is_prange_loop(st):
                continue
            for n in ast.iter_child_nodes(st):
                pass
            sub_stmts = []
            if isinstance(st, (ast.If, ast.For, ast.While)):
                sub_stmts = st.body + st.orelse
                exprs = [st.test] if isinstance(st, (ast.If, ast.While)) else [st.iter]
            else:
                exprs = [st]
            for e in exprs:
                for n in ast.walk(e):
                    if isinstance(n, ast.Call) and isinstance(n.func, ast.Attribute) and n.func.attr in REDUCTIONS:
                        reductions.append(n.func.attr)
            scan_top(sub_stmts)

    scan_top(fn.body)
    # aliases created outside the prange loops:  x = y, x = y[...], x = y.T, x = y.reshape(..)
    top_alias = {}

    def alias_top(e):
        if isinstance(e, ast.Name):
            return {e.id} | top_alias.get(e.id, set())
        if isinstance(e, ast.Subscript):
            return alias_top(e.value)
        if isinstance(e, ast.Attribute):
            return alias_top(e.value) if e.attr == "T" else set()
        if isinstance(e, ast.Call) and isinstance(e.func, ast.Attribute) and e.func.attr in VIEW_METHODS:
            return alias_top(e.func.value)
        if isinstance(e, ast.IfExp):
            return alias_top(e.body) | alias_top(e.orelse)
        return set()

    def scan_alias(stmts):
        for st in stmts:
            if is_prange_loop(st):
                continue
            if isinstance(st, ast.Assign):
                for t in st.targets:
                    if isinstance(t, ast.Name):
                        a = alias_top(st.value)
                        if a:
                            top_alias[t.id] = top_alias.get(t.id, set()) | a
                    elif isinstance(t, (ast.Tuple, ast.List)) and isinstance(st.value, (ast.Tuple, ast.List)) \
                            and len(t.elts) == len(st.value.elts):
                        for tt, vv in zip(t.elts, st.value.elts):
                            if isinstance(tt, ast.Name) and alias_top(vv):
                                top_alias[tt.id] = top_alias.get(tt.id, set()) | alias_top(vv)
            for fld in ("body", "orelse"):
                sub = getattr(st, fld, None)
                if isinstance(sub, list) and sub and isinstance(sub[0], ast.stmt):
                    scan_alias(sub)

    scan_alias(fn.body)
    # symmetric closure: if x aliases y, an access of y is also an access of x
    for x, ys in list(top_alias.items()):
        for y in ys:
            top_alias.setdefault(y, set()).add(x)
    nests = []

    def find(stmts, enclosing_body_bound):
        for st in stmts:
            if is_prange_loop(st):
                # names bound outside this loop's body = everything bound in the function minus what is bound
                # ONLY inside this body; computed by removing the body and re-collecting
                body = st.body
                st.body = []
                try:
                    outer = bound_names(fn.body) | params
                finally:
                    st.body = body
                n = Nest(where, fn_name, st, fn, switch, outer)
                n.read_only_tables = read_only_tables - set(top_alias)
                n.top_alias = top_alias
                accs, carried = n.result()
                nests.append((st.lineno, n.var, accs, carried))
                find(st.body, None)
            else:
                for fld in ("body", "orelse"):
                    sub = getattr(st, fld, None)
                    if isinstance(sub, list) and sub and isinstance(sub[0], ast.stmt):
                        if isinstance(st, (ast.FunctionDef, ast.ClassDef, ast.Lambda)):
                            fail(f"{where}:{st.lineno}", "nested definition in a parallel kernel")
                        find(sub, None)
                if isinstance(st, (ast.With, ast.Try)):
                    fail(f"{where}:{st.lineno}", f"{type(st).__name__} in a parallel kernel")

    find(fn.body, None)
    return fn_name, nests, sorted(set(reductions))


ORDER_FREE = {"nanmin", "nanmax", "min", "max", "any", "all", "argwhere"}


def diagnose(items):
    """Readable hints for a human when the Coq obligation race_free_b fails.  NOT trusted, NOT used by the proof:
    a re-implementation of Model/Prange.v rule_of in Python, only to name the loop and the array."""
    out = []
    for rel, fn_name, ln, var, _switch, accs, carried, reds in items:
        for c in carried:
            out.append(f"{rel}:{ln} {fn_name}: scalar '{c}' is carried across iterations of '{var}'")
        for r in reds:
            if r not in ORDER_FREE:
                out.append(f"{rel} {fn_name}: order-dependent reduction '{r}' in a parallel function")
        for arr in sorted({a for a, st, _, _, _ in accs if st}):
            mine = [x for x in accs if x[0] == arr]
            rank = max(len(x[2]) for x in mine)
            pos = any(all(len(x[2]) > p and x[2][p] == f"IVar {q(var)}" for x in mine) for p in range(rank))
            const = all(x[1] and x[3].startswith("VConst") and x[3] == mine[0][3] for x in mine)
            ind = all(x[1] and x[2] and all(c == f"IInd {q(var)}" for c in x[2]) for x in mine)
            if not (pos or const or ind):
                lines = sorted({x[4] for x in mine})
                out.append(f"{rel}:{ln} {fn_name}: array '{arr}' has no index position holding '{var}' in all its "
                           f"accesses (lines {lines})")
    return out


def main():
    root = os.path.join(REPO, "pandora")
    files = sorted(glob.glob(os.path.join(root, "**", "*.py"), recursive=True))
    if not files:
        fail(root, "no source files")
    sources = []
    items = []
    n_kernels = 0
    for path in files:
        text = open(path).read()
        if "prange" not in text and "parallel" not in text:
            continue
        rel = os.path.relpath(path, REPO)
        tree = ast.parse(text)
        fns = []
        for node in tree.body:
            if isinstance(node, ast.FunctionDef):
                fns.append((None, node))
            elif isinstance(node, ast.ClassDef):
                for sub in node.body:
                    if isinstance(sub, ast.FunctionDef):
                        fns.append((node.name, sub))
        for cls, fn in fns:
            is_njit, has_par, switch = parallel_kw(fn)
            uses_prange = any(is_prange_loop(n) for n in ast.walk(fn))
            if has_par and switch is None:
                fail(f"{rel}:{fn.lineno}", "parallel= is neither a literal nor the PANDORA_NUMBA_PARALLEL switch")
            if uses_prange and not is_njit:
                fail(f"{rel}:{fn.lineno}", "prange outside an njit function")
            if not (has_par or uses_prange):
                continue
            seg = ast.get_source_segment(text, fn) or ""
            fn_name, nests, reds = function_nests(path, rel, cls, fn, bool(switch))
            n_kernels += 1
            sources.append((path, f"{fn_name} lines {fn.lineno}-{fn.end_lineno}", sha1_of(seg)))
            if has_par and not nests:
                # a parallel=True function without prange: only its array reductions matter
                items.append((rel, fn_name, fn.lineno, "", bool(switch), [], [], reds))
            for ln, var, accs, carried in nests:
                items.append((rel, fn_name, ln, var, bool(switch), accs, carried, reds))
    if not items:
        fail(root, "no @njit(parallel=...) function found")
    body = ("From Coq Require Import ZArith List String.\nFrom Pandora Require Import Model.Prange.\n"
            "Import ListNotations.\nOpen Scope string_scope.\nOpen Scope Z_scope.\n\n"
            "Definition prange_nests : list nest := [\n")
    chunks = []
    for rel, fn_name, ln, var, switch, accs, carried, reds in items:
        al = []
        for arr, st, idx, vc, aln in accs:
            al.append(f"      mkAcc {q(arr)} {'true' if st else 'false'} [{'; '.join(idx)}] ({vc}) (* line {aln} *)")
        chunks.append(
            f"  (* {rel} *)\n  mkNest {q(fn_name)} {ln} {q(var)} {'true' if switch else 'false'}\n    [\n"
            + ";\n".join(al) + "\n    ]\n"
            + f"    [{'; '.join(q(c) for c in carried)}]\n    [{'; '.join(q(r) for r in reds)}]")
    body += ";\n".join(chunks) + "\n].\n"
    _, changed = emit("Prange", body, sources)
    diag = diagnose(items)
    print(f"Gen/Prange.v {'written' if changed else 'unchanged'}: {n_kernels} parallel kernels, {len(items)} prange loops, "
          f"{sum(len(i[5]) for i in items)} accesses" + ("; DIAGNOSTIC (not part of the proof) suspicious: " + "; ".join(diag)
                                                              if diag else ""))


if __name__ == "__main__":
    try:
        main()
    except Exception as exc:  # fail closed
        print(f"TranslationError: {exc}")
        sys.exit(3)
