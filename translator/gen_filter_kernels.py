"""T-gen for C10: what the filters APPLY to each chunk and around the block loops  ->  coq/Gen/FilterKernels.v

    pandora/filter/bilateral.py   BilateralFilter.normalized_gaussian, gauss_spatial_kernel, bilateral_kernel,
                                  filter_bilateral, filter_disparity
    pandora/filter/median.py      MedianFilter.median_filter, filter_disparity
    pandora/filter/median_for_intervals.py  MedianForIntervalsFilter.filter_disparity
    pandora/common.py             sliding_window   (tuples are lists of integers; strides in ELEMENTS, see Lib/NpNd.v)

Python `ast` only (pandora is not imported), fail closed.  The functions are vectorised numpy code; each statement is
mapped, one construct at a time, to a `let` over the numpy combinators of coq/Lib/NpNd.v (which carry ALL the meaning:
broadcasting, transposition, basic indexing, nansum over axes (2, 3), NaN propagation, boolean-mask assignment) and of
coq/Model/FiltersNp.v (np.nanmedian, the dataset record).  The translator only
  * types the names (Z int / Q float / F float array / B boolean array / M integer array / DS dataset) from the
    annotations of the parameters, the `self._x` table below and the operations;
  * turns `x = e` into `let x := e in` (a name may be re-bound: shadowing), `a, b = x.shape` into two lets,
    `if c: return e` into `if c then e else ...`, `a[m] = v` on a FRESH array (np.copy / .copy(deep=True).data) into a
    re-binding of a to np_setitem_mask a m v -- a store into anything that is not fresh is refused (aliasing);
  * replaces the double block loop (whose bookkeeping is transliterated by gen_block_loops.py into Gen/BlockLoops.v) by
    ONE call of a hole `h_block_loop (fun <inner chunk> => <the expression written by the loop>) <array that is split>
    <array that is written>`; the expression is translated like any other, the names in it resolved where the loop
    stands;  calls of self.median_filter / self.filter_bilateral / interval_regularization are holes too (parameters of
    the generated definition), calls of the translated functions are calls of the generated definitions;
  * exp / sqrt / pi never reach Coq as numbers: self.normalized_gaussian(X, s) on a float array is np_gauss (ng s) X with
    ng DATA (a parameter); gauss_spatial_kernel must be `arr = np.zeros((k, k)); for [i, j], val in np.ndenumerate(arr):
    arr[i, j] = np.sqrt(<integer expression E of i, j, k>); return self.normalized_gaussian(arr, sigma)` and becomes the
    table (i, j) |-> ngs sigma E with ngs DATA (the Gaussian of the square root of an integer); E is code.  The body of
    normalized_gaussian itself is emitted as a formula tree (obligation: it is the canonical Gaussian).
Anything else: TranslationError naming file:line."""
import ast
import fractions
import os
import sys

from common import REPO, emit, fail, sha1_of

BIL = "pandora/filter/bilateral.py"
MED = "pandora/filter/median.py"
MFI = "pandora/filter/median_for_intervals.py"

SELF_ATTRS = {"_filter_size": ("filter_size", "Z"), "_sigma_space": ("sigma_space", "Q"), "_sigma_color": ("sigma_color", "Q"),
              "_regularization": ("regularization", "BOOL")}
ANNOT = {"int": "Z", "float": "Q", "np.ndarray": "F", "xr.Dataset": "DS", "Tuple[int, int]": "L"}
COQ_TYPE = {"Z": "Z", "Q": "Q", "F": "nd oq", "B": "nd bool", "M": "nd Z", "DS": "dataset", "BOOL": "bool", "L": "list Z"}
COMMON = "pandora/common.py"
KEYWORDS = {"in", "let", "if", "then", "else", "fun", "match", "end", "with", "as", "at", "return", "forall", "exists",
            "Type", "Prop", "Set", "fix", "cofix", "for", "where", "using"}


def dump(n):
    return ast.dump(n, annotate_fields=False, include_attributes=False)


def qlit(v):
    f = fractions.Fraction(v)
    return f"({f.numerator} # {f.denominator})%Q"


def is_np(node, name):
    return (isinstance(node, ast.Call) and isinstance(node.func, ast.Attribute) and node.func.attr == name
            and isinstance(node.func.value, ast.Name) and node.func.value.id == "np")


def is_self_call(node, name):
    return (isinstance(node, ast.Call) and isinstance(node.func, ast.Attribute) and node.func.attr == name
            and isinstance(node.func.value, ast.Name) and node.func.value.id == "self")


def const_str(node, s=None):
    return isinstance(node, ast.Constant) and isinstance(node.value, str) and (s is None or node.value == s)


def ds_item(node, ds, key):
    """<ds>["key"]"""
    return (isinstance(node, ast.Subscript) and isinstance(node.value, ast.Name) and node.value.id == ds
            and const_str(node.slice, key))


def deep_copy_data(node):
    """X.copy(deep=True).data -> X"""
    if (isinstance(node, ast.Attribute) and node.attr == "data" and isinstance(node.value, ast.Call)
            and isinstance(node.value.func, ast.Attribute) and node.value.func.attr == "copy" and not node.value.args
            and len(node.value.keywords) == 1 and node.value.keywords[0].arg == "deep"
            and isinstance(node.value.keywords[0].value, ast.Constant) and node.value.keywords[0].value.value is True):
        return node.value.func.value
    return None


class Module:
    def __init__(self, rel):
        self.rel = rel
        self.path = os.path.join(REPO, rel)
        with open(self.path) as f:
            self.src = f.read()
        self.tree = ast.parse(self.src)
        self.imports = {}     # local name -> dotted origin
        for n in self.tree.body:
            if isinstance(n, ast.Import):
                for a in n.names:
                    self.imports[a.asname or a.name] = a.name
            elif isinstance(n, ast.ImportFrom):
                for a in n.names:
                    self.imports[a.asname or a.name] = "." * n.level + (n.module or "") + ":" + a.name

    def method(self, cls, name):
        for n in self.tree.body:
            if isinstance(n, ast.ClassDef) and n.name == cls:
                for s in n.body:
                    if isinstance(s, ast.FunctionDef) and s.name == name:
                        return s
        fail(self.path, f"method {cls}.{name} not found")
        return None

    def function(self, name):
        for n in self.tree.body:
            if isinstance(n, ast.FunctionDef) and n.name == name:
                return n
        fail(self.path, f"function {name} not found at module level")
        return None

    def source_info(self, cls, fdef):
        seg = ast.get_source_segment(self.src, fdef) or ""
        return (self.path, f"{cls}.{fdef.name} lines {fdef.lineno}-{fdef.end_lineno}", sha1_of(seg))


class Tr:
    """one function -> nested lets"""

    def __init__(self, mod, fdef, ds_param=None):
        self.mod = mod
        self.fdef = fdef
        self.env = {}        # python name -> (coq name, type)
        self.fresh = set()   # names bound to freshly allocated arrays (stores allowed)
        self.deleted = set()
        self.holes = []      # (coq name, coq type) in order of first use
        self.data = []       # data parameters used: ng / ngs
        self.params = []
        self.ds = ds_param
        a = fdef.args
        if a.vararg or a.kwarg or a.kwonlyargs or a.posonlyargs:
            self.err(fdef, "unsupported signature")
        if fdef.decorator_list:
            self.err(fdef, f"decorated function (@{ast.unparse(fdef.decorator_list[0])}): the statements are read as plain numpy code")
        for n in ast.walk(fdef):
            if isinstance(n, (ast.Global, ast.Nonlocal, ast.Lambda, ast.Try, ast.While, ast.Yield, ast.YieldFrom)) or (
                    isinstance(n, (ast.FunctionDef, ast.ClassDef)) and n is not fdef):
                self.err(n, f"{type(n).__name__} inside a translated function")
        self.self_params = []

    def err(self, node, msg):
        fail(f"{self.mod.path}:{getattr(node, 'lineno', self.fdef.lineno)} ({self.fdef.name})", msg)

    # ------------------------------------------------------------ names
    def coq_name(self, name):
        n = name.rstrip("_") if name.endswith("_") else name
        n = "v_" + n
        return n

    def bind(self, name, typ):
        self.env[name] = (self.coq_name(name), typ)
        self.deleted.discard(name)
        return self.env[name][0]

    def use(self, node):
        name = node.id
        if name in self.deleted:
            self.err(node, f"{name} is used after `del`")
        if name not in self.env:
            self.err(node, f"name {name} is not bound (parameter without a known annotation, or unknown global)")
        return self.env[name]

    def hole(self, name, typ):
        if (name, typ) not in self.holes:
            self.holes.append((name, typ))
        return name

    def need(self, d):
        if d not in self.data:
            self.data.append(d)
        return d

    def self_attr(self, node):
        if (isinstance(node, ast.Attribute) and isinstance(node.value, ast.Name) and node.value.id == "self"
                and node.attr in SELF_ATTRS):
            nm, ty = SELF_ATTRS[node.attr]
            if (nm, ty) not in self.self_params:
                self.self_params.append((nm, ty))
            return "p_" + nm, ty
        return None

    # ------------------------------------------------------------ expressions
    def to_q(self, t):
        c, ty = t
        if ty == "Q":
            return c
        if ty == "Z":
            return f"(inject_Z {c})"
        return None

    def expr(self, e):
        """-> (coq text, type)"""
        if isinstance(e, ast.Constant):
            if type(e.value) is int:
                return (f"({e.value})" if e.value < 0 else str(e.value)), "Z"
            if type(e.value) is float:
                return qlit(e.value), "Q"
            self.err(e, f"constant {e.value!r}")
        if isinstance(e, ast.Name):
            return self.use(e)
        sa = self.self_attr(e)
        if sa:
            return sa
        if isinstance(e, ast.Attribute) and isinstance(e.value, ast.Name) and e.value.id == "np" and e.attr == "nan":
            return "None", "NAN"
        if (isinstance(e, ast.Attribute) and isinstance(e.value, ast.Name) and self.mod.imports.get(e.value.id) == "pandora.constants"
                and e.attr.startswith("PANDORA_MSK_PIXEL_")):
            return "Constants." + e.attr[len("PANDORA_"):].lower(), "Z"
        if isinstance(e, ast.UnaryOp) and isinstance(e.op, ast.USub):
            c, ty = self.expr(e.operand)
            if ty == "Z":
                return f"(- {c})", "Z"
            if ty == "Q":
                return f"(- {c})%Q", "Q"
            self.err(e, "unary minus on an array")
        if isinstance(e, ast.Tuple):
            xs = [self.expr(x) for x in e.elts]
            if any(t != "Z" for _, t in xs):
                self.err(e, "tuple of something else than integers")
            return "[" + "; ".join(c for c, _ in xs) + "]", "L"
        if isinstance(e, ast.Attribute) and e.attr == "strides":
            x = self.expr(e.value)
            if x[1] == "F":
                return f"(np_strides {x[0]})", "L"
        if isinstance(e, ast.BinOp):
            return self.binop(e)
        if isinstance(e, ast.Compare) and len(e.ops) == 1:
            return self.compare(e)
        if isinstance(e, ast.BoolOp):
            parts = [self.expr(v) for v in e.values]
            if any(t != "BOOL" for _, t in parts):
                self.err(e, "and / or of something that is not a scalar test")
            op = " || " if isinstance(e.op, ast.Or) else " && "
            return "(" + op.join(c for c, _ in parts) + ")", "BOOL"
        if isinstance(e, ast.Subscript):
            return self.subscript(e)
        if isinstance(e, ast.Call):
            return self.call(e)
        # <ds>["validity_mask"].data : a VIEW of the dataset's array
        if isinstance(e, ast.Attribute) and e.attr == "data" and self.ds:
            if ds_item(e.value, self.ds, "validity_mask"):
                return f"(ds_mask {self.env[self.ds][0]})", "M"
        self.err(e, f"expression not understood: {ast.unparse(e)}")
        return None

    def binop(self, e):
        l, r = self.expr(e.left), self.expr(e.right)
        lt, rt = l[1], r[1]
        if lt == "Z" and rt == "Z":
            ops = {ast.Add: "+", ast.Sub: "-", ast.Mult: "*", ast.FloorDiv: "/"}
            if type(e.op) in ops:
                return f"({l[0]} {ops[type(e.op)]} {r[0]})", "Z"       # Z./ is the floor division, as Python's //
            if isinstance(e.op, ast.Pow) and isinstance(e.right, ast.Constant) and type(e.right.value) is int and e.right.value >= 0:
                return f"({l[0]} ^ {r[0]})", "Z"
            self.err(e, f"integer operator {type(e.op).__name__}")
        if lt in ("Z", "Q") and rt in ("Z", "Q"):
            ops = {ast.Add: "+", ast.Sub: "-", ast.Mult: "*", ast.Div: "/"}
            if type(e.op) in ops:
                return f"({self.to_q(l)} {ops[type(e.op)]} {self.to_q(r)})%Q", "Q"
            self.err(e, f"float operator {type(e.op).__name__}")
        if lt == "L" and rt == "L" and isinstance(e.op, ast.Add):
            return f"({l[0]} ++ {r[0]})", "L"       # tuple concatenation
        if lt == "F" and rt == "F":
            ops = {ast.Sub: "np_subtract", ast.Mult: "np_multiply", ast.Div: "np_divide"}
            if type(e.op) in ops:
                return f"({ops[type(e.op)]} {l[0]} {r[0]})", "F"
        self.err(e, f"operator {type(e.op).__name__} on {lt} and {rt}")
        return None

    def compare(self, e):
        op = e.ops[0]
        # (M & c) != 0
        if (isinstance(op, ast.NotEq) and isinstance(e.left, ast.BinOp) and isinstance(e.left.op, ast.BitAnd)
                and isinstance(e.comparators[0], ast.Constant) and e.comparators[0].value == 0
                and type(e.comparators[0].value) is int):
            m, c = self.expr(e.left.left), self.expr(e.left.right)
            if m[1] == "M" and c[1] == "Z":
                return f"(np_and_ne0 {m[0]} {c[0]})", "B"
        l, r = self.expr(e.left), self.expr(e.comparators[0])
        if l[1] == "Z" and r[1] == "Z":
            ops = {ast.Lt: "<?", ast.LtE: "<=?", ast.Gt: ">?", ast.GtE: ">=?", ast.Eq: "=?"}
            if type(op) in ops:
                return f"({l[0]} {ops[type(op)]} {r[0]})", "BOOL"
        self.err(e, f"comparison not understood: {ast.unparse(e)}")
        return None

    def subscript(self, e):
        # X.shape[k]
        if (isinstance(e.value, ast.Attribute) and e.value.attr == "shape" and isinstance(e.slice, ast.Constant)
                and type(e.slice.value) is int and e.slice.value >= 0):
            x = self.expr(e.value.value)
            if x[1] in ("F", "B", "M"):
                return f"(np_shape {x[0]} {e.slice.value})", "Z"
        x = self.expr(e.value)
        if x[1] == "L" and isinstance(e.slice, ast.Constant) and type(e.slice.value) is int and e.slice.value >= 0:
            return f"(nth {e.slice.value} {x[0]} 0)", "Z"
        if x[1] == "F" and isinstance(e.slice, ast.Tuple):
            items = []
            for it in e.slice.elts:
                if isinstance(it, ast.Slice):
                    if it.lower is not None or it.upper is not None or it.step is not None:
                        self.err(e, "only full slices `:` are understood in a[:, :, k, l]")
                    items.append("SlAll")
                else:
                    k = self.expr(it)
                    if k[1] != "Z":
                        self.err(e, "index that is not an integer")
                    items.append(f"SlIdx {k[0]}")
            return f"(np_getitem {x[0]} [{'; '.join(items)}])", "F"
        self.err(e, f"subscript not understood: {ast.unparse(e)}")
        return None

    def args_of(self, e, n):
        if len(e.args) != n or e.keywords:
            self.err(e, f"{ast.unparse(e.func)} expects {n} positional argument(s)")
        return [self.expr(a) for a in e.args]

    def axis23(self, e):
        return (len(e.args) == 1 and len(e.keywords) == 1 and e.keywords[0].arg == "axis"
                and dump(e.keywords[0].value) == dump(ast.parse("(2, 3)", mode="eval").body))

    def call(self, e):
        f = e.func
        if isinstance(f, ast.Name) and f.id == "int" and len(e.args) == 1 and not e.keywords:
            a = e.args[0]
            if isinstance(a, ast.BinOp) and isinstance(a.op, ast.Div):
                l, r = self.expr(a.left), self.expr(a.right)
                if l[1] == "Z" and r[1] == "Z":
                    return f"(py_int_div {l[0]} {r[0]})", "Z"
            x = self.expr(a)
            if x[1] == "Q":
                return f"(py_int_q {x[0]})", "Z"
            if x[1] == "Z":
                return x
            self.err(e, "int() of something that is not a number")
        if isinstance(f, ast.Name) and f.id in ("min", "max") and len(e.args) >= 2 and not e.keywords:
            xs = [self.expr(a) for a in e.args]
            if any(t != "Z" for _, t in xs):
                self.err(e, f"{f.id} of something that is not an integer")
            out = xs[-1][0]
            for c, _ in reversed(xs[:-1]):
                out = f"(Z.{f.id} {c} {out})"
            return out, "Z"
        if isinstance(f, ast.Name) and f.id == "abs" and len(e.args) == 1 and not e.keywords:
            x = self.expr(e.args[0])
            if x[1] == "Z":
                return f"(Z.abs {x[0]})", "Z"
        for fn, coq, tin, tout in (("copy", "np_copy", "F", "F"), ("isnan", "np_isnan", "F", "B"), ("isfinite", "np_isfinite", "F", "B"),
                                   ("transpose", "np_transpose", "F", "F"), ("where", "np_where", "B", "B")):
            if is_np(e, fn):
                (x,) = self.args_of(e, 1)
                if x[1] != tin:
                    self.err(e, f"np.{fn} of a value of type {x[1]}")
                return f"({coq} {x[0]})", tout
        if is_np(e, "multiply"):
            a, b = self.args_of(e, 2)
            if a[1] == "F" and b[1] == "F":
                return f"(np_multiply {a[0]} {b[0]})", "F"
        for fn, coq in (("nansum", "np_nansum_23"), ("nanmedian", "np_nanmedian_23")):
            if is_np(e, fn):
                if not self.axis23(e):
                    self.err(e, f"np.{fn} without axis=(2, 3)")
                x = self.expr(e.args[0])
                if x[1] != "F":
                    self.err(e, f"np.{fn} of a value of type {x[1]}")
                return f"({coq} {x[0]})", "F"
        if isinstance(f, ast.Name) and f.id == "sliding_window":
            if self.mod.imports.get("sliding_window") != "..common:sliding_window":
                self.err(e, "sliding_window is not pandora.common.sliding_window")
            if len(e.args) != 2 or e.keywords or not isinstance(e.args[1], ast.Tuple) or len(e.args[1].elts) != 2:
                self.err(e, "sliding_window(a, (w0, w1)) expected")
            x = self.expr(e.args[0])
            sh = self.expr(e.args[1])
            if x[1] != "F" or sh[1] != "L":
                self.err(e, "sliding_window(float array, (int, int)) expected")
            return f"(g_sliding_window {x[0]} {sh[0]})", "F"
        if ast.unparse(f) == "np.lib.stride_tricks.as_strided":
            if len(e.args) != 1 or sorted(k.arg for k in e.keywords) != ["shape", "strides"]:
                self.err(e, "as_strided(a, shape=..., strides=...) expected")
            x = self.expr(e.args[0])
            kw = {k.arg: self.expr(k.value) for k in e.keywords}
            if x[1] != "F" or kw["shape"][1] != "L" or kw["strides"][1] != "L":
                self.err(e, "as_strided(float array, shape=tuple, strides=tuple) expected")
            return f"(np_as_strided {x[0]} {kw['shape'][0]} {kw['strides'][0]})", "F"
        if is_self_call(e, "normalized_gaussian"):
            x, s = self.args_of(e, 2)
            if x[1] == "F" and s[1] == "Q":
                return f"(np_gauss ({self.need('ng')} {s[0]}) {x[0]})", "F"
        if is_self_call(e, "gauss_spatial_kernel"):
            k, s = self.args_of(e, 2)
            if k[1] == "Z" and s[1] == "Q":
                return f"(g_gauss_spatial_kernel {self.need('ngs')} {k[0]} {s[0]})", "F"
        if is_self_call(e, "bilateral_kernel"):
            w, g, s, o = self.args_of(e, 4)
            if (w[1], g[1], s[1], o[1]) == ("F", "F", "Q", "Z"):
                return f"(g_bilateral_kernel {self.need('ng')} {w[0]} {g[0]} {s[0]} {o[0]})", "F"
        if is_self_call(e, "median_filter"):
            (x,) = self.args_of(e, 1)
            if x[1] == "F":
                fs = self.self_attr(ast.parse("self._filter_size", mode="eval").body)
                return f"({self.hole('h_median_filter', 'Z -> nd oq -> nd oq')} {fs[0]} {x[0]})", "F"
        if is_self_call(e, "filter_bilateral"):
            x, a, b = self.args_of(e, 3)
            if (x[1], a[1], b[1]) == ("F", "Q", "Q"):
                return f"({self.hole('h_filter_bilateral', 'nd oq -> Q -> Q -> nd oq')} {x[0]} {a[0]} {b[0]})", "F"
        self.err(e, f"call not understood: {ast.unparse(e)}")
        return None

    def fresh_value(self, v):
        """(coq, type) when v allocates a fresh array, else None"""
        if is_np(v, "copy") and len(v.args) == 1 and not v.keywords:
            x = self.expr(v.args[0])
            if x[1] == "F":
                return f"(np_copy {x[0]})", "F"
        src = deep_copy_data(v)
        if src is not None and self.ds:
            if ds_item(src, self.ds, "disparity_map"):
                return f"(np_copy (ds_disp {self.env[self.ds][0]}))", "F"
        return None

    # ------------------------------------------------------------ statements
    def skip(self, s):
        if isinstance(s, ast.Expr) and isinstance(s.value, ast.Constant) and isinstance(s.value.value, str):
            return True
        if isinstance(s, ast.Expr) and ast.unparse(s.value).startswith("warnings.filterwarnings("):
            return True
        if isinstance(s, ast.Pass):
            return True
        if isinstance(s, ast.Delete):
            for t in s.targets:
                for n in (t.elts if isinstance(t, ast.Tuple) else [t]):
                    if not isinstance(n, ast.Name):
                        self.err(s, "del of something that is not a name")
                    self.deleted.add(n.id)
            return True
        # <ds>.attrs["..."] = "<string>"
        if (isinstance(s, ast.Assign) and len(s.targets) == 1 and isinstance(s.targets[0], ast.Subscript)
                and isinstance(s.targets[0].value, ast.Attribute) and s.targets[0].value.attr == "attrs"
                and isinstance(s.targets[0].value.value, ast.Name) and s.targets[0].value.value.id == self.ds
                and const_str(s.targets[0].slice) and const_str(s.value)):
            return True
        return False

    def block(self, stmts, ind, rtype):
        pad = "  " * ind
        if not stmts:
            if rtype == "DS":
                return f"{pad}{self.env[self.ds][0]}"      # works in place: the dataset afterwards
            self.err(self.fdef, "the function falls off its end without a return")
        s, rest = stmts[0], stmts[1:]
        if self.skip(s):
            return self.block(rest, ind, rtype)
        if isinstance(s, ast.Return):
            if rtype == "DS":
                self.err(s, "return in a function that works in place")
            if rest:
                self.err(rest[0], "statement after return")
            x = self.expr(s.value)
            if x[1] != rtype:
                self.err(s, f"returns a value of type {x[1]}, {rtype} expected")
            return f"{pad}{x[0]}"
        if isinstance(s, ast.If) and len(s.body) == 1 and isinstance(s.body[0], ast.Return) and not s.orelse:
            c = self.expr(s.test)
            if c[1] != "BOOL":
                self.err(s, "test that is not a scalar comparison")
            x = self.expr(s.body[0].value)
            if x[1] != rtype:
                self.err(s, f"returns a value of type {x[1]}, {rtype} expected")
            return f"{pad}if {c[0]} then {x[0]} else\n" + self.block(rest, ind, rtype)
        loop = self.loop_stmt(s)
        if loop is not None:
            return f"{pad}{loop}\n" + self.block(rest, ind, rtype)
        if isinstance(s, ast.Assign) and len(s.targets) == 1:
            t, v = s.targets[0], s.value
            if isinstance(t, ast.Name):
                if is_np(v, "array_split"):
                    return self.block(rest, ind, rtype)      # the block loop's own (Gen/BlockLoops.v)
                fv = self.fresh_value(v)
                x = fv or self.expr(v)
                if x[1] not in COQ_TYPE:
                    self.err(s, f"value of type {x[1]} bound to a name")
                n = self.bind(t.id, x[1])
                if fv:
                    self.fresh.add(t.id)
                else:
                    self.fresh.discard(t.id)
                return f"{pad}let {n} := {x[0]} in\n" + self.block(rest, ind, rtype)
            if (isinstance(t, ast.Tuple) and isinstance(v, ast.Attribute) and v.attr == "shape"
                    and all(isinstance(n, ast.Name) for n in t.elts)):
                x = self.expr(v.value)
                if x[1] not in ("F", "B", "M"):
                    self.err(s, ".shape of something that is not an array")
                out = ""
                for k, n in enumerate(t.elts):
                    out += f"{pad}let {self.bind(n.id, 'Z')} := np_shape {x[0]} {k} in\n"
                return out + self.block(rest, ind, rtype)
            if isinstance(t, ast.Subscript):
                return f"{pad}{self.store(s, t, v)}\n" + self.block(rest, ind, rtype)
        self.err(s, f"statement not understood: {ast.unparse(s).splitlines()[0]}")
        return None

    def mask_expr(self, node):
        m = self.expr(node)
        if m[1] != "B":
            self.err(node, "index that is not a boolean array / np.where(...)")
        return m[0]

    def store(self, s, t, v):
        # a[m] = np.nan  (a fresh)
        if isinstance(t.value, ast.Name):
            a = self.use(t.value)
            if t.value.id not in self.fresh:
                self.err(s, f"store into {t.value.id}, which is not a fresh copy (np.copy / .copy(deep=True).data): it may alias "
                            f"the caller's array")
            if a[1] != "F":
                self.err(s, "masked store into something that is not a float array")
            m = self.mask_expr(t.slice)
            x = self.expr(v)
            if x[1] != "NAN":
                self.err(s, "masked store of something else than np.nan")
            return f"let {a[0]} := np_setitem_mask {a[0]} {m} None in"
        # <ds>["disparity_map"].data[m] = X[m]
        if (self.ds and isinstance(t.value, ast.Attribute) and t.value.attr == "data"
                and ds_item(t.value.value, self.ds, "disparity_map")):
            if not (isinstance(v, ast.Subscript) and isinstance(v.value, ast.Name) and dump(v.slice) == dump(t.slice)):
                self.err(s, '<ds>["disparity_map"].data[m] = X[m] with the same m on both sides expected')
            m = self.mask_expr(t.slice)
            x = self.use(v.value)
            if x[1] != "F":
                self.err(s, "the value written back is not a float array")
            d = self.env[self.ds][0]
            return f"let {d} := ds_set_disp {d} (np_setitem_mask_from (ds_disp {d}) {m} {x[0]}) in"
        self.err(s, f"store not understood: {ast.unparse(s).splitlines()[0]}")
        return None

    def loop_stmt(self, s):
        """the double block loop -> one call of the hole h_block_loop"""
        if isinstance(s, ast.With):
            if not (len(s.items) == 1 and s.items[0].optional_vars is None
                    and ast.unparse(s.items[0].context_expr) == "warnings.catch_warnings()"):
                self.err(s, "unknown `with` block")
            fors = [x for x in s.body if isinstance(x, ast.For)]
            others = [x for x in s.body if not isinstance(x, ast.For) and not self.skip(x)]
            if len(fors) != 1 or others:
                self.err(s, "`with warnings.catch_warnings():` that does not hold exactly the block loop")
            s = fors[0]
        if not isinstance(s, ast.For):
            return None
        inner = [x for x in s.body if isinstance(x, ast.For)]
        if len(inner) != 1:
            self.err(s, "the loop is not a double block loop")
        inner = inner[0]
        # the outer list: <name> bound by np.array_split(<src>, ...)
        it = s.iter
        if isinstance(it, ast.Call) and isinstance(it.func, ast.Name) and it.func.id == "enumerate" and len(it.args) == 1:
            it = it.args[0]
        if not isinstance(it, ast.Name):
            self.err(s, "loop over something that is not the list returned by np.array_split")
        splits = [n for n in ast.walk(self.fdef) if isinstance(n, ast.Assign) and len(n.targets) == 1
                  and isinstance(n.targets[0], ast.Name) and n.targets[0].id == it.id]
        if len(splits) != 1 or not is_np(splits[0].value, "array_split") or splits[0].lineno > s.lineno:
            self.err(s, f"{it.id} is not bound once, before the loop, by np.array_split")
        src = self.expr(splits[0].value.args[0])
        tg = inner.target
        chunk = tg.elts[1] if isinstance(tg, ast.Tuple) and len(tg.elts) == 2 else tg
        if not isinstance(chunk, ast.Name):
            self.err(inner, "inner loop variable not understood")
        writes = [x for x in inner.body if isinstance(x, ast.Assign) and len(x.targets) == 1
                  and isinstance(x.targets[0], ast.Subscript)]
        if len(writes) != 1 or not isinstance(writes[0].targets[0].value, ast.Name):
            self.err(inner, "exactly one slice write <array>[a:b, c:d] = <expression> expected in the inner loop")
        w = writes[0]
        target = w.targets[0].value
        tv = self.use(target)
        if target.id not in self.fresh or tv[1] != "F":
            self.err(w, f"the loop writes into {target.id}, which is not a fresh float array")
        if src[1] != "F":
            self.err(s, "the array that is split is not a float array")
        # the written expression, as a function of the inner chunk; every other name as bound where the loop stands
        saved = dict(self.env)
        loopvars = {n.id for l in (s, inner) for n in ast.walk(l.target) if isinstance(n, ast.Name)}
        assigned = {n.id for st in ast.walk(s) if isinstance(st, (ast.Assign, ast.AugAssign))
                    for tt in (st.targets if isinstance(st, ast.Assign) else [st.target])
                    for n in ast.walk(tt) if isinstance(n, ast.Name) and isinstance(n.ctx, ast.Store)}
        for n in ast.walk(w.value):
            if isinstance(n, ast.Name) and n.id != chunk.id and (n.id in loopvars or n.id in assigned):
                self.err(w, f"the written expression depends on {n.id}, which changes inside the loop")
        c = self.bind(chunk.id, "F")
        k = self.expr(w.value)
        self.env = saved
        if k[1] != "F":
            self.err(w, "the written expression is not a float array")
        h = self.hole("h_block_loop", "(nd oq -> nd oq) -> nd oq -> nd oq -> nd oq")
        return f"let {tv[0]} := {h} (fun {c} => {k[0]}) {src[0]} {tv[0]} in"


def signature(tr, fdef, table=None):
    """bind the parameters (after self); returns [(coq name, coq type)]"""
    out = []
    for a in fdef.args.args:
        if a.arg == "self":
            continue
        ann = ast.unparse(a.annotation) if a.annotation is not None else None
        ty = (table or {}).get(a.arg) or ANNOT.get(ann)
        if ty is None:
            tr.err(fdef, f"parameter {a.arg}: annotation {ann!r} is not understood")
        if ty == "SKIP":
            continue
        out.append((tr.bind(a.arg, ty), COQ_TYPE[ty]))
    return out


def definition(name, tr, params, rtype, body, comment):
    data_t = {"ng": "Q -> Q -> Q", "ngs": "Q -> Z -> Q"}
    ps = [f"({d} : {data_t[d]})" for d in ("ng", "ngs") if d in tr.data]
    ps += [f"({h} : {t})" for h, t in tr.holes]
    ps += [f"(p_{n} : {COQ_TYPE[t]})" for n, t in tr.self_params]
    ps += [f"({n} : {t})" for n, t in params]
    return f"(* {comment} *)\nDefinition {name} {' '.join(ps)} : {COQ_TYPE[rtype]} :=\n{body}.\n"


def gen_function(mod, cls, fname, coqname, rtype, ds=None, table=None):
    fdef = mod.method(cls, fname) if cls else mod.function(fname)
    tr = Tr(mod, fdef, ds_param=ds)
    params = signature(tr, fdef, table)
    body = tr.block(list(fdef.body), 1, rtype)
    return definition(coqname, tr, params, rtype, body, f"{mod.rel} {cls + '.' if cls else ''}{fname}"), mod.source_info(cls or "function", fdef), tr


# ---------------------------------------------------------------- normalized_gaussian: a formula tree
def gexpr(mod, fdef, e, xname, sname):
    def err(msg):
        fail(f"{mod.path}:{getattr(e, 'lineno', fdef.lineno)} ({fdef.name})", msg)
    if isinstance(e, ast.Name):
        if e.id == xname:
            return "GX"
        if e.id == sname:
            return "GSigma"
        err(f"unknown name {e.id}")
    if isinstance(e, ast.Constant) and type(e.value) in (int, float):
        f = fractions.Fraction(e.value)
        return f"(GConst ({f.numerator} # {f.denominator}))"
    if isinstance(e, ast.Attribute) and isinstance(e.value, ast.Name) and e.value.id == "np" and e.attr == "pi":
        return "GPi"
    if isinstance(e, ast.UnaryOp) and isinstance(e.op, ast.USub):
        return f"(GNeg {gexpr(mod, fdef, e.operand, xname, sname)})"
    if isinstance(e, ast.BinOp):
        if isinstance(e.op, ast.Pow):
            if not (isinstance(e.right, ast.Constant) and type(e.right.value) is int and e.right.value >= 0):
                err("power with an exponent that is not a natural number literal")
            return f"(GPowN {gexpr(mod, fdef, e.left, xname, sname)} {e.right.value})"
        ops = {ast.Add: "GAdd", ast.Sub: "GSub", ast.Mult: "GMul", ast.Div: "GDiv"}
        if type(e.op) in ops:
            return f"({ops[type(e.op)]} {gexpr(mod, fdef, e.left, xname, sname)} {gexpr(mod, fdef, e.right, xname, sname)})"
    for fn, c in (("exp", "GExp"), ("sqrt", "GSqrt")):
        if is_np(e, fn) and len(e.args) == 1 and not e.keywords:
            return f"({c} {gexpr(mod, fdef, e.args[0], xname, sname)})"
    err(f"formula not understood: {ast.unparse(e)}")
    return None


def gen_normalized_gaussian(mod):
    fdef = mod.method("BilateralFilter", "normalized_gaussian")
    if [ast.unparse(d) for d in fdef.decorator_list] != ["staticmethod"]:
        fail(f"{mod.path}:{fdef.lineno}", "normalized_gaussian is not a plain staticmethod")
    args = [a.arg for a in fdef.args.args]
    if len(args) != 2:
        fail(f"{mod.path}:{fdef.lineno}", "normalized_gaussian(array, sigma) expected")
    body = [s for s in fdef.body if not (isinstance(s, ast.Expr) and isinstance(s.value, ast.Constant))]
    if len(body) != 1 or not isinstance(body[0], ast.Return):
        fail(f"{mod.path}:{fdef.lineno}", "normalized_gaussian is not a single return of a formula")
    t = gexpr(mod, fdef, body[0].value, args[0], args[1])
    text = (f"(* {mod.rel} BilateralFilter.normalized_gaussian({args[0]}, {args[1]}): an elementwise formula of the element (GX) and sigma *)\n"
            f"Definition g_normalized_gaussian : gexpr :=\n  {t}.\n")
    return text, mod.source_info("BilateralFilter", fdef)


# ---------------------------------------------------------------- gauss_spatial_kernel: a table of ngs sigma <integer expression>
def gen_gauss_spatial_kernel(mod):
    fdef = mod.method("BilateralFilter", "gauss_spatial_kernel")
    tr = Tr(mod, fdef)
    params = signature(tr, fdef)
    if [t for _, t in params] != ["Z", "Q"]:
        tr.err(fdef, "gauss_spatial_kernel(kernel_size: int, sigma: float) expected")
    body = [s for s in fdef.body if not (isinstance(s, ast.Expr) and isinstance(s.value, ast.Constant))]
    if len(body) != 3:
        tr.err(fdef, "expected: arr = np.zeros((k, k)); for [i, j], val in np.ndenumerate(arr): arr[i, j] = np.sqrt(E); "
                     "return self.normalized_gaussian(arr, sigma)")
    a, loop, ret = body
    if not (isinstance(a, ast.Assign) and len(a.targets) == 1 and isinstance(a.targets[0], ast.Name) and is_np(a.value, "zeros")
            and len(a.value.args) == 1 and not a.value.keywords and isinstance(a.value.args[0], ast.Tuple)
            and len(a.value.args[0].elts) == 2):
        tr.err(a, "arr = np.zeros((n, m)) expected")
    arr = a.targets[0].id
    n, m = [tr.expr(x) for x in a.value.args[0].elts]
    if n[1] != "Z" or m[1] != "Z":
        tr.err(a, "np.zeros with a shape that is not a pair of integers")
    tg = loop.target if isinstance(loop, ast.For) else None
    if not (tg is not None and not loop.orelse and is_np(loop.iter, "ndenumerate") and len(loop.iter.args) == 1
            and isinstance(loop.iter.args[0], ast.Name) and loop.iter.args[0].id == arr
            and isinstance(tg, ast.Tuple) and len(tg.elts) == 2 and isinstance(tg.elts[0], (ast.List, ast.Tuple))
            and len(tg.elts[0].elts) == 2 and all(isinstance(x, ast.Name) for x in tg.elts[0].elts)
            and isinstance(tg.elts[1], ast.Name)):
        tr.err(loop, "for [i, j], val in np.ndenumerate(arr) expected")
    i, j = [x.id for x in tg.elts[0].elts]
    val = tg.elts[1].id
    if len(loop.body) != 1:
        tr.err(loop, "the ndenumerate loop must hold exactly one store")
    st = loop.body[0]
    if not (isinstance(st, ast.Assign) and len(st.targets) == 1 and isinstance(st.targets[0], ast.Subscript)
            and isinstance(st.targets[0].value, ast.Name) and st.targets[0].value.id == arr
            and dump(st.targets[0].slice) == dump(ast.parse(f"({i}, {j})", mode="eval").body)
            and is_np(st.value, "sqrt") and len(st.value.args) == 1 and not st.value.keywords):
        tr.err(st, f"{arr}[{i}, {j}] = np.sqrt(<integer expression>) expected")
    for nd in ast.walk(st.value):
        if isinstance(nd, ast.Name) and nd.id in (val, arr):
            tr.err(st, "the stored value depends on the array being filled")
    ci, cj = tr.bind(i, "Z"), tr.bind(j, "Z")
    e = tr.expr(st.value.args[0])
    if e[1] != "Z":
        tr.err(st, "np.sqrt of something that is not an integer expression")
    if not (is_self_call(ret.value if isinstance(ret, ast.Return) else None, "normalized_gaussian") and len(ret.value.args) == 2
            and not ret.value.keywords and isinstance(ret.value.args[0], ast.Name) and ret.value.args[0].id == arr):
        tr.err(ret, "return self.normalized_gaussian(arr, sigma) expected")
    s = tr.expr(ret.value.args[1])
    if s[1] != "Q":
        tr.err(ret, "sigma is not a float")
    (k, _), (sg, _) = params
    text = (f"(* {mod.rel} BilateralFilter.gauss_spatial_kernel: arr[{i}, {j}] = np.sqrt(E) for every [{i}, {j}] of np.zeros(({ast.unparse(a.value.args[0].elts[0])}, "
            f"{ast.unparse(a.value.args[0].elts[1])})); this is E *)\n"
            f"Definition g_gauss_spatial_kernel_sqdist ({k} {ci} {cj} : Z) : Z :=\n  {e[0]}.\n\n"
            f"(* return self.normalized_gaussian(arr, {ast.unparse(ret.value.args[1])}): ngs sigma n = the normalized Gaussian of sqrt(n), DATA *)\n"
            f"Definition g_gauss_spatial_kernel (ngs : Q -> Z -> Q) ({k} : Z) ({sg} : Q) : nd oq :=\n"
            f"  np_tab2 {n[0]} {m[0]} (fun {ci} {cj} => Some (ngs {s[0]} (g_gauss_spatial_kernel_sqdist {k} {ci} {cj}))).\n")
    return text, mod.source_info("BilateralFilter", fdef)


# ---------------------------------------------------------------- median_for_intervals.filter_disparity
def gen_mfi(mod):
    cls = "MedianForIntervalsFilter"
    fdef = mod.method(cls, "filter_disparity")
    where = lambda n: f"{mod.path}:{getattr(n, 'lineno', fdef.lineno)} (filter_disparity)"  # noqa: E731
    if mod.imports.get("PANDORA_MSK_PIXEL_INTERVAL_REGULARIZED") != "..constants:PANDORA_MSK_PIXEL_INTERVAL_REGULARIZED":
        fail(mod.path, "PANDORA_MSK_PIXEL_INTERVAL_REGULARIZED is not imported from pandora.constants")
    if mod.imports.get("MedianFilter") != ".median:MedianFilter":
        fail(mod.path, "MedianFilter is not imported from .median")
    if mod.imports.get("interval_regularization") != "..interval_tools:interval_regularization":
        fail(mod.path, "interval_regularization is not imported from pandora.interval_tools")
    ds = fdef.args.args[1].arg
    body = [s for s in fdef.body if not (isinstance(s, ast.Expr) and isinstance(s.value, ast.Constant))]
    keys = {}       # local string name -> band key

    def indicator(s):
        """name = ("<base>" if self._x == "" else "<base>." + self._x) -> band key by <base>"""
        v = s.value
        if not (isinstance(v, ast.IfExp) and const_str(v.body) and isinstance(v.orelse, ast.BinOp) and const_str(v.orelse.left)
                and v.orelse.left.value == v.body.value + "."):
            return None
        base = {"confidence_from_interval_bounds_inf": "KInf", "confidence_from_interval_bounds_sup": "KSup",
                "confidence_from_ambiguity": "KAmb"}.get(v.body.value)
        return base

    def key_of(node):
        if isinstance(node, ast.Name) and node.id in keys:
            return keys[node.id]
        fail(where(node), f"band name not understood: {ast.unparse(node)}")
        return None

    def band_read(node, copy):
        """<ds>["confidence_measure"].sel|loc({"indicator": k})[.copy(deep=True)].data -> key"""
        src = deep_copy_data(node) if copy else (node.value if isinstance(node, ast.Attribute) and node.attr == "data" else None)
        if src is None:
            fail(where(node), f"band read not understood: {ast.unparse(node)}")
        sel = None
        if isinstance(src, ast.Call) and isinstance(src.func, ast.Attribute) and src.func.attr == "sel" and len(src.args) == 1:
            sel, base = src.args[0], src.func.value
        elif isinstance(src, ast.Subscript) and isinstance(src.value, ast.Attribute) and src.value.attr == "loc":
            sel, base = src.slice, src.value.value
        if not (sel is not None and ds_item(base, ds, "confidence_measure") and isinstance(sel, ast.Dict) and len(sel.keys) == 1
                and const_str(sel.keys[0], "indicator")):
            fail(where(node), f"band read not understood: {ast.unparse(node)}")
        return sel.values[0]

    lines = []
    filt = None
    seen_loop = False
    seen_reg = False
    d = "v_" + ds
    for s in body:
        if isinstance(s, ast.Assign) and len(s.targets) == 1 and isinstance(s.targets[0], ast.Name):
            k = indicator(s)
            if k:
                keys[s.targets[0].id] = k
                continue
            # cfg_median = {"filter_size": self._filter_size, "filter_method": "median"}; med_filter = MedianFilter(cfg=cfg_median)
            if isinstance(s.value, ast.Dict):
                cfgd = {ku.value: ast.unparse(vu) for ku, vu in zip(s.value.keys, s.value.values) if const_str(ku)}
                if cfgd != {"filter_size": "self._filter_size", "filter_method": "'median'"}:
                    fail(where(s), f"configuration of the inner median filter not understood: {cfgd}")
                cfg_name = s.targets[0].id
                continue
            if (isinstance(s.value, ast.Call) and isinstance(s.value.func, ast.Name) and s.value.func.id == "MedianFilter"
                    and not s.value.args and len(s.value.keywords) == 1 and s.value.keywords[0].arg == "cfg"
                    and isinstance(s.value.keywords[0].value, ast.Name) and s.value.keywords[0].value.id == cfg_name):
                filt = s.targets[0].id
                continue
        if isinstance(s, ast.For) and not seen_loop and not s.orelse:
            # for ind in [k1, k2]: masked = band(ind).copy; med = filt.median_filter(masked); band(ind) = med
            if not (isinstance(s.target, ast.Name) and isinstance(s.iter, ast.List) and len(s.body) == 3 and filt):
                fail(where(s), "band loop not understood")
            ind = s.target.id
            ks = [key_of(x) for x in s.iter.elts]
            b0, b1, b2 = s.body
            ok = (isinstance(b0, ast.Assign) and isinstance(b0.targets[0], ast.Name)
                  and isinstance(band_read(b0.value, True), ast.Name) and band_read(b0.value, True).id == ind
                  and isinstance(b1, ast.Assign) and isinstance(b1.targets[0], ast.Name)
                  and isinstance(b1.value, ast.Call) and ast.unparse(b1.value.func) == f"{filt}.median_filter"
                  and len(b1.value.args) == 1 and not b1.value.keywords and isinstance(b1.value.args[0], ast.Name)
                  and b1.value.args[0].id == b0.targets[0].id
                  and isinstance(b2, ast.Assign) and isinstance(b2.targets[0], ast.Subscript)
                  and isinstance(b2.targets[0].value, ast.Attribute) and b2.targets[0].value.attr == "loc"
                  and ds_item(b2.targets[0].value.value, ds, "confidence_measure")
                  and dump(b2.targets[0].slice) == dump(ast.parse("{'indicator': %s}" % ind, mode="eval").body)
                  and isinstance(b2.value, ast.Name) and b2.value.id == b1.targets[0].id)
            if not ok:
                fail(where(s), "band loop body not understood (copy of the band; median_filter of it; stored back into the band)")
            lines.append(f"  let {d} := fold_left (fun {d} v_{ind} =>\n"
                         f"      let v_{b0.targets[0].id} := np_copy (ds_band {d} v_{ind}) in\n"
                         f"      let v_{b1.targets[0].id} := h_median_filter p_filter_size v_{b0.targets[0].id} in\n"
                         f"      ds_set_band {d} v_{ind} v_{b1.targets[0].id}) [{'; '.join(ks)}] {d} in")
            seen_loop = True
            continue
        if isinstance(s, ast.If) and seen_loop and not seen_reg and not s.orelse and ast.unparse(s.test) == "self._regularization":
            seen_reg = True
            reg = []
            outs = None
            idx = {}
            cm = None
            for r in s.body:
                if isinstance(r, ast.Assign) and len(r.targets) == 1:
                    t, v = r.targets[0], r.value
                    if isinstance(t, ast.Name) and indicator(r):
                        keys[t.id] = indicator(r)
                        continue
                    if (isinstance(t, ast.Tuple) and len(t.elts) == 3 and isinstance(v, ast.Call) and isinstance(v.func, ast.Name)
                            and v.func.id == "interval_regularization" and len(v.args) == 7 and not v.keywords):
                        outs = [x.id for x in t.elts]
                        a0 = key_of(band_read(v.args[0], True))
                        a1 = key_of(band_read(v.args[1], True))
                        a2 = key_of(band_read(v.args[2], False))
                        for x in v.args[3:]:
                            if not (isinstance(x, ast.Attribute) and isinstance(x.value, ast.Name) and x.value.id == "self"):
                                fail(where(r), "interval_regularization parameter that is not a self attribute")
                        reg.append(f"    let '(v_{outs[0]}, v_{outs[1]}, v_{outs[2]}) := h_interval_regularization "
                                   f"(np_copy (ds_band {d} {a0})) (np_copy (ds_band {d} {a1})) (ds_band {d} {a2}) in")
                        continue
                    if isinstance(t, ast.Name) and ast.unparse(v) == f"{ds}['confidence_measure'].data":
                        cm = t.id
                        continue
                    if (isinstance(t, ast.Name) and isinstance(v, ast.Subscript) and is_np(v.value, "argwhere")
                            and dump(v.slice) == dump(ast.parse("(0, 0)", mode="eval").body) and len(v.value.args) == 1
                            and isinstance(v.value.args[0], ast.Compare) and len(v.value.args[0].ops) == 1
                            and isinstance(v.value.args[0].ops[0], ast.Eq)
                            and ast.unparse(v.value.args[0].left) == f"{ds}.coords['indicator'].data"):
                        idx[t.id] = key_of(v.value.args[0].comparators[0])
                        continue
                    if (isinstance(t, ast.Subscript) and isinstance(t.value, ast.Name) and t.value.id == cm
                            and isinstance(t.slice, ast.Tuple) and len(t.slice.elts) == 3
                            and all(isinstance(x, ast.Slice) and x.lower is None and x.upper is None for x in t.slice.elts[:2])
                            and isinstance(t.slice.elts[2], ast.Name) and t.slice.elts[2].id in idx
                            and isinstance(v, ast.Name) and outs and v.id in outs[:2]):
                        reg.append(f"    let {d} := ds_set_band {d} {idx[t.slice.elts[2].id]} v_{v.id} in")
                        continue
                    if isinstance(t, ast.Name) and isinstance(v, ast.List) and all(
                            ast.unparse(x).startswith(f"{ds}.coords[") for x in v.elts):
                        continue
                    if (ds_item(t, ds, "confidence_measure") and isinstance(v, ast.Call) and ast.unparse(v.func) == "xr.DataArray"
                            and not v.args and {k.arg for k in v.keywords} == {"data", "coords", "dims"}
                            and [ast.unparse(k.value) for k in v.keywords if k.arg == "data"] == [cm]
                            and [ast.unparse(k.value) for k in v.keywords if k.arg == "dims"] == ["['row', 'col', 'indicator']"]):
                        continue       # the same array, wrapped again
                if (isinstance(r, ast.AugAssign) and isinstance(r.op, ast.BitOr) and isinstance(r.target, ast.Subscript)
                        and ast.unparse(r.target.value) == f"{ds}['validity_mask'].data" and isinstance(r.target.slice, ast.Name)
                        and outs and r.target.slice.id == outs[2] and isinstance(r.value, ast.Name)
                        and r.value.id == "PANDORA_MSK_PIXEL_INTERVAL_REGULARIZED"):
                    reg.append(f"    let {d} := ds_set_mask {d} (np_setitem_mask_or (ds_mask {d}) v_{outs[2]} "
                               f"Constants.msk_pixel_interval_regularized) in")
                    continue
                fail(where(r), f"statement of the regularisation branch not understood: {ast.unparse(r).splitlines()[0]}")
            lines.append(f"  if p_regularization then\n" + "\n".join(reg) + f"\n    {d}\n  else {d}")
            continue
        fail(where(s), f"statement not understood: {ast.unparse(s).splitlines()[0]}")
    if not (seen_loop and seen_reg):
        fail(where(fdef), "band loop / regularisation branch not found")
    text = (f"(* {mod.rel} {cls}.filter_disparity (works in place on {ds}; the result is the dataset afterwards) *)\n"
            f"Definition g_mfi_filter_disparity (h_median_filter : Z -> nd oq -> nd oq)\n"
            f"    (h_interval_regularization : nd oq -> nd oq -> nd oq -> nd oq * nd oq * nd bool)\n"
            f"    (p_filter_size : Z) (p_regularization : bool) ({d} : dataset) : dataset :=\n" + "\n".join(lines) + ".\n")
    return text, mod.source_info(cls, fdef)


def main():
    bil, med, mfi, com = Module(BIL), Module(MED), Module(MFI), Module(COMMON)
    if com.imports.get("np") != "numpy":
        fail(com.path, "np is not numpy")
    for m in (bil, med):
        if m.imports.get("cst") != "pandora.constants" or m.imports.get("np") != "numpy":
            fail(m.path, "np / cst are not numpy / pandora.constants")
    parts, sources = [], []

    def add(res):
        parts.append(res[0])
        sources.append(res[1])

    add(gen_function(com, None, "sliding_window", "g_sliding_window", "F"))
    add(gen_normalized_gaussian(bil))
    add(gen_gauss_spatial_kernel(bil))
    add(gen_function(bil, "BilateralFilter", "bilateral_kernel", "g_bilateral_kernel", "F"))
    add(gen_function(bil, "BilateralFilter", "filter_bilateral", "g_filter_bilateral", "F"))
    ds_table = {"img_left": "SKIP", "img_right": "SKIP", "cv": "SKIP"}
    add(gen_function(bil, "BilateralFilter", "filter_disparity", "g_bilateral_filter_disparity", "DS", ds="disp", table=ds_table))
    add(gen_function(med, "MedianFilter", "median_filter", "g_median_filter", "F", table={"data": "F"}))
    add(gen_function(med, "MedianFilter", "filter_disparity", "g_median_filter_disparity", "DS", ds="disp", table=ds_table))
    add(gen_mfi(mfi))
    body = ("From Coq Require Import ZArith QArith List Bool.\n"
            "From Pandora Require Import Lib.NpNd Model.FiltersNp.\nFrom Pandora Require Gen.Constants.\n"
            "Import ListNotations.\nOpen Scope Z_scope.\n\n" + "\n".join(parts))
    path, changed = emit("FilterKernels", body, sources)
    print(f"gen_filter_kernels: {path} {'rewritten' if changed else 'unchanged'} definitions={len(parts) + 1}")


if __name__ == "__main__":
    try:
        main()
    except Exception as exc:  # fail closed, one line for the caller
        print(f"TRANSLATION-ERROR gen_filter_kernels: {type(exc).__name__}: {exc}")
        sys.exit(3)
