"""T-gen: coq/Gen/ScaleArith.v -- the multiscale / right-interval ARITHMETIC of the state machine,
translated from the Python `ast` statement by statement (fail closed).

    pandora/state_machine.py  PandoraMachine.run_prepare            -> run_prepare_params, run_prepare_is_multi,
                                                                       run_prepare_multi, run_prepare_mono,
                                                                       run_prepare_multi_wiring, run_prepare_mono_wiring
                              PandoraMachine.matching_cost_prepare  -> matching_cost_prepare
                              PandoraMachine.run_multiscale         -> run_multiscale
  and coq/Gen/ScaleArithRange.v (entry point translator/gen_scale_arith_range.py, same module) from
    pandora/multiscale/fixed_zoom_pyramid.py
                              FixedZoomPyramid.disparity_range      -> range_offset, range_{min,max}_{init,window,invalid},
                                                                       range_zoom_skipped, range_{min,max}_zoom

Conventions (coq/Model/ScaleArith.v): a disparity bound is a rational AT ONE PIXEL (every operation
the code applies to the arrays is pixel-wise), ints are Z, promoted with inject_Z.

  method bodies (straight-line code over machine attributes):
    self.a = e                      ->  let a := e in                    (a: numeric attribute of the method)
    self.x, self.y = m.disparity_range(self.<side>_disparity, e1, e2)
                                    ->  let range_<side> := Some (e1, e2) in   (x, y become arrays: no arithmetic after)
    self.<side>_cv = self.matching_cost_.allocate_cost_volume(self.<side>_img, (e1, e2), cfg)
                                    ->  let alloc_<side> := Some (e1, e2) in
    self.p, self.q = prepare_pyramid(left_img, right_img, e1, e2)
                                    ->  let pyramid_levels := e1 in let pyramid_factor := e2 in   (+ wiring)
    if self.right_disp_map == "cross_checking_accurate": B
                                    ->  let '(names assigned in B) := if right_guard then B else <unchanged> in
    if "disparity" in right_img.data_vars: A else: B
                                    ->  match right_disp with Some (right_disp_min_in, right_disp_max_in) => A | None => B end
    <img>["disparity"].sel(band_disp="min"|"max")[.data]
                                    ->  left_disp_min / left_disp_max (right_disp_*_in inside the match only)
    any other statement             ->  skipped ONLY IF it mentions no numeric attribute / parameter / disparity
                                        variable of the method (else TranslationError)
  expressions: int literals, names, self.<attr>, unary -, + - * / // ** , int(e)
  run_prepare: the prologue `if A is None or B is None: self.A = c; self.B = c' else: self.A = A; self.B = B`
    becomes run_prepare_params; the test of the second `if` becomes run_prepare_is_multi and its two branches
    run_prepare_multi / run_prepare_mono; the non-numeric assignments (images, pyramids, output datasets,
    right_disp_map) are executed symbolically into the wiring tables.
  disparity_range: the two range arrays are the two names it returns (min first); for each array the
    value of the np.full_like initialisation, of the windowed store (np.nanmin/np.nanmax(.., axis=(2, 3)) +- marge),
    of the store at the invalid indices and the zoom call are translated; their order is checked
    (init, window loop, invalid indices, zoom); every other mention of the two arrays is a TranslationError.

The per-run obligations are in coq/Proofs/ScaleArithGenP.v and coq/Proofs/ScaleArithRangeGenP.v (generated =
hand-written model, for ALL inputs) and the theorems C15_gen_* / C08_gen_* are stated on the generated functions."""
import ast
import os
import sys

from common import emit, fail, sha1_of, REPO

GUARD_VALUE = "cross_checking_accurate"


def seg(src, node):
    return "\n".join(src.splitlines()[node.lineno - 1:node.end_lineno])


def self_attr(e):
    if isinstance(e, ast.Attribute) and isinstance(e.value, ast.Name) and e.value.id == "self":
        return e.attr
    return None


def const_of(node):
    if isinstance(node, ast.Constant):
        return node.value
    return None


def disp_access(e):
    """<img>["disparity"].sel(band_disp="min"|"max")[.data] -> (img name, "min"|"max")"""
    if isinstance(e, ast.Attribute) and e.attr == "data":
        e = e.value
    if isinstance(e, ast.Call) and isinstance(e.func, ast.Attribute) and e.func.attr == "sel" and not e.args \
            and len(e.keywords) == 1 and e.keywords[0].arg == "band_disp" \
            and const_of(e.keywords[0].value) in ("min", "max"):
        base = e.func.value
        if isinstance(base, ast.Subscript) and isinstance(base.value, ast.Name) \
                and base.value.id in ("left_img", "right_img") and const_of(base.slice) == "disparity":
            return base.value.id, e.keywords[0].value.value
    return None


def is_docstring(s):
    return isinstance(s, ast.Expr) and isinstance(s.value, ast.Constant) and isinstance(s.value.value, str)


def is_logging(s):
    return isinstance(s, ast.Expr) and isinstance(s.value, ast.Call) and isinstance(s.value.func, ast.Attribute) \
        and isinstance(s.value.func.value, ast.Name) and s.value.func.value.id == "logging"


# ------------------------------------------------------------------------------------------------ expressions


class Ex:
    """typed expression translator; env: key -> (coq name, "Z" | "Q"); `defined`: the coq names in scope"""

    def __init__(self, path, env, defined):
        self.path = path
        self.env = env
        self.defined = defined
        self.hook = None  # optional: node -> (text, type) | None, tried first

    def where(self, node):
        return f"{self.path}:{getattr(node, 'lineno', '?')}"

    def lookup(self, node, key):
        if key not in self.env:
            fail(self.where(node), f"`{ast.unparse(node)}` is not a known numeric quantity of this function")
        name, ty = self.env[key]
        if name not in self.defined:
            fail(self.where(node), f"`{ast.unparse(node)}` is used here but holds no scalar / pixel-wise value at this "
                                   "point (not assigned yet, or assigned from an array-valued call)")
        return name, ty

    @staticmethod
    def q(tv):
        return tv[0] if tv[1] == "Q" else f"inject_Z {tv[0]}"

    def expr(self, e):
        if self.hook is not None:
            r = self.hook(e)
            if r is not None:
                return r
        acc = disp_access(e)
        if acc is not None:
            return self.lookup(e, f"{acc[0]}.disparity.{acc[1]}")
        if isinstance(e, ast.Constant):
            v = e.value
            if isinstance(v, bool) or not isinstance(v, int):
                fail(self.where(e), f"literal {v!r} is not an integer")
            return (f"({v})" if v < 0 else str(v)), "Z"
        if isinstance(e, ast.Name):
            return self.lookup(e, e.id)
        if self_attr(e) is not None:
            return self.lookup(e, "self." + self_attr(e))
        if isinstance(e, ast.UnaryOp) and isinstance(e.op, ast.USub):
            t, ty = self.expr(e.operand)
            return (f"(- {t})" if ty == "Z" else f"(- {t})%Q"), ty
        if isinstance(e, ast.BinOp):
            a, b = self.expr(e.left), self.expr(e.right)
            both_z = a[1] == "Z" and b[1] == "Z"
            op = type(e.op)
            if op in (ast.Add, ast.Sub, ast.Mult):
                sym = {ast.Add: "+", ast.Sub: "-", ast.Mult: "*"}[op]
                if both_z:
                    return f"({a[0]} {sym} {b[0]})", "Z"
                return f"({self.q(a)} {sym} {self.q(b)})%Q", "Q"
            if op is ast.Div:
                return f"({self.q(a)} / {self.q(b)})%Q", "Q"
            if op is ast.FloorDiv:
                if both_z:
                    return f"({a[0]} / {b[0]})", "Z"
                return f"(py_floordiv ({self.q(a)}) ({self.q(b)}))", "Q"
            if op is ast.Pow:
                if both_z:
                    return f"({a[0]} ^ {b[0]})", "Z"
                fail(self.where(e), f"`**` on something else than two ints: {ast.unparse(e)}")
            fail(self.where(e), f"operator {op.__name__} not supported: {ast.unparse(e)}")
        if isinstance(e, ast.Call) and isinstance(e.func, ast.Name) and e.func.id == "int" and len(e.args) == 1 \
                and not e.keywords:
            t, ty = self.expr(e.args[0])
            return (t, "Z") if ty == "Z" else (f"(py_int {t})", "Z")
        fail(self.where(e), f"expression shape not supported: {ast.unparse(e)}")

    def test(self, t):
        cmp = {ast.Gt: ">?", ast.Lt: "<?", ast.GtE: ">=?", ast.LtE: "<=?", ast.Eq: "=?"}
        if isinstance(t, ast.Compare) and len(t.ops) == 1 and type(t.ops[0]) in cmp:
            a, b = self.expr(t.left), self.expr(t.comparators[0])
            if a[1] != "Z" or b[1] != "Z":
                fail(self.where(t), f"comparison of non-integers: {ast.unparse(t)}")
            return f"({a[0]} {cmp[type(t.ops[0])]} {b[0]})"
        fail(self.where(t), f"test shape not supported: {ast.unparse(t)}")


# ------------------------------------------------------------------------------------------------ method bodies


class Blk:
    """straight-line method body -> let-chain.
       env     : key -> (coq name, type) for everything numeric the body may read
       targets : attribute -> (coq name, type) for the numeric attributes the body may assign
       derived : coq names of option (Q * Q) outputs (alloc_*, range_*), pre-set to None"""

    def __init__(self, path, env, targets, defined, wiring=None):
        self.path = path
        self.env = dict(env)
        self.targets = targets
        for a, (n, ty) in targets.items():
            self.env["self." + a] = (n, ty)
        self.defined = set(defined)
        self.ex = Ex(path, self.env, self.defined)
        self.in_right_match = False
        self.wiring = wiring
        self.nstmts = 0
        self._all_names = []

    def where(self, node):
        return f"{self.path}:{getattr(node, 'lineno', '?')}"

    # ---- does a statement touch anything numeric?
    def mentions_numeric(self, node):
        for n in ast.walk(node):
            a = self_attr(n)
            if a is not None and ("self." + a) in self.env:
                return ast.unparse(n)
            if isinstance(n, ast.Name) and n.id in self.env:
                return n.id
            if disp_access(n) is not None:
                return ast.unparse(n)
        return None

    def assign_let(self, name, ty, value, node):
        t, vty = self.ex.expr(value)
        if ty == "Q" and vty == "Z":
            t = f"inject_Z {t}"
        elif ty != vty:
            fail(self.where(node), f"a non-integer value is assigned to the integer attribute: {ast.unparse(node)}")
        self.defined.add(name)
        self.nstmts += 1
        return name, f"let {name} := {t} in"

    def is_guard(self, t):
        return isinstance(t, ast.Compare) and len(t.ops) == 1 and isinstance(t.ops[0], ast.Eq) \
            and self_attr(t.left) == "right_disp_map" and const_of(t.comparators[0]) == GUARD_VALUE

    @staticmethod
    def is_right_disp_test(t):
        return isinstance(t, ast.Compare) and len(t.ops) == 1 and isinstance(t.ops[0], ast.In) \
            and const_of(t.left) == "disparity" and isinstance(t.comparators[0], ast.Attribute) \
            and t.comparators[0].attr == "data_vars" and isinstance(t.comparators[0].value, ast.Name) \
            and t.comparators[0].value.id == "right_img"

    def stmt(self, s):
        """-> (assigned coq names, lines)"""
        if is_docstring(s) or is_logging(s):
            return [], []
        if isinstance(s, ast.Assign) and len(s.targets) == 1:
            tgt, v = s.targets[0], s.value
            a = self_attr(tgt)
            # self.a = e
            if a is not None and a in self.targets:
                n, line = self.assign_let(self.targets[a][0], self.targets[a][1], v, s)
                return [n], [line]
            if isinstance(tgt, ast.Tuple):
                tattrs = [self_attr(t) for t in tgt.elts]
                # self.x, self.y = <obj>.disparity_range(self.<side>_disparity, e1, e2)
                if isinstance(v, ast.Call) and isinstance(v.func, ast.Attribute) and v.func.attr == "disparity_range":
                    if len(v.args) != 3 or v.keywords:
                        fail(self.where(s), f"disparity_range call shape: {ast.unparse(v)}")
                    side = {"left_disparity": "left", "right_disparity": "right"}.get(self_attr(v.args[0]))
                    want = {"left": ["disp_min", "disp_max"], "right": ["right_disp_min", "right_disp_max"]}.get(side)
                    if want is None or tattrs != want:
                        fail(self.where(s), f"disparity_range of {ast.unparse(v.args[0])} assigned to {ast.unparse(tgt)}")
                    if "range_" + side not in self.derived_names():
                        fail(self.where(s), "a disparity_range call is not expected in this method")
                    t1, ty1 = self.ex.expr(v.args[1])
                    t2, ty2 = self.ex.expr(v.args[2])
                    if ty1 != "Q" or ty2 != "Q":
                        fail(self.where(s), f"integer bounds handed to disparity_range: {ast.unparse(v)}")
                    for x in want:  # arrays from now on
                        if x in self.targets:
                            self.defined.discard(self.targets[x][0])
                    self.nstmts += 1
                    return ["range_" + side], [f"let range_{side} := Some ({t1}, {t2}) in"]
                # self.p, self.q = prepare_pyramid(left_img, right_img, e1, e2)
                if isinstance(v, ast.Call) and isinstance(v.func, ast.Name) and v.func.id == "prepare_pyramid":
                    if tattrs != ["img_left_pyramid", "img_right_pyramid"] or len(v.args) != 4 or v.keywords \
                            or not all(isinstance(x, ast.Name) for x in v.args[:2]) \
                            or "pyramid_levels" not in self.all_names():
                        fail(self.where(s), f"prepare_pyramid call shape: {ast.unparse(s)}")
                    out = []
                    lines = []
                    for name, arg in (("pyramid_levels", v.args[2]), ("pyramid_factor", v.args[3])):
                        n, line = self.assign_let(name, "Z", arg, s)
                        out.append(n)
                        lines.append(line)
                    if self.wiring is not None:
                        self.wiring.pyramids(s, tattrs, [x.id for x in v.args[:2]])
                    return out, lines
            # self.<side>_cv = self.matching_cost_.allocate_cost_volume(self.<side>_img, (e1, e2), cfg)
            if isinstance(v, ast.Call) and isinstance(v.func, ast.Attribute) and v.func.attr == "allocate_cost_volume":
                side = {"left_cv": "left", "right_cv": "right"}.get(a)
                ok = side is not None and len(v.args) == 3 and not v.keywords \
                    and self_attr(v.args[0]) == side + "_img" and isinstance(v.args[1], ast.Tuple) \
                    and len(v.args[1].elts) == 2 and ("alloc_" + side) in self.derived_names()
                if not ok:
                    fail(self.where(s), f"allocate_cost_volume call shape: {ast.unparse(s)}")
                t1, ty1 = self.ex.expr(v.args[1].elts[0])
                t2, ty2 = self.ex.expr(v.args[1].elts[1])
                if ty1 != "Q" or ty2 != "Q":
                    fail(self.where(s), f"integer bounds handed to allocate_cost_volume: {ast.unparse(v)}")
                self.nstmts += 1
                return ["alloc_" + side], [f"let alloc_{side} := Some ({t1}, {t2}) in"]
        if isinstance(s, ast.If):
            if self.is_guard(s.test):
                if s.orelse:
                    fail(self.where(s), "else branch on the right_disp_map guard")
                return self.branch(s, "if right_guard then", "else", "", s.body, [])
            if self.is_right_disp_test(s.test):
                return self.branch(s, "match right_disp with\n| Some (right_disp_min_in, right_disp_max_in) =>",
                                   "| None =>", "end", s.body, s.orelse, right_first=True)
        # anything else must be irrelevant to the arithmetic
        m = self.mentions_numeric(s)
        if m is not None:
            fail(self.where(s), f"statement shape not supported, and it mentions the numeric quantity `{m}`: "
                                f"{ast.unparse(s)[:120]}")
        for n in ast.walk(s):
            if isinstance(n, ast.Attribute) and isinstance(n.ctx, ast.Store) and self_attr(n) in self.targets:
                fail(self.where(s), f"unknown assignment to self.{n.attr}")
        if self.wiring is not None:
            self.wiring.stmt(s)
        return [], []

    def derived_names(self):
        return [n for n in self.all_names() if n.startswith(("alloc_", "range_"))]

    def all_names(self):
        return self._all_names

    def branch(self, s, head, mid, tail, body, orelse, right_first=False):
        if self.wiring is not None:
            for x in list(body) + list(orelse):
                if not isinstance(x, ast.Assign):
                    fail(self.where(x), "only assignments are expected inside this branch")
        before = set(self.defined)
        saved_env = dict(self.env)
        if right_first:
            if self.in_right_match:
                fail(self.where(s), "nested right disparity test")
            self.in_right_match = True
            self.env["right_img.disparity.min"] = ("right_disp_min_in", "Q")
            self.env["right_img.disparity.max"] = ("right_disp_max_in", "Q")
            self.defined.update(["right_disp_min_in", "right_disp_max_in"])
        n1, l1 = self.block(body)
        d1 = set(self.defined)
        self.defined.clear()
        self.defined.update(before)
        if right_first:
            for k in ("right_img.disparity.min", "right_img.disparity.max"):
                self.env.pop(k, None)
                if k in saved_env:
                    self.env[k] = saved_env[k]
            self.in_right_match = False
        n2, l2 = self.block(orelse)
        d2 = set(self.defined)
        names = list(n1) + [n for n in n2 if n not in n1]
        for n in names:
            if n not in d1 or n not in d2:
                fail(self.where(s), f"`{n}` is assigned in one branch only and has no value before the `if`")
        if not names:
            fail(self.where(s), "an `if` of the method assigns nothing numeric")
        self.defined.clear()
        self.defined.update((d1 & d2) - {"right_disp_min_in", "right_disp_max_in"})
        tup = names[0] if len(names) == 1 else "(" + ", ".join(names) + ")"
        pat = names[0] if len(names) == 1 else "'" + tup
        lines = [f"let {pat} :="]
        lines += ["  " + x for x in head.split("\n")]
        lines += ["    " + x for x in l1] + [f"    {tup}"]
        lines += ["  " + mid]
        lines += ["    " + x for x in l2] + [f"    {tup}"]
        if tail:
            lines += ["  " + tail]
        lines[-1] += " in"
        return names, lines

    def block(self, stmts):
        names, lines = [], []
        for s in stmts:
            n, l = self.stmt(s)
            names += [x for x in n if x not in names]
            lines += l
        return names, lines


def emit_function(path, fn_node, name, doc, params, blk, stmts, ctor, fields, derived):
    """params: list of (coq name, coq type) in order; fields: coq names handed to the record constructor"""
    blk._all_names = list(fields)
    pre = [f"let {d} : option (Q * Q) := None in" for d in derived]
    blk.defined.update(derived)
    _, lines = blk.block(stmts)
    for f in fields:
        if f not in blk.defined:
            fail(f"{path}:{fn_node.lineno}", f"{name}: `{f}` holds no value at the end of the translated statements")
    groups = []
    for n, ty in params:
        if groups and groups[-1][1] == ty:
            groups[-1][0].append(n)
        else:
            groups.append(([n], ty))
    sig = " ".join(f"({' '.join(ns)} : {ty})" for ns, ty in groups)
    text = f"(* {doc} *)\nDefinition {name} {sig} : {ctor[1]} :=\n"
    text += "".join("  " + l + "\n" for l in pre + lines)
    text += f"  {ctor[0]} " + " ".join(fields) + ".\n\n"
    return text


# ------------------------------------------------------------------------------------------------ wiring of run_prepare

WATTRS = ["left_img", "right_img", "img_left_pyramid", "img_right_pyramid", "left_disparity", "right_disparity",
          "right_disp_map"]


class Wiring:
    """symbolic execution of the non-numeric statements of run_prepare"""

    def __init__(self, path, state=None, order=None):
        self.path = path
        self.state = dict(state or {})
        self.order = list(order or [])
        self.cfg_locals = set()

    def where(self, node):
        return f"{self.path}:{getattr(node, 'lineno', '?')}"

    def copy(self):
        w = Wiring(self.path, self.state, self.order)
        w.cfg_locals = set(self.cfg_locals)
        return w

    def set(self, node, attr, val):
        if attr not in WATTRS:
            fail(self.where(node), f"assignment to the unknown machine attribute self.{attr}")
        self.state[attr] = val
        if attr not in self.order:
            self.order.append(attr)

    def value(self, node, e):
        if isinstance(e, ast.Name) and e.id in ("left_img", "right_img"):
            return "WLeftParam" if e.id == "left_img" else "WRightParam"
        if const_of(e) is None and isinstance(e, ast.Constant):
            return "WNone"
        if isinstance(e, ast.Call) and not e.args and not e.keywords and ast.unparse(e.func) == "xr.Dataset":
            return "WEmptyDataset"
        if isinstance(e, ast.Call) and isinstance(e.func, ast.Attribute) and e.func.attr == "pop" \
                and len(e.args) == 1 and const_of(e.args[0]) == 0 and not e.keywords:
            src = self_attr(e.func.value)
            if src not in self.state:
                fail(self.where(node), f"pop on {ast.unparse(e.func.value)}, which run_prepare did not assign before")
            v = self.state[src]
            self.state[src] = f"(WRest {v})"
            return f"(WFirst {v})"
        if self.only_cfg(e):
            return "WConfig"
        fail(self.where(node), f"unknown source of a machine attribute: {ast.unparse(e)[:100]}")

    def only_cfg(self, e):
        """an expression over cfg, literals and cfg-derived locals only"""
        for n in ast.walk(e):
            if isinstance(n, ast.Name) and n.id not in ({"cfg", "step"} | self.cfg_locals):
                return False
            if isinstance(n, ast.Attribute) and not (isinstance(n.value, ast.Name) and n.value.id == "step"
                                                     and n.attr == "split"):
                return False
            if isinstance(n, ast.Call) and not (isinstance(n.func, ast.Attribute) and n.func.attr == "split"):
                return False
        return True

    def pyramids(self, node, tattrs, args):
        for t, a in zip(tattrs, args):
            if a not in ("left_img", "right_img"):
                fail(self.where(node), f"prepare_pyramid on {a}")
            self.set(node, t, f"(WPyramid {'WLeftParam' if a == 'left_img' else 'WRightParam'})")

    def stmt(self, s):
        if isinstance(s, ast.Assign) and len(s.targets) == 1:
            tgt = s.targets[0]
            a = self_attr(tgt)
            if a is not None:
                self.set(s, a, self.value(s, s.value))
                return
            if isinstance(tgt, ast.Name) and self.only_cfg(s.value):
                self.cfg_locals.add(tgt.id)
                return
        if isinstance(s, ast.If) and isinstance(s.test, ast.Name) and s.test.id in self.cfg_locals:
            # if <cfg-derived>: self.x = <cfg> else: self.x = None      -> WConfig
            sets = []
            for blk in (s.body, s.orelse):
                got = {}
                for x in blk:
                    a = self_attr(x.targets[0]) if isinstance(x, ast.Assign) and len(x.targets) == 1 else None
                    if a is None:
                        fail(self.where(x), f"unknown statement in a configuration branch: {ast.unparse(x)[:80]}")
                    v = self.value(x, x.value)
                    if v not in ("WConfig", "WNone"):
                        fail(self.where(x), f"data assigned in a configuration branch: {ast.unparse(x)[:80]}")
                    got[a] = v
                sets.append(got)
            if set(sets[0]) != set(sets[1]):
                fail(self.where(s), "the two configuration branches assign different attributes")
            for a in sets[0]:
                self.set(s, a, "WConfig")
            return
        if isinstance(s, ast.Expr) and ast.unparse(s.value) == "self.add_transitions(self._transitions_run)":
            return
        fail(self.where(s), f"statement of run_prepare not understood: {ast.unparse(s)[:100]}")

    def table(self, name):
        rows = [f"(A_{a}, {self.state[a]})" for a in self.order]
        return f"Definition {name} : wiring :=\n  [ " + ";\n    ".join(rows) + " ].\n\n"


# ------------------------------------------------------------------------------------------------ state_machine.py


def method_of(path, cls, name, params):
    fns = [n for n in cls.body if isinstance(n, ast.FunctionDef) and n.name == name]
    if len(fns) != 1:
        fail(path, f"{len(fns)} methods named {name} in class {cls.name}")
    fn = fns[0]
    if fn.decorator_list:
        fail(f"{path}:{fn.lineno}", f"{name} is decorated")
    a = fn.args
    got = [x.arg for x in a.args]
    if got != params or a.vararg or a.kwarg or a.kwonlyargs or a.posonlyargs:
        fail(f"{path}:{fn.lineno}", f"signature of {name} is {got}, expected {params}")
    for n in ast.walk(fn):
        if isinstance(n, (ast.For, ast.While, ast.Try, ast.With, ast.Return, ast.AugAssign, ast.Lambda, ast.Global,
                          ast.Nonlocal, ast.Delete, ast.FunctionDef, ast.Yield, ast.Await, ast.NamedExpr)) \
                and n is not fn:
            fail(f"{path}:{n.lineno}", f"{type(n).__name__} inside {name}: not straight-line code")
    return fn


def translate_state_machine(path):
    with open(path) as f:
        src = f.read()
    tree = ast.parse(src)
    classes = [n for n in tree.body if isinstance(n, ast.ClassDef) and n.name == "PandoraMachine"]
    if len(classes) != 1:
        fail(path, f"{len(classes)} classes named PandoraMachine")
    cls = classes[0]
    out = ""
    sources = []

    # ---------------- run_prepare
    fn = method_of(path, cls, "run_prepare", ["self", "cfg", "left_img", "right_img", "scale_factor", "num_scales"])
    dflt = [ast.unparse(d) for d in fn.args.defaults]
    if dflt != ["None", "None"]:
        fail(f"{path}:{fn.lineno}", f"defaults of scale_factor / num_scales are {dflt}, expected None, None")
    body = [s for s in fn.body if not is_docstring(s)]
    if len(body) < 2 or not isinstance(body[0], ast.If) or not isinstance(body[1], ast.If):
        fail(f"{path}:{fn.lineno}", "run_prepare does not start with the two `if` statements (parameters, branch)")
    pro, br = body[0], body[1]
    # prologue: if A is None or B is None: self.A = c; self.B = c'  else: self.A = A; self.B = B
    t = pro.test
    ok = isinstance(t, ast.BoolOp) and isinstance(t.op, ast.Or) and len(t.values) == 2 and all(
        isinstance(v, ast.Compare) and len(v.ops) == 1 and isinstance(v.ops[0], ast.Is) and isinstance(v.left, ast.Name)
        and isinstance(v.comparators[0], ast.Constant) and v.comparators[0].value is None for v in t.values)
    if not ok or sorted(v.left.id for v in t.values) != ["num_scales", "scale_factor"]:
        fail(f"{path}:{pro.lineno}", f"prologue test is not `num_scales is None or scale_factor is None`: {ast.unparse(t)}")

    def two_assigns(blk, env, defined):
        ex = Ex(path, env, defined)
        got = {}
        for s in blk:
            a = self_attr(s.targets[0]) if isinstance(s, ast.Assign) and len(s.targets) == 1 else None
            if a not in ("num_scales", "scale_factor") or a in got:
                fail(f"{path}:{s.lineno}", f"prologue statement not understood: {ast.unparse(s)}")
            tx, ty = ex.expr(s.value)
            if ty != "Z":
                fail(f"{path}:{s.lineno}", "non-integer scale parameter")
            got[a] = tx
        if sorted(got) != ["num_scales", "scale_factor"]:
            fail(f"{path}:{pro.lineno}", "a prologue branch does not assign both self.num_scales and self.scale_factor")
        return f"({got['num_scales']}, {got['scale_factor']})"
    then_t = two_assigns(pro.body, {}, set())
    else_t = two_assigns(pro.orelse, {"num_scales": ("num_scales", "Z"), "scale_factor": ("scale_factor", "Z")},
                         {"num_scales", "scale_factor"})
    out += ("(* state_machine.py run_prepare, prologue: (self.num_scales, self.scale_factor) from the two optional\n"
            "   parameters *)\n"
            "Definition run_prepare_params (num_scales scale_factor : option Z) : Z * Z :=\n"
            "  match num_scales, scale_factor with\n"
            f"  | Some num_scales, Some scale_factor => {else_t}\n"
            f"  | _, _ => {then_t}\n  end.\n\n")
    # branch test
    ex = Ex(path, {"self.num_scales": ("self_num_scales", "Z"), "self.scale_factor": ("self_scale_factor", "Z")},
            {"self_num_scales", "self_scale_factor"})
    out += ("(* run_prepare: the test of the multiscale branch *)\n"
            f"Definition run_prepare_is_multi (self_num_scales self_scale_factor : Z) : bool :=\n  {ex.test(br.test)}.\n\n")
    if not br.orelse:
        fail(f"{path}:{br.lineno}", "the multiscale `if` of run_prepare has no else branch")
    tail = body[2:]
    for s in tail:
        for n in ast.walk(s):
            if isinstance(n, ast.If) and n is not s:
                fail(f"{path}:{n.lineno}", "nested `if` after the branches of run_prepare")
    # multiscale branch: the parameters are ints there (run_prepare_params: self.num_scales > 1 only from Some, Some)
    env = {"num_scales": ("num_scales", "Z"), "scale_factor": ("scale_factor", "Z"),
           "self.num_scales": ("self_num_scales", "Z"), "self.scale_factor": ("self_scale_factor", "Z"),
           "left_img.disparity.min": ("left_disp_min", "Q"), "left_img.disparity.max": ("left_disp_max", "Q")}
    qt = {a: (a, "Q") for a in ("disp_min", "disp_max", "dmin_user", "dmax_user", "right_disp_min", "right_disp_max",
                                "dmin_user_right", "dmax_user_right")}
    targets = dict(qt, current_scale=("current_scale", "Z"))
    wm = Wiring(path)
    blk = Blk(path, env, targets, {"num_scales", "scale_factor", "self_num_scales", "self_scale_factor",
                                   "left_disp_min", "left_disp_max"}, wiring=wm)
    out += emit_function(
        path, fn, "run_prepare_multi",
        "run_prepare, branch `if self.num_scales > 1`.  num_scales / scale_factor: the PARAMETERS (ints in this branch);\n"
        "   self_*: the attributes set by the prologue; left_disp_*: left_img[\"disparity\"].sel(band_disp=..) at one pixel",
        [("num_scales", "Z"), ("scale_factor", "Z"), ("self_num_scales", "Z"), ("self_scale_factor", "Z"),
         ("left_disp_min", "Q"), ("left_disp_max", "Q")],
        blk, br.body, ("mkPrepMulti", "prep_multi"),
        ["pyramid_levels", "pyramid_factor", "current_scale", "disp_min", "disp_max", "dmin_user", "dmax_user",
         "right_disp_min", "right_disp_max", "dmin_user_right", "dmax_user_right"], [])
    n_multi = blk.nstmts
    for s in tail:
        if blk.mentions_numeric(s):
            fail(f"{path}:{s.lineno}", f"a statement after the branches of run_prepare mentions a numeric quantity: "
                                       f"{ast.unparse(s)[:100]}")
        wm.stmt(s)
    # mono branch: the parameters may be None there -> not readable
    env = {"self.num_scales": ("self_num_scales", "Z"), "self.scale_factor": ("self_scale_factor", "Z"),
           "left_img.disparity.min": ("left_disp_min", "Q"), "left_img.disparity.max": ("left_disp_max", "Q")}
    targets = {a: (a, "Q") for a in ("disp_min", "disp_max", "right_disp_min", "right_disp_max")}
    targets["current_scale"] = ("current_scale", "Z")
    wo = Wiring(path)
    blk = Blk(path, env, targets, {"self_num_scales", "self_scale_factor", "left_disp_min", "left_disp_max"}, wiring=wo)
    for n in ast.walk(ast.Module(body=br.orelse, type_ignores=[])):
        if isinstance(n, ast.Name) and n.id in ("num_scales", "scale_factor"):
            fail(f"{path}:{n.lineno}", f"the mono-scale branch reads the optional parameter {n.id}")
    out += emit_function(
        path, fn, "run_prepare_mono",
        "run_prepare, else branch.  right_disp: right_img[\"disparity\"].sel(band_disp=\"min\" / \"max\") at one pixel when\n"
        "   `\"disparity\" in right_img.data_vars`, None otherwise",
        [("self_num_scales", "Z"), ("self_scale_factor", "Z"), ("left_disp_min", "Q"), ("left_disp_max", "Q"),
         ("right_disp", "option (Q * Q)")],
        blk, br.orelse, ("mkPrepMono", "prep_mono"),
        ["current_scale", "disp_min", "disp_max", "right_disp_min", "right_disp_max"], [])
    n_mono = blk.nstmts
    for s in tail:
        wo.stmt(s)
    out += "(* run_prepare: where the non-numeric attributes come from, multiscale branch / else branch *)\n"
    out += wm.table("run_prepare_multi_wiring") + wo.table("run_prepare_mono_wiring")
    sources.append((path, f"lines {fn.lineno}-{fn.end_lineno} (PandoraMachine.run_prepare)", sha1_of(seg(src, fn))))

    # ---------------- matching_cost_prepare
    fn = method_of(path, cls, "matching_cost_prepare", ["self", "cfg", "input_step"])
    env = {"self.scale_factor": ("scale_factor", "Z")}
    targets = {a: (a, "Q") for a in ("disp_min", "disp_max", "right_disp_min", "right_disp_max")}
    blk = Blk(path, env, targets, {"scale_factor", "disp_min", "disp_max", "right_disp_min", "right_disp_max"})
    out += emit_function(
        path, fn, "matching_cost_prepare",
        "matching_cost_prepare.  right_guard: self.right_disp_map == \"cross_checking_accurate\"; the four bounds are the\n"
        "   attributes on entry (one pixel); alloc_*: the interval handed to allocate_cost_volume",
        [("scale_factor", "Z"), ("right_guard", "bool"), ("disp_min", "Q"), ("disp_max", "Q"), ("right_disp_min", "Q"),
         ("right_disp_max", "Q")],
        blk, [s for s in fn.body if not is_docstring(s)], ("mkMcp", "mcp_out"),
        ["disp_min", "disp_max", "right_disp_min", "right_disp_max", "alloc_left", "alloc_right"],
        ["alloc_left", "alloc_right"])
    n_mcp = blk.nstmts
    sources.append((path, f"lines {fn.lineno}-{fn.end_lineno} (PandoraMachine.matching_cost_prepare)",
                    sha1_of(seg(src, fn))))

    # ---------------- run_multiscale
    fn = method_of(path, cls, "run_multiscale", ["self", "cfg", "input_step"])
    env = {"self.scale_factor": ("scale_factor", "Z")}
    targets = {a: (a, "Q") for a in ("dmin_user", "dmax_user", "dmin_user_right", "dmax_user_right",
                                     "disp_min", "disp_max", "right_disp_min", "right_disp_max")}
    targets["current_scale"] = ("current_scale", "Z")
    blk = Blk(path, env, targets, {"scale_factor", "current_scale", "dmin_user", "dmax_user", "dmin_user_right",
                                   "dmax_user_right"})
    out += emit_function(
        path, fn, "run_multiscale",
        "run_multiscale.  right_guard: self.right_disp_map == \"cross_checking_accurate\"; range_*: the (disp_min, disp_max)\n"
        "   arguments of the disparity_range call on the left / right disparity dataset",
        [("scale_factor", "Z"), ("current_scale", "Z"), ("right_guard", "bool"), ("dmin_user", "Q"), ("dmax_user", "Q"),
         ("dmin_user_right", "Q"), ("dmax_user_right", "Q")],
        blk, [s for s in fn.body if not is_docstring(s)], ("mkMsc", "msc_out"),
        ["dmin_user", "dmax_user", "dmin_user_right", "dmax_user_right", "range_left", "range_right", "current_scale"],
        ["range_left", "range_right"])
    n_msc = blk.nstmts
    sources.append((path, f"lines {fn.lineno}-{fn.end_lineno} (PandoraMachine.run_multiscale)", sha1_of(seg(src, fn))))
    return out, sources, (n_multi, n_mono, n_mcp, n_msc)


# ------------------------------------------------------------------------------------------------ disparity_range


def translate_disparity_range(path):
    with open(path) as f:
        src = f.read()
    tree = ast.parse(src)
    classes = [n for n in tree.body if isinstance(n, ast.ClassDef) and n.name == "FixedZoomPyramid"]
    if len(classes) != 1:
        fail(path, f"{len(classes)} classes named FixedZoomPyramid")
    cls = classes[0]
    # self._marge / self._scale_factor are the configuration values
    inits = [n for n in cls.body if isinstance(n, ast.FunctionDef) and n.name == "__init__"]
    if len(inits) != 1:
        fail(path, "FixedZoomPyramid.__init__ not found")
    cfg_attrs = {}
    for n in ast.walk(inits[0]):
        if isinstance(n, ast.Assign) and len(n.targets) == 1 and self_attr(n.targets[0]) in ("_marge", "_scale_factor"):
            cfg_attrs.setdefault(self_attr(n.targets[0]), []).append(ast.unparse(n.value))
    for n in ast.walk(cls):
        if isinstance(n, ast.Attribute) and isinstance(n.ctx, ast.Store) and self_attr(n) in ("_marge", "_scale_factor", "cfg") \
                and not any(n in ast.walk(i) for i in inits):
            fail(f"{path}:{n.lineno}", f"self.{n.attr} is assigned outside __init__")
    if cfg_attrs != {"_marge": ["self.cfg['marge']"], "_scale_factor": ["self.cfg['scale_factor']"]}:
        fail(f"{path}:{inits[0].lineno}", f"self._marge / self._scale_factor are not the configuration values: {cfg_attrs}")
    fns = [n for n in cls.body if isinstance(n, ast.FunctionDef) and n.name == "disparity_range"]
    if len(fns) != 1 or fns[0].decorator_list:
        fail(path, "FixedZoomPyramid.disparity_range not found (or decorated)")
    fn = fns[0]
    args = [a.arg for a in fn.args.args]
    if len(args) != 4 or args[0] != "self" or fn.args.vararg or fn.args.kwarg or fn.args.kwonlyargs:
        fail(f"{path}:{fn.lineno}", f"signature of disparity_range: {args}")
    p_disp, p_min, p_max = args[1:]
    # the two arrays: the names returned (min first); every return returns the same pair
    rets = [n for n in ast.walk(fn) if isinstance(n, ast.Return)]
    pairs = set()
    for r in rets:
        if not (isinstance(r.value, ast.Tuple) and len(r.value.elts) == 2 and all(isinstance(x, ast.Name) for x in r.value.elts)):
            fail(f"{path}:{r.lineno}", f"return of something else than a pair of names: {ast.unparse(r)}")
        pairs.add(tuple(x.id for x in r.value.elts))
    if len(pairs) != 1 or not rets:
        fail(f"{path}:{fn.lineno}", f"the returns of disparity_range do not all return the same pair: {sorted(pairs)}")
    a_min, a_max = next(iter(pairs))
    if a_min == a_max or {a_min, a_max} & {p_disp, p_min, p_max}:
        fail(f"{path}:{fn.lineno}", f"returned pair {a_min}, {a_max}")
    arrays = {a_min: "min", a_max: "max"}
    red_names = {}
    for f_ in ("nanmin", "nanmax"):
        for p, role in ((p_min, "disp_min"), (p_max, "disp_max")):
            red_names[(f_, p)] = f"{f_}_{role}"
    red_params = [red_names[k] for k in (("nanmin", p_min), ("nanmax", p_min), ("nanmin", p_max), ("nanmax", p_max))]

    env = {"self._marge": ("marge", "Z"), "self._scale_factor": ("scale_factor", "Z")}
    defined = {"marge", "scale_factor", "window_size", "window_nanmin", "window_nanmax"} | set(red_params)
    ex = Ex(path, env, defined)

    def hook(e):
        # disp.attrs["window_size"]
        if isinstance(e, ast.Subscript) and isinstance(e.value, ast.Attribute) and e.value.attr == "attrs" \
                and isinstance(e.value.value, ast.Name) and e.value.value.id == p_disp and const_of(e.slice) == "window_size":
            return "window_size", "Z"
        if isinstance(e, ast.Call) and isinstance(e.func, ast.Attribute) and isinstance(e.func.value, ast.Name) \
                and e.func.value.id == "np" and e.func.attr in ("nanmin", "nanmax") and len(e.args) == 1:
            if not e.keywords and isinstance(e.args[0], ast.Name) and (e.func.attr, e.args[0].id) in red_names:
                return red_names[(e.func.attr, e.args[0].id)], "Q"
            if len(e.keywords) == 1 and e.keywords[0].arg == "axis" and ast.unparse(e.keywords[0].value) == "(2, 3)" \
                    and isinstance(e.args[0], ast.Subscript) and isinstance(e.args[0].value, ast.Name) \
                    and e.args[0].value.id not in (p_min, p_max, p_disp, a_min, a_max):
                return "window_" + e.func.attr, "Q"
            fail(f"{path}:{e.lineno}", f"unknown reduction {ast.unparse(e)}")
        return None
    ex.hook = hook

    # ---- offset
    offs = [n for n in ast.walk(fn) if isinstance(n, ast.Assign) and len(n.targets) == 1 and isinstance(n.targets[0], ast.Name)
            and isinstance(n.value, ast.Call) and isinstance(n.value.func, ast.Name) and n.value.func.id == "int"
            and any(hook_safe(hook, x) for x in ast.walk(n.value))]
    if len(offs) != 1:
        fail(f"{path}:{fn.lineno}", f"expected one local computed from {p_disp}.attrs['window_size'], found {len(offs)}")
    t, ty = ex.expr(offs[0].value)
    if ty != "Z":
        fail(f"{path}:{offs[0].lineno}", "the window offset is not an integer")
    out = ("(* fixed_zoom_pyramid.py disparity_range: the window offset *)\n"
           f"Definition range_offset (window_size : Z) : Z :=\n  {t}.\n\n")

    # ---- every mention of the two arrays, in source order
    parents = {}
    for n in ast.walk(fn):
        for c in ast.iter_child_nodes(n):
            parents[c] = n
    events = {"min": [], "max": []}
    nan_name = None
    for n in ast.walk(fn):
        # invalid_ind = np.where(np.isnan(<map>))
        if isinstance(n, ast.Assign) and len(n.targets) == 1 and isinstance(n.targets[0], ast.Name) \
                and isinstance(n.value, ast.Call) and ast.unparse(n.value.func) == "np.where" and len(n.value.args) == 1 \
                and isinstance(n.value.args[0], ast.Call) and ast.unparse(n.value.args[0].func) == "np.isnan":
            if nan_name is not None:
                fail(f"{path}:{n.lineno}", "two np.where(np.isnan(..)) index sets")
            nan_name = n.targets[0].id
    if nan_name is None:
        fail(f"{path}:{fn.lineno}", "no `<name> = np.where(np.isnan(<map>))` in disparity_range")
    in_loop = set()
    for n in ast.walk(fn):
        if isinstance(n, (ast.For, ast.While)):
            for c in ast.walk(n):
                in_loop.add(c)
    for n in ast.walk(fn):
        if not (isinstance(n, ast.Name) and n.id in arrays):
            continue
        role = arrays[n.id]
        par = parents[n]
        w = f"{path}:{n.lineno}"
        if isinstance(par, ast.Tuple) and isinstance(parents[par], ast.Return):
            continue
        if isinstance(par, ast.Assign) and par.targets == [n]:
            v = par.value
            # <a> = np.full_like(<map>, <value>)
            if isinstance(v, ast.Call) and ast.unparse(v.func) == "np.full_like" and len(v.args) == 2 and not v.keywords:
                if n in in_loop:
                    fail(w, "np.full_like inside a loop")
                events[role].append((n.lineno, "init", v.args[1]))
                continue
            # <a> = zoom(<a>, <factor>, order=.., mode=..)
            if isinstance(v, ast.Call) and isinstance(v.func, ast.Name) and v.func.id == "zoom" and len(v.args) == 2 \
                    and isinstance(v.args[0], ast.Name) and v.args[0].id == n.id and n not in in_loop:
                kw = {k.arg: k.value for k in v.keywords}
                if set(kw) != {"order", "mode"} or not isinstance(const_of(kw["order"]), int) \
                        or not isinstance(const_of(kw["mode"]), str):
                    fail(w, f"zoom call shape: {ast.unparse(v)}")
                events[role].append((n.lineno, "zoom", (v.args[1], kw["order"].value, kw["mode"].value)))
                continue
            fail(w, f"unknown assignment to {n.id}: {ast.unparse(par)[:100]}")
        if isinstance(par, ast.Call) and isinstance(par.func, ast.Name) and par.func.id == "zoom" and par.args \
                and par.args[0] is n and isinstance(parents[par], ast.Assign) and parents[par].targets[0].id == n.id:
            continue  # the argument of its own zoom
        if isinstance(par, ast.Subscript) and par.value is n and isinstance(par.ctx, ast.Store) \
                and isinstance(parents[par], ast.Assign) and parents[par].targets == [par]:
            v = parents[par].value
            if isinstance(par.slice, ast.Name) and par.slice.id == nan_name:
                if n in in_loop:
                    fail(w, "store at the invalid indices inside a loop")
                events[role].append((n.lineno, "invalid", v))
                continue
            if isinstance(par.slice, ast.Tuple) and len(par.slice.elts) == 2 \
                    and all(isinstance(x, ast.Slice) and x.step is None for x in par.slice.elts) and n in in_loop:
                events[role].append((n.lineno, "window", v))
                continue
            fail(w, f"unknown store into {n.id}: {ast.unparse(parents[par])[:100]}")
        fail(w, f"unknown use of {n.id}: {ast.unparse(par)[:100]}")
    sig4 = "(" + " ".join(red_params) + " : Q)"
    skip_tests = []
    for n in ast.walk(fn):
        if isinstance(n, ast.If):
            if not (len(n.body) == 1 and isinstance(n.body[0], ast.Return) and not n.orelse):
                fail(f"{path}:{n.lineno}", f"unknown `if` in disparity_range: {ast.unparse(n.test)}")
            skip_tests.append(n)
    if len(skip_tests) != 1:
        fail(f"{path}:{fn.lineno}", f"expected one early return (scale factor 1) in disparity_range, found {len(skip_tests)}")
    for role in ("min", "max"):
        evs = sorted(events[role], key=lambda x: x[0])
        kinds = [k for _, k, _ in evs]
        if kinds != ["init", "window", "invalid", "zoom"]:
            fail(f"{path}:{fn.lineno}", f"the {role} range array is handled in the order {kinds}, expected "
                                        "init, window, invalid, zoom")
        if not evs[2][0] < skip_tests[0].lineno < evs[3][0]:
            fail(f"{path}:{skip_tests[0].lineno}", "the early return is not between the invalid-index store and the zoom")
        for _, kind, v in evs:
            if kind in ("init", "invalid"):
                t, ty = ex.expr(v)
                if ty != "Z":
                    fail(f"{path}:{v.lineno}", f"non-integer {kind} value {ast.unparse(v)}: not modelled")
                out += (f"(* disparity_range: {'np.full_like initial value' if kind == 'init' else 'value stored at the invalid indices'}"
                        f" of the {role} range map.\n   nanmin_* / nanmax_*: np.nanmin / np.nanmax of the parameters disp_min / disp_max *)\n"
                        f"Definition range_{role}_{kind} {sig4} : Z :=\n  {t}.\n\n")
            elif kind == "window":
                t, ty = ex.expr(v)
                if ty != "Q":
                    fail(f"{path}:{v.lineno}", f"window value {ast.unparse(v)} does not depend on the window")
                out += (f"(* disparity_range: value stored for a window (interior pixel) in the {role} range map;\n"
                        "   window_nanmin / window_nanmax: np.nanmin / np.nanmax(<windows>, axis=(2, 3)) *)\n"
                        f"Definition range_{role}_window (window_nanmin window_nanmax : Q) (marge : Z) : Q :=\n  {t}.\n\n")
            else:
                factor, order, mode = v
                t, ty = ex.expr(factor)
                if ty != "Z":
                    fail(f"{path}:{factor.lineno}", "non-integer zoom factor")
                m = "ZoomNearest" if mode == "nearest" else "ZoomOther"
                out += (f"(* disparity_range: zoom(<{role} range map>, factor, order=, mode=) *)\n"
                        f"Definition range_{role}_zoom (scale_factor : Z) : Z * Z * zoom_mode :=\n  ({t}, {order}, {m}).\n\n")
    out += ("(* disparity_range: the test of the early return before the zoom *)\n"
            f"Definition range_zoom_skipped (scale_factor : Z) : bool :=\n  {ex.test(skip_tests[0].test)}.\n\n")
    return out, [(path, f"lines {fn.lineno}-{fn.end_lineno} (FixedZoomPyramid.disparity_range)", sha1_of(seg(src, fn))),
                 (path, f"lines {inits[0].lineno}-{inits[0].end_lineno} (FixedZoomPyramid.__init__)",
                  sha1_of(seg(src, inits[0])))]


def hook_safe(hook, node):
    try:
        r = hook(node)
    except Exception:  # a reduction the hook refuses: not the window size
        return False
    return r is not None and r[0] == "window_size"


HEADER = """From Coq Require Import ZArith QArith Bool List.
From Pandora Require Import Model.ScaleArith.
Import ListNotations.
Open Scope Z_scope.

"""


def guarded(name, fn):
    try:
        fn()
    except BaseException as exc:
        # fail closed: no stale arithmetic from an earlier run may stay behind for the obligations to be checked
        # against; an empty file makes every obligation (and what is built on them) fail to build
        msg = f"{type(exc).__name__}: {exc}".replace("*)", "* )").replace("(*", "( *")
        emit(name, f"(* TRANSLATION FAILED, nothing generated:\n   {msg}\n*)\n", [])
        raise


def translate():
    sm, src1, counts = translate_state_machine(os.path.join(REPO, "pandora", "state_machine.py"))
    path, changed = emit("ScaleArith", HEADER + sm, src1)
    print(f"gen_scale_arith: {path} {'rewritten' if changed else 'unchanged'} arithmetic statements translated: "
          f"run_prepare multi={counts[0]} mono={counts[1]}, matching_cost_prepare={counts[2]}, run_multiscale={counts[3]}")


def translate_range():
    dr, src2 = translate_disparity_range(os.path.join(REPO, "pandora", "multiscale", "fixed_zoom_pyramid.py"))
    path, changed = emit("ScaleArithRange", HEADER + dr, src2)
    print(f"gen_scale_arith_range: {path} {'rewritten' if changed else 'unchanged'} (disparity_range: offset, "
          "initial / window / invalid-index values and zoom call of the two range maps)")


def main():
    guarded("ScaleArith", translate)


if __name__ == "__main__":
    try:
        main()
    except Exception as exc:  # fail closed, one line for the caller
        print(f"TRANSLATION-ERROR gen_scale_arith: {type(exc).__name__}: {exc}")
        sys.exit(3)
