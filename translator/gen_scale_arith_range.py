"""T-gen: coq/Gen/ScaleArithRange.v -- the interval expressions of FixedZoomPyramid.disparity_range (window offset,
np.full_like initial values, nanmin - marge / nanmax + marge of the windows, values at the invalid indices, zoom calls),
translated from the Python `ast` by translator/gen_scale_arith.py (see its docstring; fail closed).  Separate entry point
so that C08, which only consumes the state-machine part (Gen/ScaleArith.v), does not depend on this file."""
import sys

import gen_scale_arith


def main():
    gen_scale_arith.guarded("ScaleArithRange", gen_scale_arith.translate_range)


if __name__ == "__main__":
    try:
        main()
    except Exception as exc:  # fail closed, one line for the caller
        print(f"TRANSLATION-ERROR gen_scale_arith_range: {type(exc).__name__}: {exc}")
        sys.exit(3)
