"""T-gen: coq/Gen/Schemas.v from every built-in check_conf of pandora/ and from the input
schemas / defaults of pandora/check_configuration.py.

How: the method registries are read from the imported package (introspection: which class
serves which method name, class constants for the defaults); the body of each check_conf,
of the class-level `schema` dictionaries and of the module-level input schemas is read with
Python `ast` and interpreted with a SMALL vocabulary of statement / expression shapes.
Anything outside that vocabulary raises TranslationError naming file:line (fail closed)."""
import ast
import fractions
import inspect
import math
import sys
import textwrap

from common import emit, fail, sha1_of, REPO, TranslationError

# kind, module, abstract class, registry attribute, method key
KINDS = [
    ("matching_cost", "pandora.matching_cost", "AbstractMatchingCost", "matching_cost_methods_avail", "matching_cost_method"),
    ("aggregation", "pandora.aggregation", "AbstractAggregation", "aggreg_methods_avail", "aggregation_method"),
    ("disparity", "pandora.disparity", "AbstractDisparity", "disparity_methods_avail", "disparity_method"),
    ("refinement", "pandora.refinement", "AbstractRefinement", "subpixel_methods_avail", "refinement_method"),
    ("filter", "pandora.filter", "AbstractFilter", "filter_methods_avail", "filter_method"),
    ("validation", "pandora.validation", "AbstractValidation", "validation_methods_avail", "validation_method"),
    ("cost_volume_confidence", "pandora.cost_volume_confidence", "AbstractCostVolumeConfidence",
     "confidence_methods_avail", "confidence_method"),
    ("multiscale", "pandora.multiscale", "AbstractMultiscale", "multiscale_methods_avail", "multiscale_method"),
]
PYTYPES = {"int": "TyInt", "float": "TyFloat", "str": "TyStr", "bool": "TyBool", "dict": "TyDict", "list": "TyList"}
ORACLES = {"rasterio_can_open", "rasterio_can_open_mandatory"}

STEP_GUARD = """
if "pandora2d" not in sys.modules:
    if "step" in cfg and cfg["step"] != 1:
        raise ValueError("Step parameter cannot be different from 1")
"""
GRIDS_GUARD = """
if isinstance(left_img.attrs["disparity_source"], str) or isinstance(right_img.attrs["disparity_source"], str):
    raise TypeError("Multiscale processing does not accept input disparity grids.")
"""
IS_METHOD_BODY = """
def is_method(string_method, methods):
    if string_method in methods:
        return True
    logging.error("% is not in available methods : ", string_method + ", ".join(methods))
    return False
"""
CAN_OPEN_MANDATORY_BODY = """
def rasterio_can_open_mandatory(file_):
    try:
        rasterio_open(file_)
        return True
    except Exception as exc:
        logging.warning("Impossible to read file %: %", file_, exc)
        return False
"""
CAN_OPEN_BODY = """
def rasterio_can_open(file_):
    if file_ == "none" or file_ is None:
        return True
    return rasterio_can_open_mandatory(file_)
"""


class Where:
    def __init__(self, path, base_line):
        self.path = path
        self.base = base_line

    def at(self, node):
        return f"{self.path}:{self.base + getattr(node, 'lineno', 1) - 1}"


def norm_dump(node):
    """ast.dump without docstrings, annotations, raise messages: the shape we compare templates on"""
    node = ast.parse(ast.unparse(node))

    class Strip(ast.NodeTransformer):
        def visit_FunctionDef(self, n):
            self.generic_visit(n)
            if n.body and isinstance(n.body[0], ast.Expr) and isinstance(n.body[0].value, ast.Constant) \
                    and isinstance(n.body[0].value.value, str):
                n.body = n.body[1:]
            n.returns = None
            for a in n.args.args + n.args.kwonlyargs:
                a.annotation = None
            return n

    node = Strip().visit(node)
    return ast.dump(node)


def same_shape(node, template_src):
    return norm_dump(node) == norm_dump(ast.parse(textwrap.dedent(template_src)).body[0])


def coq_str(s):
    if not isinstance(s, str) or any(ord(c) < 32 or ord(c) > 126 for c in s):
        raise TranslationError(f"string constant not printable ASCII: {s!r}")
    return '"' + s.replace('"', '""') + '"'


def coq_z(z):
    return f"({z})%Z"


def coq_jv(v, w):
    """Python constant -> Coq jv.  A finite float is written as its shortest round-trip decimal."""
    if v is None:
        return "JNull"
    if isinstance(v, bool):
        return f"(JBool {'true' if v else 'false'})"
    if isinstance(v, int):
        return f"(JInt {coq_z(v)})"
    if isinstance(v, float):
        if math.isnan(v):
            return "JNan"
        if math.isinf(v):
            return f"(JInf {'true' if v < 0 else 'false'})"
        q = fractions.Fraction(repr(v))
        return f"(JFloat ({q.numerator} # {q.denominator})%Q)"
    if isinstance(v, str):
        return f"(JStr {coq_str(v)})"
    if isinstance(v, dict):
        return "(JDict [" + "; ".join(f"({coq_str(k)}, {coq_jv(x, w)})" for k, x in v.items()) + "])"
    if isinstance(v, list):
        return "(JList [" + "; ".join(coq_jv(x, w) for x in v) + "])"
    fail(w, f"default value of unsupported type {type(v).__name__}: {v!r}")


# ------------------------------------------------------------------ lambdas


class LambdaTr:
    def __init__(self, var, where, node):
        self.var = var
        self.w = where.at(node)

    def term(self, n):
        if isinstance(n, ast.Name):
            if n.id != self.var:
                fail(self.w, f"free variable {n.id} in lambda")
            return "TVar"
        if isinstance(n, ast.Constant) and isinstance(n.value, int) and not isinstance(n.value, bool):
            return f"(TLit {coq_z(n.value)})"
        if isinstance(n, ast.UnaryOp) and isinstance(n.op, ast.USub) and isinstance(n.operand, ast.Constant) \
                and isinstance(n.operand.value, int) and not isinstance(n.operand.value, bool):
            return f"(TLit {coq_z(-n.operand.value)})"
        if isinstance(n, ast.BinOp) and isinstance(n.op, ast.Mod):
            m = n.right
            if not (isinstance(m, ast.Constant) and isinstance(m.value, int) and not isinstance(m.value, bool)
                    and m.value > 0):
                fail(self.w, f"modulus is not a positive integer literal: {ast.unparse(n)}")
            return f"(TMod {self.term(n.left)} {coq_z(m.value)})"
        fail(self.w, f"unsupported arithmetic term in lambda: {ast.unparse(n)}")

    def is_var(self, n):
        return isinstance(n, ast.Name) and n.id == self.var

    def cmp1(self, op, a, b):
        ops = {ast.Lt: "CLt", ast.LtE: "CLe", ast.Gt: "CGt", ast.GtE: "CGe", ast.Eq: "CEq", ast.NotEq: "CNe"}
        if type(op) in ops:
            return f"(BCmp {ops[type(op)]} {self.term(a)} {self.term(b)})"
        if isinstance(op, (ast.In, ast.NotIn)):
            if not isinstance(b, (ast.Tuple, ast.List)) or not b.elts:
                fail(self.w, f"'in' with something else than a literal tuple: {ast.unparse(b)}")
            zs = []
            for e in b.elts:
                if not (isinstance(e, ast.Constant) and isinstance(e.value, int) and not isinstance(e.value, bool)):
                    fail(self.w, f"'in' tuple element is not an integer literal: {ast.unparse(e)}")
                zs.append(coq_z(e.value))
            r = f"(BIn {self.term(a)} [{'; '.join(zs)}])"
            return r if isinstance(op, ast.In) else f"(BNot {r})"
        if isinstance(op, (ast.Is, ast.IsNot)):
            if not (self.is_var(a) and isinstance(b, ast.Constant) and b.value is None):
                fail(self.w, f"'is' other than '<param> is None': {ast.unparse(a)} is {ast.unparse(b)}")
            return "BIsNone" if isinstance(op, ast.Is) else "(BNot BIsNone)"
        fail(self.w, f"unsupported comparison operator {type(op).__name__}")

    def bexp(self, n):
        if isinstance(n, ast.Compare):
            parts = []
            left = n.left
            for op, right in zip(n.ops, n.comparators):
                parts.append(self.cmp1(op, left, right))
                left = right
            if len(parts) > 1:
                # a chain evaluates the middle operand once; it must be side-effect free and cheap: a term
                for mid in n.comparators[:-1]:
                    self.term(mid)
            out = parts[-1]
            for p in reversed(parts[:-1]):
                out = f"(BAnd {p} {out})"
            return out
        if isinstance(n, ast.BoolOp):
            vals = [self.bexp(v) for v in n.values]
            c = "BAnd" if isinstance(n.op, ast.And) else "BOr"
            out = vals[-1]
            for p in reversed(vals[:-1]):
                out = f"({c} {p} {out})"
            return out
        if isinstance(n, ast.BinOp) and isinstance(n.op, ast.BitAnd):
            return f"(BBitAnd {self.bexp(n.left)} {self.bexp(n.right)})"
        if isinstance(n, ast.UnaryOp) and isinstance(n.op, ast.Not):
            return f"(BNot {self.bexp(n.operand)})"
        if isinstance(n, ast.Constant):
            if not isinstance(n.value, (str, bool, int, type(None))):
                fail(self.w, f"constant lambda body of type {type(n.value).__name__}")
            return f"(BConst {'true' if bool(n.value) else 'false'})"
        if isinstance(n, ast.Call):
            f = ast.unparse(n.func)
            if f in ("np.isnan", "numpy.isnan") and len(n.args) == 1 and not n.keywords and self.is_var(n.args[0]):
                return "BIsNan"
            if f in ("common.is_method", "is_method") and len(n.args) == 2 and not n.keywords \
                    and self.is_var(n.args[0]) and isinstance(n.args[1], ast.List) \
                    and all(isinstance(e, ast.Constant) and isinstance(e.value, str) for e in n.args[1].elts):
                check_is_method()
                return "(BIsMethod [" + "; ".join(coq_str(e.value) for e in n.args[1].elts) + "])"
            if f == "isinstance" and len(n.args) == 2 and not n.keywords and self.is_var(n.args[0]) \
                    and isinstance(n.args[1], ast.Name) and n.args[1].id in PYTYPES:
                return f"(BIsInst {PYTYPES[n.args[1].id]})"
            fail(self.w, f"unsupported call in lambda: {ast.unparse(n)}")
        fail(self.w, f"unsupported lambda body: {ast.unparse(n)}")


_IS_METHOD_OK = None


def check_is_method():
    global _IS_METHOD_OK
    if _IS_METHOD_OK is None:
        from pandora import common  # pylint: disable=import-outside-toplevel
        src = textwrap.dedent(inspect.getsource(common.is_method))
        node = ast.parse(src).body[0]
        _IS_METHOD_OK = same_shape(node, IS_METHOD_BODY)
        if not _IS_METHOD_OK:
            fail(f"{inspect.getsourcefile(common.is_method)}:{common.is_method.__code__.co_firstlineno}",
                 "common.is_method no longer has the body the model assumes")


_ORACLES_OK = None


def check_oracles():
    global _ORACLES_OK
    if _ORACLES_OK is None:
        from pandora import check_configuration as cc  # pylint: disable=import-outside-toplevel
        for fn, tmpl in ((cc.rasterio_can_open_mandatory, CAN_OPEN_MANDATORY_BODY), (cc.rasterio_can_open, CAN_OPEN_BODY)):
            node = ast.parse(textwrap.dedent(inspect.getsource(fn))).body[0]
            if not same_shape(node, tmpl):
                fail(f"{inspect.getsourcefile(fn)}:{fn.__code__.co_firstlineno}",
                     f"{fn.__name__} no longer has the body the model assumes")
        _ORACLES_OK = True


# ------------------------------------------------------------------ schemas


def schema_expr(n, where):
    w = where.at(n)
    if isinstance(n, ast.Name):
        if n.id in PYTYPES:
            return f"(SType {PYTYPES[n.id]})"
        if n.id in ORACLES:
            check_oracles()
            return f'(SFun (BOracle "{n.id}"))'
        fail(w, f"unknown name in schema: {n.id}")
    if isinstance(n, ast.Call) and isinstance(n.func, ast.Name) and n.func.id in ("And", "Or"):
        if n.keywords or not n.args:
            fail(w, f"{n.func.id} with no member or with keywords")
        members = "; ".join(schema_expr(a, where) for a in n.args)
        return f"(S{n.func.id} [{members}])"
    if isinstance(n, ast.Lambda):
        a = n.args
        if len(a.args) != 1 or a.vararg or a.kwarg or a.kwonlyargs or a.defaults or a.posonlyargs:
            fail(w, "lambda with other than exactly one plain parameter")
        return f"(SFun {LambdaTr(a.args[0].arg, where, n).bexp(n.body)})"
    if isinstance(n, ast.List):
        return "(SList [" + "; ".join(schema_expr(e, where) for e in n.elts) + "])"
    if isinstance(n, ast.Dict):
        return "(SDict [" + "; ".join(schema_items(n, where)) + "])"
    fail(w, f"unsupported schema node: {ast.unparse(n)}")


def schema_key(k, where):
    if isinstance(k, ast.Constant) and isinstance(k.value, str):
        return k.value, False
    if isinstance(k, ast.Call) and isinstance(k.func, ast.Name) and k.func.id == "OptionalKey" and len(k.args) == 1 \
            and isinstance(k.args[0], ast.Constant) and isinstance(k.args[0].value, str) and not k.keywords:
        return k.args[0].value, True
    fail(where.at(k), f"unsupported schema key: {ast.unparse(k) if k is not None else '**'}")


def schema_pairs(d, where):
    """ast.Dict -> ordered list of (key, optional, coq schema)"""
    out = []
    for k, v in zip(d.keys, d.values):
        key, opt = schema_key(k, where)
        if any(key == o[0] for o in out):
            fail(where.at(k), f"duplicate schema key {key}")
        out.append((key, opt, schema_expr(v, where)))
    return out


def fmt_items(pairs):
    return [f"({coq_str(k)}, {'true' if opt else 'false'}, {s})" for k, opt, s in pairs]


def schema_items(d, where):
    return fmt_items(schema_pairs(d, where))


# ------------------------------------------------------------------ check_conf bodies


def func_ast(fn):
    if isinstance(fn, staticmethod):
        fn = fn.__func__
    src = textwrap.dedent(inspect.getsource(fn))
    path = inspect.getsourcefile(fn)
    if not path.startswith(REPO):
        fail(path, f"source outside the tree under test {REPO}")
    node = ast.parse(src).body[0]
    return node, Where(path, fn.__code__.co_firstlineno - (node.lineno - 1) if not node.decorator_list
                       else inspect.getsourcelines(fn)[1]), src


def class_level_schema(cls):
    """AST of the class attribute `schema = {...}` (searched along the MRO)"""
    for klass in cls.__mro__:
        if "schema" in klass.__dict__:
            src = textwrap.dedent(inspect.getsource(klass))
            path = inspect.getsourcefile(klass)
            base = inspect.getsourcelines(klass)[1]
            node = ast.parse(src).body[0]
            for st in node.body:
                if isinstance(st, ast.Assign) and len(st.targets) == 1 and isinstance(st.targets[0], ast.Name) \
                        and st.targets[0].id == "schema":
                    if not isinstance(st.value, ast.Dict):
                        fail(f"{path}:{base + st.lineno - 1}", "class-level schema is not a dict literal")
                    return st.value, Where(path, base), src
            fail(f"{path}:{base}", "class attribute schema not found as a plain assignment")
    fail(cls.__name__, "no class-level schema")


def const_value(n, cls, w):
    if isinstance(n, ast.Constant):
        return n.value
    if isinstance(n, ast.UnaryOp) and isinstance(n.op, ast.USub) and isinstance(n.operand, ast.Constant) \
            and isinstance(n.operand.value, (int, float)):
        return -n.operand.value
    if isinstance(n, ast.Attribute) and isinstance(n.value, ast.Name) and n.value.id == "self" and hasattr(cls, n.attr):
        v = getattr(cls, n.attr)
        if isinstance(v, (int, float, str, bool, type(None))):
            return v
    if ast.unparse(n) in ("np.nan", "numpy.nan"):
        return float("nan")
    fail(w, f"default value is not a constant or a class constant: {ast.unparse(n)}")


def is_cfg_sub(n, key=None):
    return isinstance(n, ast.Subscript) and isinstance(n.value, ast.Name) and n.value.id == "cfg" \
        and isinstance(n.slice, ast.Constant) and isinstance(n.slice.value, str) and (key is None or n.slice.value == key)


class ConfTr:
    """interprets one check_conf (and the parents it delegates to)"""

    def __init__(self, cls):
        self.cls = cls
        self.prologue = []
        self.schema = None       # list of (key, opt, coq)
        self.checker = False
        self.validated = False
        self.returned = False
        self.sources = []

    def run(self, klass_start=None):
        mro = list(self.cls.__mro__)
        start = mro.index(klass_start) if klass_start else 0
        for klass in mro[start:]:
            if "check_conf" in klass.__dict__:
                break
        else:
            fail(self.cls.__name__, "no check_conf")
        node, where, src = func_ast(klass.__dict__["check_conf"])
        self.sources.append((where.path, f"{klass.__name__}.check_conf line {where.base}", sha1_of(src)))
        self.returned = False
        for st in node.body:
            if self.returned:
                fail(where.at(st), "statement after return")
            self.stmt(st, where, klass)
        if not self.returned:
            fail(where.at(node), "check_conf does not end with `return cfg`")

    def stmt(self, st, where, klass):
        w = where.at(st)
        if isinstance(st, ast.Expr) and isinstance(st.value, ast.Constant) and isinstance(st.value.value, str):
            return
        if self.validated and not isinstance(st, ast.Return):
            fail(w, "statement between validate and return")
        # if "k" not in cfg: cfg["k"] = E   [elif cfg["k"] == "NaN": cfg["k"] = np.nan]
        if isinstance(st, ast.If) and isinstance(st.test, ast.Compare) and len(st.test.ops) == 1 \
                and isinstance(st.test.ops[0], ast.NotIn) and isinstance(st.test.left, ast.Constant) \
                and isinstance(st.test.left.value, str) and isinstance(st.test.comparators[0], ast.Name) \
                and st.test.comparators[0].id == "cfg":
            key = st.test.left.value
            if self.schema is not None:
                fail(w, "default inserted after the schema is built")
            if not (len(st.body) == 1 and isinstance(st.body[0], ast.Assign) and len(st.body[0].targets) == 1
                    and is_cfg_sub(st.body[0].targets[0], key)):
                fail(w, f"default branch for {key} is not a single assignment cfg[{key!r}] = ...")
            val = coq_jv(const_value(st.body[0].value, self.cls, w), w)
            if not st.orelse:
                self.prologue.append(f"PDefault {coq_str(key)} {val}")
                return
            e = st.orelse
            if len(e) == 1 and isinstance(e[0], ast.If) and not e[0].orelse and isinstance(e[0].test, ast.Compare) \
                    and len(e[0].test.ops) == 1 and isinstance(e[0].test.ops[0], ast.Eq) \
                    and is_cfg_sub(e[0].test.left, key) and isinstance(e[0].test.comparators[0], ast.Constant) \
                    and e[0].test.comparators[0].value == "NaN" and len(e[0].body) == 1 \
                    and isinstance(e[0].body[0], ast.Assign) and is_cfg_sub(e[0].body[0].targets[0], key) \
                    and ast.unparse(e[0].body[0].value) in ("np.nan", "numpy.nan"):
                self.prologue.append(f"PDefaultOrNaN {coq_str(key)} {val}")
                return
            fail(w, f"unsupported else-branch of the default of {key}")
        if isinstance(st, ast.If) and same_shape(st, STEP_GUARD):
            if "pandora2d" in sys.modules:
                fail(w, "pandora2d is imported: the step guard is inactive")
            self.prologue.append(f'PRequireEq "step" {coq_z(1)}')
            return
        if isinstance(st, ast.If) and same_shape(st, GRIDS_GUARD):
            self.prologue.append("PNoGrids")
            return
        if isinstance(st, ast.Assign) and len(st.targets) == 1:
            t, v = st.targets[0], st.value
            # cfg = super().check_conf(**cfg)
            if isinstance(t, ast.Name) and t.id == "cfg":
                if ast.unparse(v) != "super().check_conf(**cfg)":
                    fail(w, f"unsupported assignment to cfg: {ast.unparse(v)}")
                if self.prologue or self.schema is not None:
                    fail(w, "super().check_conf called after other work")
                mro = list(self.cls.__mro__)
                saved = self.returned
                self.run(mro[mro.index(klass) + 1])
                if self.schema is not None or self.validated:
                    fail(w, "parent check_conf validates by itself (not modelled)")
                self.returned = saved
                return
            if isinstance(t, ast.Name) and t.id == "schema":
                if self.schema is not None:
                    fail(w, "schema assigned twice")
                if isinstance(v, ast.Dict):
                    self.schema = schema_pairs(v, where)
                    return
                if ast.unparse(v) == "self.schema":
                    d, wh, src = class_level_schema(self.cls)
                    self.sources.append((wh.path, f"class-level schema line {wh.base}", sha1_of(src)))
                    self.schema = schema_pairs(d, wh)
                    return
                fail(w, f"unsupported schema source: {ast.unparse(v)}")
            if isinstance(t, ast.Subscript) and isinstance(t.value, ast.Name) and t.value.id == "schema":
                if self.schema is None or self.checker:
                    fail(w, "schema[...] = ... before the schema exists or after Checker(schema)")
                key, opt = schema_key(t.slice, where)
                new = (key, opt, schema_expr(v, where))
                for i, old in enumerate(self.schema):
                    if old[0] == key:
                        if old[1] != opt:
                            fail(w, f"schema key {key} changes optionality")
                        self.schema[i] = new
                        break
                else:
                    self.schema.append(new)
                return
            if isinstance(t, ast.Name) and t.id == "checker":
                if ast.unparse(v) != "Checker(schema)" or self.schema is None:
                    fail(w, f"unsupported checker construction: {ast.unparse(v)}")
                self.checker = True
                return
            fail(w, f"unsupported assignment: {ast.unparse(st)}")
        if isinstance(st, ast.Expr) and ast.unparse(st.value) == "checker.validate(cfg)":
            if not self.checker:
                fail(w, "validate before Checker(schema)")
            self.validated = True
            return
        if isinstance(st, ast.Return):
            if st.value is None or ast.unparse(st.value) != "cfg":
                fail(w, "check_conf returns something else than cfg")
            self.returned = True
            return
        fail(w, f"unsupported statement in check_conf: {ast.unparse(st).splitlines()[0]}")


def check_new(abstract, registry_attr, method_key, kind):
    """the registry dispatch in __new__ must use the key / registry the model assumes"""
    fn = abstract.__dict__.get("__new__")
    if fn is None:
        fail(abstract.__name__, "no __new__")
    node, where, _ = func_ast(fn)
    keys = {n.slice.value for n in ast.walk(node) if is_cfg_sub(n)}
    regs = {n.attr for n in ast.walk(node) if isinstance(n, ast.Attribute) and n.attr.endswith("_avail")}
    if keys != {method_key}:
        fail(where.at(node), f"__new__ of {kind} reads cfg keys {sorted(keys)}, expected only {method_key}")
    if regs != {registry_attr}:
        fail(where.at(node), f"__new__ of {kind} uses registries {sorted(regs)}, expected {registry_attr}")
    if f"isinstance(cfg['{method_key}'], str)" not in ast.unparse(node):
        fail(where.at(node), f"__new__ of {kind} does not test isinstance(cfg['{method_key}'], str)")


def module_assign(mod, name):
    src = inspect.getsource(mod)
    path = inspect.getsourcefile(mod)
    tree = ast.parse(src)
    found = None
    for st in tree.body:
        tgt = None
        if isinstance(st, ast.Assign) and len(st.targets) == 1 and isinstance(st.targets[0], ast.Name):
            tgt = st.targets[0].id
        elif isinstance(st, ast.AnnAssign) and isinstance(st.target, ast.Name):
            tgt = st.target.id
        if tgt == name:
            if found is not None:
                fail(f"{path}:{st.lineno}", f"{name} assigned twice at module level")
            found = st
    if found is None:
        fail(path, f"module-level {name} not found")
    return found.value, Where(path, 1), ast.get_source_segment(src, found)


def main():
    sys.path.insert(0, REPO)
    import importlib

    import pandora  # noqa: F401  pylint: disable=import-outside-toplevel,unused-import

    body = ("From Coq Require Import ZArith QArith List String.\n"
            "From Pandora Require Import Model.Json Model.Checker.\n"
            "Import ListNotations.\nOpen Scope string_scope.\n\n")
    sources = []
    names = []
    nparams = 0
    for kind, modname, absname, reg_attr, method_key in KINDS:
        mod = importlib.import_module(modname)
        abstract = getattr(mod, absname)
        path = inspect.getsourcefile(abstract)
        if not path.startswith(REPO):
            fail("import", f"pandora imported from {path}, not from {REPO}")
        check_new(abstract, reg_attr, method_key, kind)
        registry = getattr(abstract, reg_attr)
        by_class = {}
        for mname, cls in registry.items():
            if not isinstance(mname, str):
                fail(path, f"registry key {mname!r} is not a string")
            by_class.setdefault(cls, []).append(mname)
        for cls, mnames in sorted(by_class.items(), key=lambda kv: sorted(kv[1])[0]):
            cpath = inspect.getsourcefile(cls)
            if not cpath.startswith(REPO + "/pandora/"):
                continue  # plugin from outside the tree under test: not a built-in
            tr = ConfTr(cls)
            tr.run()
            if tr.schema is None or not tr.validated:
                fail(cpath, f"{cls.__name__}.check_conf never validates a schema")
            if not any(k == method_key and not opt for k, opt, _ in tr.schema):
                fail(cpath, f"schema of {cls.__name__} has no mandatory key {method_key}")
            ident = "cls_" + kind + "_" + sorted(mnames)[0].replace("-", "_")
            names.append(ident)
            nparams += len(tr.schema)
            sources += tr.sources
            body += (f"(* {cls.__module__}.{cls.__name__} *)\n"
                     f"Definition {ident} : class_def := mkClass {coq_str(kind)} {coq_str(method_key)}\n"
                     f"  [{'; '.join(coq_str(m) for m in sorted(mnames))}]\n"
                     f"  [{'; '.join(tr.prologue)}]\n"
                     "  [" + ";\n   ".join(fmt_items(tr.schema)) + "].\n\n")
    body += "Definition classes : list class_def :=\n  [" + "; ".join(names) + "].\n\n"

    # interpolation methods (validation step): classes without schema, only the registry matters
    from pandora import validation  # pylint: disable=import-outside-toplevel
    interp = sorted(validation.AbstractInterpolation.interpolation_methods_avail)
    body += "Definition interpolation_methods : list string := [" + "; ".join(coq_str(m) for m in interp) + "].\n\n"

    # input section (C17): schemas and defaults of check_configuration.py
    from pandora import check_configuration as cc  # pylint: disable=import-outside-toplevel
    for name in ("input_configuration_schema", "input_configuration_schema_integer_disparity",
                 "input_configuration_schema_left_disparity_grids_right_none",
                 "input_configuration_schema_left_disparity_grids_right_grids"):
        node, where, seg = module_assign(cc, name)
        if not isinstance(node, ast.Dict):
            fail(where.at(node), f"{name} is not a dict literal")
        pairs = schema_pairs(node, where)
        if [p[0] for p in pairs] != ["left", "right"]:
            fail(where.at(node), f"{name} does not have exactly the keys left, right")
        sources.append((where.path, name, sha1_of(seg)))
        for side, (_, _, _) in zip(("left", "right"), pairs):
            sub = node.values[0 if side == "left" else 1]
            if not isinstance(sub, ast.Dict):
                fail(where.at(sub), f"{name}[{side}] is not a dict literal")
            body += (f"Definition {name}_{side} : list (string * bool * schema) :=\n  ["
                     + ";\n   ".join(schema_items(sub, where)) + "].\n\n")
    dflt = cc.default_short_configuration_input
    body += f"Definition default_short_configuration_input : dict :=\n  match {coq_jv(dflt, 'default_short_configuration_input')} with JDict d => d | _ => [] end.\n"
    sources.append((inspect.getsourcefile(cc), "default_short_configuration_input (module attribute)", sha1_of(repr(dflt))))

    path, changed = emit("Schemas", body, sources)
    print(f"gen_schemas: {path} {'rewritten' if changed else 'unchanged'} classes={len(names)} schema_keys={nparams}")


if __name__ == "__main__":
    try:
        main()
    except Exception as exc:  # fail closed, one line for the caller
        print(f"TRANSLATION-ERROR gen_schemas: {type(exc).__name__}: {exc}")
        sys.exit(3)
