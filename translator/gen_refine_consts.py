"""T-gen: coq/Gen/RefineConsts.v -- the two flag constants the refinement step uses.

Read from the imported module pandora.constants (the objects the numba kernels
freeze at compile time).  Anything that is not a plain non-negative int is a
TranslationError (fail closed).  The theorems of C06 are proved for any values
satisfying the boolean predicate Model.Refine.consts_wf (bit 3 is a single bit
outside the 'invalid' mask); Props/C06.v re-proves it on the generated values."""
import inspect
import sys

from common import emit, fail, sha1_of, REPO

NAMES = {"PANDORA_MSK_PIXEL_INVALID": "msk_invalid", "PANDORA_MSK_PIXEL_STOPPED_INTERPOLATION": "msk_stopped"}


def main():
    sys.path.insert(0, REPO)
    import pandora.constants as cst  # pylint: disable=import-outside-toplevel

    src_file = inspect.getsourcefile(cst)
    if not src_file.startswith(REPO):
        fail("import", f"pandora imported from {src_file}, not from {REPO}")
    body = "From Coq Require Import ZArith.\nOpen Scope Z_scope.\n\n"
    vals = []
    for py, coq in NAMES.items():
        if not hasattr(cst, py):
            fail(src_file, f"constant {py} is missing")
        v = getattr(cst, py)
        if isinstance(v, bool) or not isinstance(v, int) or v < 0:
            fail(src_file, f"constant {py} = {v!r} is not a non-negative int")
        body += f"Definition {coq} : Z := {v}.\n"
        vals.append((py, v))
    path, changed = emit("RefineConsts", body, [(src_file, "+".join(NAMES), sha1_of(repr(vals)))])
    print(f"gen_refine_consts: {path} {'rewritten' if changed else 'unchanged'} {vals}")


if __name__ == "__main__":
    try:
        main()
    except Exception as exc:  # fail closed, one line for the caller
        print(f"TRANSLATION-ERROR gen_refine_consts: {type(exc).__name__}: {exc}")
        sys.exit(3)
