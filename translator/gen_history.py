"""T-gen: coq/Gen/History.v -- the state that survives a call of check/run (C18, history part).

(1) PandoraMachine (pandora/state_machine.py), read with `ast`:
    * the attributes assigned by __init__;
    * for run_prepare and for every callback named by the run table (`prepare`/`after` entries of
      _transitions_run, read from the class body), the attributes it READS BEFORE WRITING them itself,
      the attributes it assigns on every path, and those it assigns on some path; computed separately
      for the two values of the multiscale test (`self.num_scales > 1`) in run_prepare and of the guard
      `self.right_disp_map == "cross_checking_accurate"` in the callbacks;
    * which callbacks belong to the trigger that leaves state "begin" (they run first in every run).
(2) class-level / module-level dictionaries written inside functions (the shared matching-cost schema,
    the input schema of check_configuration.py): for every writer the keys it overwrites before it
    validates.  Any other such dictionary that is not a plugin registry is a TranslationError.

Fail-closed: unknown shapes raise TranslationError naming file:line."""
import ast
import glob
import os
import sys

from common import emit, fail, sha1_of, REPO

MACHINE_METHODS = {"add_transitions", "remove_transitions", "remove_transition", "set_state", "trigger",
                   "check_band_pipeline", "check_conf", "run", "is_not_last_scale"}
IGNORED_ATTRS = {"_transitions_run", "_transitions_check", "state"}   # class constants / the automaton state (C01)
LAST = None     # the datum of the last run of main(), for the harness (frame audit on real runs)
GUARD = "cross_checking_accurate"
MUTATORS = {"pop", "append", "extend", "insert", "remove", "clear", "update", "sort", "reverse", "setdefault",
            "add_cumulative", "add_non_cumulative"}


def q(s):
    return '"' + s + '"'


def qlist(xs):
    return "[" + "; ".join(q(x) for x in xs) + "]"


def self_attr(node):
    if isinstance(node, ast.Attribute) and isinstance(node.value, ast.Name) and node.value.id == "self":
        return node.attr
    return None


def is_rdm_guard(test):
    return (isinstance(test, ast.Compare) and self_attr(test.left) == "right_disp_map" and len(test.ops) == 1
            and isinstance(test.ops[0], ast.Eq) and isinstance(test.comparators[0], ast.Constant)
            and test.comparators[0].value == GUARD)


def is_multi_test(test):
    return (isinstance(test, ast.Compare) and self_attr(test.left) == "num_scales" and len(test.ops) == 1
            and isinstance(test.ops[0], ast.Gt) and isinstance(test.comparators[0], ast.Constant)
            and test.comparators[0].value == 1)


class Flow:
    """reads-before-write / must-writes / may-writes of one method body, for fixed flag values"""

    def __init__(self, where, rdm, multi):
        self.where = where
        self.rdm = rdm
        self.multi = multi
        self.reads = []
        self.may = []
        self.mutated = []

    def loads(self, node, assigned):
        if node is None:
            return
        for sub in ast.walk(node):
            # self.x.pop(0), self.x.append(..): the attribute is read and its value replaced
            if isinstance(sub, ast.Call) and isinstance(sub.func, ast.Attribute) and sub.func.attr in MUTATORS:
                a = self_attr(sub.func.value)
                if a is not None and a not in IGNORED_ATTRS:
                    if a not in assigned and a not in self.reads:
                        self.reads.append(a)
                    self.mutated.append(a)
        for sub in ast.walk(node):
            a = self_attr(sub)
            if a is None or a in IGNORED_ATTRS:
                continue
            if isinstance(sub.ctx, ast.Load):
                if a in MACHINE_METHODS:
                    continue
                if a not in assigned and a not in self.reads:
                    self.reads.append(a)

    def targets(self, t, assigned):
        a = self_attr(t)
        if a is not None:
            if a in IGNORED_ATTRS or a in MACHINE_METHODS:
                fail(self.where, f"assignment to self.{a}")
            assigned.add(a)
            if a not in self.may:
                self.may.append(a)
            return
        if isinstance(t, (ast.Tuple, ast.List)):
            for e in t.elts:
                self.targets(e, assigned)
            return
        if isinstance(t, ast.Name):
            return
        if isinstance(t, ast.Subscript):
            # cfg["pipeline"][input_step]["indicator"] = ... : configuration; self.x[...] = ... is a read of x
            self.loads(t, assigned)
            return
        if isinstance(t, ast.Attribute):
            # disp["x"].data = ... through a local: no machine attribute is rebound
            self.loads(t, assigned)
            return
        fail(self.where, f"unknown assignment target {type(t).__name__}")

    def block(self, stmts, assigned):
        for st in stmts:
            ln = getattr(st, "lineno", "?")
            if isinstance(st, ast.Expr):
                self.loads(st.value, assigned)
            elif isinstance(st, ast.Assign):
                self.loads(st.value, assigned)
                for t in st.targets:
                    self.targets(t, assigned)
            elif isinstance(st, ast.AnnAssign):
                if st.value is not None:
                    self.loads(st.value, assigned)
                    self.targets(st.target, assigned)
            elif isinstance(st, ast.AugAssign):
                self.loads(st.value, assigned)
                self.loads(st.target, assigned)
                a = self_attr(st.target)
                if a is not None:
                    if a not in assigned and a not in self.reads:
                        self.reads.append(a)
                    self.targets(st.target, assigned)
            elif isinstance(st, ast.If):
                self.loads(st.test, assigned)
                if is_rdm_guard(st.test):
                    self.block(st.body if self.rdm else st.orelse, assigned)
                elif is_multi_test(st.test) and self.multi is not None:
                    self.block(st.body if self.multi else st.orelse, assigned)
                else:
                    a1, a2 = set(assigned), set(assigned)
                    self.block(st.body, a1)
                    self.block(st.orelse, a2)
                    assigned |= (a1 & a2)
            elif isinstance(st, (ast.For, ast.While)):
                self.loads(st.iter if isinstance(st, ast.For) else st.test, assigned)
                a1 = set(assigned)
                self.block(st.body, a1)
                self.block(st.orelse, set(a1))
            elif isinstance(st, ast.Try):
                a1 = set(assigned)
                self.block(st.body, a1)
                for h in st.handlers:
                    self.block(h.body, set(assigned))
                self.block(st.finalbody, assigned)
            elif isinstance(st, ast.With):
                for it in st.items:
                    self.loads(it.context_expr, assigned)
                self.block(st.body, assigned)
            elif isinstance(st, ast.Return):
                self.loads(st.value, assigned)
            elif isinstance(st, ast.Raise):
                self.loads(st.exc, assigned)
            elif isinstance(st, (ast.Pass, ast.Break, ast.Continue)):
                continue
            else:
                fail(f"{self.where}:{ln}", f"statement {type(st).__name__}")


def analyse(fn, where, rdm, multi):
    for n in ast.walk(fn):
        # attribute access the frames cannot see
        if isinstance(n, ast.Call) and isinstance(n.func, ast.Name) and n.func.id in ("getattr", "setattr", "delattr", "vars"):
            if n.args and isinstance(n.args[0], ast.Name) and n.args[0].id == "self":
                fail(f"{where}:{n.lineno}", f"{n.func.id}(self, ...) in a machine method")
        if isinstance(n, ast.Attribute) and isinstance(n.value, ast.Name) and n.value.id == "self" and n.attr == "__dict__":
            fail(f"{where}:{n.lineno}", "self.__dict__ in a machine method")
    fl = Flow(where, rdm, multi)
    must = set()
    fl.block(fn.body, must)
    may = fl.may + [a for a in fl.mutated if a not in fl.may]
    return fl.reads, sorted(must), may


# ---------------------------------------------------------------- shared dictionaries


def dict_literal_names(body):
    out = {}
    for st in body:
        tgt, val = None, None
        if isinstance(st, ast.Assign) and len(st.targets) == 1 and isinstance(st.targets[0], ast.Name):
            tgt, val = st.targets[0].id, st.value
        elif isinstance(st, ast.AnnAssign) and isinstance(st.target, ast.Name) and st.value is not None:
            tgt, val = st.target.id, st.value
        if tgt and isinstance(val, ast.Dict):
            out[tgt] = val
    return out


def dict_keys(d, where):
    ks = []
    for k in d.keys:
        if not (isinstance(k, ast.Constant) and isinstance(k.value, str)):
            fail(where, "dictionary key is not a string literal")
        ks.append(k.value)
    return ks


def scan_shared_dicts(files):
    """returns list of (dict name, [base keys], [(writer, [keys])]) and the list of registries seen"""
    module_dicts = {}    # (rel, name) -> ast.Dict
    class_dicts = {}     # attr name -> (rel, class, ast.Dict)
    trees = {}
    for path in files:
        rel = os.path.relpath(path, REPO)
        tree = ast.parse(open(path).read())
        trees[rel] = tree
        for n, d in dict_literal_names(tree.body).items():
            module_dicts[(rel, n)] = d
        for node in tree.body:
            if isinstance(node, ast.ClassDef):
                for n, d in dict_literal_names(node.body).items():
                    class_dicts.setdefault(n, []).append((rel, node.name, d))
    found = {}           # dict id -> {"base": [...], "writers": [(writer, keys)]}
    registries = []

    def base_of(expr, rel, aliases):
        """which shared dict an expression denotes: (id, sub key or None)"""
        if isinstance(expr, ast.Name):
            if expr.id in aliases:
                return aliases[expr.id]
            if (rel, expr.id) in module_dicts:
                return ((rel, expr.id), None)
            return None
        if isinstance(expr, ast.Attribute) and isinstance(expr.value, ast.Name) and expr.value.id in ("self", "cls"):
            if expr.attr in class_dicts:
                return (("class", expr.attr), None)
            return None
        if isinstance(expr, ast.Subscript):
            b = base_of(expr.value, rel, aliases)
            if b is not None and b[1] is None and isinstance(expr.slice, ast.Constant) and isinstance(expr.slice.value, str):
                return (b[0], expr.slice.value)
            if b is not None:
                return (b[0], "?")
        return None

    for rel, tree in trees.items():
        for cls in [None] + [n for n in tree.body if isinstance(n, ast.ClassDef)]:
            fns = [n for n in (tree.body if cls is None else cls.body) if isinstance(n, ast.FunctionDef)]
            for fn in fns:
                aliases = {}
                writer = (cls.name + "." if cls else "") + fn.name
                where = f"{rel}:{fn.lineno}"
                for st in ast.walk(fn):
                    if isinstance(st, ast.Assign) and len(st.targets) == 1:
                        t = st.targets[0]
                        if isinstance(t, ast.Name):
                            b = base_of(st.value, rel, aliases)
                            if b is not None:
                                aliases[t.id] = b
                            continue
                        if isinstance(t, ast.Subscript):
                            b = base_of(t.value, rel, aliases)
                            if b is None:
                                continue
                            if fn.name in ("decorator", "register_subclass") or any(
                                    isinstance(p, ast.FunctionDef) and p.name == "register_subclass" for p in [fn]):
                                registries.append(f"{rel}:{writer}")
                                continue
                            if not (isinstance(t.slice, ast.Constant) and isinstance(t.slice.value, str)):
                                fail(f"{rel}:{st.lineno}", "shared dictionary written under a computed key")
                            did = (b[0], b[1])
                            found.setdefault(did, {}).setdefault(writer, []).append(t.slice.value)
                    if isinstance(st, ast.Call) and isinstance(st.func, ast.Attribute) and st.func.attr in (
                            "update", "pop", "clear", "setdefault", "popitem"):
                        b = base_of(st.func.value, rel, aliases)
                        if b is None:
                            continue
                        if st.func.attr != "update" or len(st.args) != 1:
                            fail(f"{rel}:{st.lineno}", f"shared dictionary mutated with .{st.func.attr}")
                        did = (b[0], b[1])
                        found.setdefault(did, {}).setdefault(writer + ":" + ast.unparse(st.args[0]), []).append(st.args[0])
                    if isinstance(st, ast.Delete):
                        for t in st.targets:
                            if isinstance(t, ast.Subscript) and base_of(t.value, rel, aliases) is not None:
                                fail(f"{rel}:{st.lineno}", "del on a shared dictionary")
    # nested register decorators: the inner function is called `decorator`; ast.walk(fn) above reaches it from
    # register_subclass too, hence the name test on both.
    out = []
    for (did, sub), writers in sorted(found.items(), key=lambda kv: str(kv[0])):
        if did[0] == "class":
            cands = class_dicts[did[1]]
            if len(cands) != 1:
                fail(str(did), "class-level dictionary name is ambiguous")
            rel, cname, lit = cands[0]
            name = f"{cname}.{did[1]}"
        else:
            rel, n = did
            lit = module_dicts[did]
            name = f"{os.path.basename(rel)[:-3]}.{n}"
        if sub == "?":
            fail(name, "written under a computed sub-key")
        if sub is not None:
            idx = dict_keys(lit, name).index(sub) if sub in dict_keys(lit, name) else -1
            if idx < 0 or not isinstance(lit.values[idx], ast.Dict):
                fail(name, f"sub-dictionary {sub!r} is not a literal")
            lit = lit.values[idx]
            name += f"[{sub}]"
        base = dict_keys(lit, name)
        ws = []
        for w, keys in sorted(writers.items()):
            resolved = []
            for k in keys:
                if isinstance(k, str):
                    resolved.append(k)
                else:
                    # .update(<expr>): expr must be NAME["left"] with NAME chosen among module-level dict literals
                    # (one writer per candidate) -- handled below
                    resolved.append(k)
            ws.append((w, resolved))
        out.append((name, rel, base, ws))
    return out, sorted(set(registries)), module_dicts


def resolve_update_variants(name, rel, expr, fn_tree, module_dicts):
    """`.update(base_input_configuration_schema["left"])` where the local name is bound, in the same function, to one
    of several module-level dictionary literals: one writer per candidate"""
    if not (isinstance(expr, ast.Subscript) and isinstance(expr.value, ast.Name)
            and isinstance(expr.slice, ast.Constant) and isinstance(expr.slice.value, str)):
        fail(name, f"unknown update argument {ast.unparse(expr)}")
    local, sub = expr.value.id, expr.slice.value
    cands = []
    for st in ast.walk(fn_tree):
        if isinstance(st, ast.Assign) and len(st.targets) == 1 and isinstance(st.targets[0], ast.Name) \
                and st.targets[0].id == local:
            if not (isinstance(st.value, ast.Name) and (rel, st.value.id) in module_dicts):
                fail(name, f"{local} is bound to something else than a module-level dictionary literal")
            cands.append(st.value.id)
    if (rel, local) in module_dicts and not cands:
        cands = [local]
    if not cands:
        fail(name, f"no binding found for {local}")
    out = []
    for c in cands:
        lit = module_dicts[(rel, c)]
        ks = dict_keys(lit, c)
        if sub not in ks or not isinstance(lit.values[ks.index(sub)], ast.Dict):
            fail(name, f"{c}[{sub!r}] is not a dictionary literal")
        out.append((c, dict_keys(lit.values[ks.index(sub)], c)))
    return out


def main():
    path = os.path.join(REPO, "pandora", "state_machine.py")
    text = open(path).read()
    tree = ast.parse(text)
    cls = next((n for n in tree.body if isinstance(n, ast.ClassDef) and n.name == "PandoraMachine"), None)
    if cls is None:
        fail(path, "class PandoraMachine not found")
    methods = {n.name: n for n in cls.body if isinstance(n, ast.FunctionDef)}
    rel = os.path.relpath(path, REPO)
    sources = []

    def src(fn):
        seg = ast.get_source_segment(text, fn) or ""
        sources.append((path, f"PandoraMachine.{fn.name} lines {fn.lineno}-{fn.end_lineno}", sha1_of(seg)))

    # run table
    table = None
    for st in cls.body:
        if isinstance(st, ast.Assign) and len(st.targets) == 1 and isinstance(st.targets[0], ast.Name) \
                and st.targets[0].id == "_transitions_run":
            table = ast.literal_eval(st.value)
    if not isinstance(table, list):
        fail(path, "_transitions_run is not a literal list")
    callbacks, first = [], []
    trig_cbs = []
    for tr in table:
        trig_cbs.append((tr.get("trigger"), [n for key in ("prepare", "before", "after") if key in tr
                                             for n in (tr[key] if isinstance(tr[key], list) else [tr[key]])]))
        for key in ("prepare", "before", "after"):
            if key in tr:
                names = tr[key] if isinstance(tr[key], list) else [tr[key]]
                for n in names:
                    if n not in callbacks:
                        callbacks.append(n)
                    if tr.get("source") == "begin" and n not in first:
                        first.append(n)
        extra = set(tr) - {"trigger", "source", "dest", "prepare", "before", "after", "conditions"}
        if extra:
            fail(path, f"unknown transition keys {sorted(extra)}")
    for need in ["__init__", "run_prepare", "run_exit"] + callbacks:
        if need not in methods:
            fail(path, f"method {need} not found")
    # __init__
    src(methods["__init__"])
    _, init_must, _ = analyse(methods["__init__"], f"{rel}:__init__", False, None)
    # run_prepare, per multiscale flag
    src(methods["run_prepare"])
    prep = {}
    for multi in (False, True):
        prep[multi] = analyse(methods["run_prepare"], f"{rel}:run_prepare", False, multi)
    src(methods["run_exit"])
    ex_reads, ex_must, ex_may = analyse(methods["run_exit"], f"{rel}:run_exit", False, None)
    cbs = {}
    for n in callbacks:
        src(methods[n])
        for rdm in (False, True):
            cbs[(n, rdm)] = analyse(methods[n], f"{rel}:{n}", rdm, None)
    multiscale_cbs = []
    for tr in table:
        if "conditions" in tr:
            for key in ("prepare", "before", "after"):
                if key in tr:
                    multiscale_cbs += tr[key] if isinstance(tr[key], list) else [tr[key]]

    body = ("From Coq Require Import List String Bool.\nFrom Pandora Require Import Model.History.\n"
            "Import ListNotations.\nOpen Scope string_scope.\n\n")
    body += f"Definition attrs_init : list string :=\n  {qlist(init_must)}.\n\n"
    body += "Definition prepare_info (multi : bool) : cbinfo :=\n  if multi\n"
    for multi in (True, False):
        r, must, may = prep[multi]
        body += f"  {'then' if multi else 'else'} mkCb \"run_prepare\" {qlist(r)}\n         {qlist(must)}\n         {qlist(may)}\n"
    body += ".\n\n"
    body += f"Definition exit_info : cbinfo := mkCb \"run_exit\" {qlist(ex_reads)} {qlist(ex_must)} {qlist(ex_may)}.\n\n"
    body += "Definition callback_info (rdm : bool) : list cbinfo :=\n  if rdm then\n"
    for rdm in (True, False):
        items = []
        for n in callbacks:
            r, must, may = cbs[(n, rdm)]
            items.append(f"    mkCb {q(n)} {qlist(r)}\n         {qlist(must)}\n         {qlist(may)}")
        body += "  [\n" + ";\n".join(items) + "\n  ]\n" + ("  else\n" if rdm else "")
    body += ".\n\n"
    if len({t for t, _ in trig_cbs}) != len(trig_cbs):
        fail(path, "two run transitions with the same trigger")
    body += "Definition trigger_callbacks : list (string * list string) :=\n  [" + ";\n   ".join(
        f"({q(t)}, {qlist(l)})" for t, l in trig_cbs) + "].\n\n"
    # what pandora.run returns
    ipath = os.path.join(REPO, "pandora", "__init__.py")
    itext = open(ipath).read()
    run_fn = next((n for n in ast.parse(itext).body if isinstance(n, ast.FunctionDef) and n.name == "run"), None)
    if run_fn is None:
        fail(ipath, "function run not found")
    mparam = run_fn.args.args[0].arg
    rets = [n for n in ast.walk(run_fn) if isinstance(n, ast.Return)]
    if len(rets) != 1 or not isinstance(rets[0].value, ast.Tuple):
        fail(f"{ipath}:{run_fn.lineno}", "pandora.run does not end with one `return a, b`")
    returned = []
    for e in rets[0].value.elts:
        if not (isinstance(e, ast.Attribute) and isinstance(e.value, ast.Name) and e.value.id == mparam):
            fail(f"{ipath}:{rets[0].lineno}", "pandora.run returns something else than machine attributes")
        returned.append(e.attr)
    # the only other uses of the machine in pandora.run: run_prepare, run, run_exit, num_scales, state
    for n in ast.walk(run_fn):
        if isinstance(n, ast.Attribute) and isinstance(n.value, ast.Name) and n.value.id == mparam:
            if n.attr not in set(returned) | {"run_prepare", "run", "run_exit", "num_scales", "state"}:
                fail(f"{ipath}:{n.lineno}", f"pandora.run uses machine.{n.attr}")
    sources.append((ipath, f"run lines {run_fn.lineno}-{run_fn.end_lineno}", sha1_of(ast.get_source_segment(itext, run_fn) or "")))
    body += f"Definition returned_attrs : list string := {qlist(returned)}.\n"
    body += f"Definition first_callbacks : list string := {qlist(first)}.\n"
    body += f"Definition multiscale_callbacks : list string := {qlist(multiscale_cbs)}.\n\n"

    # shared dictionaries
    files = sorted(glob.glob(os.path.join(REPO, "pandora", "**", "*.py"), recursive=True))
    shared, registries, module_dicts = scan_shared_dicts(files)
    for fpath in files:
        frel = os.path.relpath(fpath, REPO)
        ftree = ast.parse(open(fpath).read())
        class_names = {n.name for n in ast.walk(ftree) if isinstance(n, ast.ClassDef)}
        for fn in [n for n in ast.walk(ftree) if isinstance(n, ast.FunctionDef)]:
            for dec in fn.decorator_list:
                if "cache" in ast.unparse(dec) and "njit" not in ast.unparse(dec) and "jit(" not in ast.unparse(dec):
                    fail(f"{frel}:{fn.lineno}", f"memoising decorator {ast.unparse(dec)} (process-level state)")
            for st in ast.walk(fn):
                if isinstance(st, (ast.Global, ast.Nonlocal)):
                    fail(f"{frel}:{st.lineno}", "global/nonlocal statement (process-level state)")
                tgts = st.targets if isinstance(st, ast.Assign) else [st.target] if isinstance(st, (ast.AugAssign, ast.AnnAssign)) else []
                for t in tgts:
                    if isinstance(t, ast.Attribute) and isinstance(t.value, ast.Name) and (
                            t.value.id == "cls" or t.value.id in class_names):
                        fail(f"{frel}:{st.lineno}", f"assignment to the class attribute {ast.unparse(t)} inside a function")
    trees = {}
    items = []
    for name, drel, base, ws in shared:
        writers = []
        for w, keys in ws:
            if all(isinstance(k, str) for k in keys):
                writers.append((w, keys))
            else:
                if len(keys) != 1:
                    fail(name, "mixed update / key writes in one writer")
                fn_name = w.split(":")[0].split(".")[-1]
                if drel not in trees:
                    trees[drel] = ast.parse(open(os.path.join(REPO, drel)).read())
                fn_tree = next((n for n in ast.walk(trees[drel]) if isinstance(n, ast.FunctionDef) and n.name == fn_name), None)
                for cand, ks in resolve_update_variants(name, drel, keys[0], fn_tree, module_dicts):
                    writers.append((f"{fn_name}:{cand}", ks))
        items.append(f"  mkShared {q(name)} {qlist(base)}\n    [" + ";\n     ".join(
            f"({q(w)}, {qlist(ks)})" for w, ks in writers) + "]")
        sources.append((os.path.join(REPO, drel), name, sha1_of(repr((base, writers)))))
    body += "Definition shared_dicts : list shared :=\n[\n" + ";\n".join(items) + "\n].\n\n"
    body += f"(* plugin registries (written at import time by register_subclass decorators, not by check/run):\n   {registries} *)\n"
    global LAST
    LAST = {"attrs": init_must,
            "prepare": {str(m): {"reads": prep[m][0], "must": prep[m][1], "may": prep[m][2]} for m in (False, True)},
            "callbacks": {n: {str(r): {"reads": cbs[(n, r)][0], "must": cbs[(n, r)][1], "may": cbs[(n, r)][2]}
                              for r in (False, True)} for n in callbacks}}
    _, changed = emit("History", body, sources)
    # readable hints when the Coq obligations fail (NOT trusted, NOT used by the proof)
    diag = []
    for multi in (False, True):
        for rdm in (False, True):
            agreed = {"right_disp_map", "step"} | set(prep[multi][1])
            if set(prep[multi][0]) - {"right_disp_map", "step"}:
                diag.append(f"run_prepare reads {sorted(set(prep[multi][0]) - {'right_disp_map', 'step'})} before assigning")
            for miss in {"left_disparity", "right_disparity"} - set(prep[multi][1]):
                diag.append(f"run_prepare(multi={multi}) does not always assign {miss}")
            for n in first:
                r, must, _ = cbs[(n, rdm)]
                if set(r) - agreed:
                    diag.append(f"{n}(multi={multi}, rdm={rdm}) reads leftover {sorted(set(r) - agreed)}")
                agreed |= set(must)
            for n in callbacks:
                if n in first or (n in multiscale_cbs and not multi):
                    continue
                r = cbs[(n, rdm)][0]
                if set(r) - agreed:
                    diag.append(f"{n}(multi={multi}, rdm={rdm}) reads leftover {sorted(set(r) - agreed)}")
    for name, _drel, _base, ws in shared:
        pass
    diag = sorted(set(diag))
    print(f"Gen/History.v {'written' if changed else 'unchanged'}: {len(callbacks)} run callbacks, "
          f"{len(init_must)} attributes, {len(shared)} shared dictionaries, {len(registries)} registries"
          + ("; DIAGNOSTIC (not part of the proof) suspicious: " + "; ".join(diag[:6]) if diag else ""))


if __name__ == "__main__":
    try:
        main()
    except Exception as exc:  # fail closed
        print(f"TranslationError: {exc}")
        sys.exit(3)
