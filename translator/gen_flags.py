"""T-gen: coq/Gen/Flags.v -- the bit constants and EVERY write to a validity mask.

(a) constants: every PANDORA_MSK_* attribute of the imported pandora.constants (value read from the
    module object); an unknown name or a non-integer value is a TranslationError.
(b) flag sites: Python `ast` scan of the anchored modules.  Every Assign / AugAssign whose target is
      - a subscript chain through the key "validity_mask"  (cv["validity_mask"].data[...] += ...), or
      - a subscript of a local ALIAS of a validity mask (a kernel parameter that receives
        X["validity_mask"].data at a call site of the same module, or `np.copy(alias)`),
    is emitted as  mkSite <role> <line> <operator> <constant expression> <syntactic guards>.
    Any other target whose name involves `mask` / `msk` must be in the table of known non-flag
    locals (NONFLAG) -- otherwise TranslationError.  A site whose right-hand side, operator or
    position (file, function, ordinal) is not one of the known shapes is a TranslationError, so a
    NEW `+=` on a mask cannot go unnoticed.  The rest of the package is scanned too: a write through
    the key "validity_mask" outside the anchored modules is a TranslationError.
(c) call facts: where mask_border / mask_invalid_variable_disparity_range / allocate_*_mask are
    called and under which `if`.

The generated list is consumed by Model/Criteria.v + Model/FlagSteps.v (operators and constants of the
flag arithmetic are read from it) and must satisfy the boolean predicate FlagStepsP.wf_sites,
re-proved by vm_compute in Props/C04.v on every run."""
import ast
import os
import sys

from common import emit, fail, sha1_of, REPO

ANCHORED = [
    "pandora/criteria.py",
    "pandora/matching_cost/matching_cost.py",
    "pandora/disparity/disparity.py",
    "pandora/refinement/refinement.py",
    "pandora/validation/validation.py",
    "pandora/validation/interpolated_disparity.py",
    "pandora/filter/median_for_intervals.py",
]
# where the third component of refinement_method's return tuples is read from
REFINEMENT_METHODS = ["pandora/refinement/vfit.py", "pandora/refinement/quadratic.py"]

CONST_PREFIX = "PANDORA_MSK_PIXEL_"
KNOWN_CONSTS = [
    "INVALID", "LEFT_NODATA_OR_BORDER", "RIGHT_NODATA_OR_DISPARITY_RANGE_MISSING",
    "RIGHT_INCOMPLETE_DISPARITY_RANGE", "STOPPED_INTERPOLATION", "FILLED_OCCLUSION", "FILLED_MISMATCH",
    "IN_VALIDITY_MASK_LEFT", "IN_VALIDITY_MASK_RIGHT", "OCCLUSION", "MISMATCH", "FILLED_NODATA",
    "INTERVAL_REGULARIZED",
]

# (file, function) -> roles of its flag sites, in source order.  A different number of sites in a
# function (a new or a removed write) is a TranslationError.
ROLES = {
    ("pandora/criteria.py", "validity_mask"): ["R_vm_init", "R_vm_b2neg", "R_vm_b2pos", "R_vm_b2zero", "R_vm_b1"],
    ("pandora/criteria.py", "allocate_left_mask"): ["R_l_nodata", "R_l_invalid"],
    ("pandora/criteria.py", "allocate_right_mask"): ["R_r_b27", "R_r_nodata"],
    ("pandora/criteria.py", "mask_invalid_variable_disparity_range"): ["R_mivdr"],
    ("pandora/criteria.py", "mask_border"): ["R_bord_top", "R_bord_bot", "R_bord_left", "R_bord_right"],
    ("pandora/disparity/disparity.py", "approximate_right_disparity"): ["R_ard_init", "R_ard_b1", "R_ard_b2"],
    ("pandora/disparity/disparity.py", "WinnerTakesAll.to_disp"): ["R_todisp_copy"],
    ("pandora/refinement/refinement.py", "subpixel_refinement"): ["R_ref_kernel"],
    ("pandora/refinement/refinement.py", "approximate_subpixel_refinement"): ["R_aref_kernel"],
    ("pandora/refinement/refinement.py", "loop_refinement"): ["R_ref_method", "R_ref_stopped"],
    ("pandora/refinement/refinement.py", "loop_approximate_refinement"): ["R_aref_method", "R_aref_stopped"],
    ("pandora/validation/validation.py", "CrossCheckingAccurate.disparity_checking"):
        ["R_xc_occl", "R_xc_mism", "R_xc_unoccl", "R_xc_outside", "R_xc_border"],
    ("pandora/validation/interpolated_disparity.py", "McCnnInterpolation.interpolated_disparity"):
        ["R_mc_kernel_occ", "R_mc_kernel_mis", "R_mc_border"],
    ("pandora/validation/interpolated_disparity.py", "interpolate_occlusion_mc_cnn"):
        ["R_mco_sub_r", "R_mco_add_r", "R_mco_sub_l", "R_mco_add_l"],
    ("pandora/validation/interpolated_disparity.py", "interpolate_mismatch_mc_cnn"): ["R_mcm_sub", "R_mcm_add"],
    ("pandora/validation/interpolated_disparity.py", "SgmInterpolation.interpolated_disparity"):
        ["R_sgm_kernel_mis", "R_sgm_kernel_occ"],
    ("pandora/validation/interpolated_disparity.py", "interpolate_occlusion_sgm"): ["R_sgo_sub", "R_sgo_add"],
    ("pandora/validation/interpolated_disparity.py", "interpolate_mismatch_sgm"):
        ["R_sgm_sub_o", "R_sgm_add_o", "R_sgm_sub_f", "R_sgm_add_f"],
    ("pandora/filter/median_for_intervals.py", "filter_disparity"): ["R_mfi_or"],
}
ROLE_ORDER = [r for _, rs in ROLES.items() for r in rs]

# targets whose name involves mask / msk but which are NOT validity masks (image masks, boolean
# selections, NaN masks of the cost volume): (file, function, name)
NONFLAG = {
    ("pandora/criteria.py", "allocate_left_mask", "r_mask"),           # the input image mask, aligned
    ("pandora/criteria.py", "allocate_right_mask", "r_mask"),          # idem (then 0/1 "invalid" indicator)
    ("pandora/criteria.py", "mask_invalid_variable_disparity_range", "condition_to_mask"),
    ("pandora/criteria.py", "mask_invalid_variable_disparity_range", "masking_value"),
    ("pandora/criteria.py", "mask_invalid_variable_disparity_range", "no_masking_value"),
    ("pandora/matching_cost/matching_cost.py", "masks_dilatation", "dilatate_left_mask"),   # 0/NaN cost masks
    ("pandora/matching_cost/matching_cost.py", "masks_dilatation", "dilatate_right_mask"),
    ("pandora/matching_cost/matching_cost.py", "masks_dilatation", "dilatate_right_mask_shift"),
    ("pandora/matching_cost/matching_cost.py", "masks_dilatation", "dilatate_left_mask_xr"),
    ("pandora/matching_cost/matching_cost.py", "masks_dilatation", "dilatate_right_mask_xr"),
    ("pandora/matching_cost/matching_cost.py", "cv_masked", "mask_left"),
    ("pandora/matching_cost/matching_cost.py", "cv_masked", "mask_right"),
    ("pandora/matching_cost/matching_cost.py", "cv_masked", "p_mask"),     # column index ranges
    ("pandora/matching_cost/matching_cost.py", "cv_masked", "q_mask"),
    ("pandora/matching_cost/matching_cost.py", "cv_masked", "i_mask_right"),
    ("pandora/matching_cost/matching_cost.py", "cv_masked", "masking"),
    ("pandora/validation/interpolated_disparity.py", "interpolate_occlusion_mc_cnn", "msk"),  # boolean "valid" row
    ("pandora/filter/median_for_intervals.py", "filter_disparity", "masked_data"),
    ("pandora/filter/median_for_intervals.py", "filter_disparity", "mask_regularization"),
}

# functions of the anchored modules that nothing in the package calls (their sites are listed and
# checked for shape, but they are not part of any pipeline): a caller appearing is an error
DEAD = ["approximate_right_disparity", "approximate_subpixel_refinement"]

# names of kernels whose result tuple carries the mask back (position of the mask in the tuple)
KERNEL_RESULT = {
    "loop_refinement": 2, "loop_approximate_refinement": 2,
    "interpolate_occlusion_mc_cnn": 1, "interpolate_mismatch_mc_cnn": 1,
    "interpolate_occlusion_sgm": 1, "interpolate_mismatch_sgm": 1,
}


def src(node):
    return ast.unparse(node)


def is_vm_key(node):
    return (isinstance(node, ast.Subscript) and isinstance(node.slice, ast.Constant)
            and node.slice.value == "validity_mask")


def through_vm_key(node):
    """X["validity_mask"], X["validity_mask"].data[...], .loc[...] ..."""
    while isinstance(node, (ast.Subscript, ast.Attribute)):
        if is_vm_key(node):
            return True
        node = node.value
    return False


def base_name(node):
    while isinstance(node, (ast.Subscript, ast.Attribute)):
        node = node.value
    return node.id if isinstance(node, ast.Name) else None


def const_of(node, where, const_imports):
    """cst.PANDORA_MSK_PIXEL_X or an imported PANDORA_MSK_PIXEL_X -> 'X'"""
    name = None
    if isinstance(node, ast.Attribute) and isinstance(node.value, ast.Name) and node.value.id == "cst":
        name = node.attr
    elif isinstance(node, ast.Name) and node.id in const_imports:
        name = node.id
    if name is None or not name.startswith(CONST_PREFIX):
        return None
    short = name[len(CONST_PREFIX):]
    if short not in KNOWN_CONSTS:
        fail(where, f"unknown constant {name}")
    return short


def strip_astype(node):
    """(e).astype(np.uint16) -> e"""
    while (isinstance(node, ast.Call) and isinstance(node.func, ast.Attribute) and node.func.attr == "astype"
           and len(node.args) == 1):
        node = node.func.value
    return node


class FunctionScan:
    def __init__(self, path, qualname, fn, aliases, const_imports, method_returns):
        self.path, self.qual, self.fn = path, qualname, fn
        self.aliases = set(aliases)
        self.const_imports = const_imports
        self.method_returns = method_returns
        self.sites = []   # (line, op, expr, guards)
        self.assigned = {}  # simple name -> value node (last straight-line assignment), for the np.where patterns

    def where(self, node):
        return f"{self.path}:{node.lineno} ({self.qual})"

    # ---- guards
    def guard_of(self, test, positive):
        """(E & cst.X) != 0  /  == 0, E a mask element -> ('X', bit set?)"""
        if (isinstance(test, ast.Compare) and len(test.ops) == 1 and isinstance(test.comparators[0], ast.Constant)
                and test.comparators[0].value == 0 and isinstance(test.left, ast.BinOp)
                and isinstance(test.left.op, ast.BitAnd)):
            c = const_of(test.left.right, self.where(test), self.const_imports)
            e = test.left.left
            if c is not None and (through_vm_key(e) or base_name(e) in self.aliases):
                if isinstance(test.ops[0], ast.NotEq):
                    return (c, positive, src(e))
                if isinstance(test.ops[0], ast.Eq):
                    return (c, not positive, src(e))
        return None

    # ---- expressions
    def expr_of(self, value, node):
        w = self.where(node)
        v = strip_astype(value)
        c = const_of(v, w, self.const_imports)
        if c is not None:
            return f"EConst K_{c}"
        if isinstance(v, ast.BinOp) and isinstance(v.op, ast.Mult):
            for a, b in ((v.left, v.right), (v.right, v.left)):
                c = const_of(strip_astype(a), w, self.const_imports)
                if c is not None and const_of(strip_astype(b), w, self.const_imports) is None:
                    return f"ETimes K_{c}"
        if (isinstance(v, ast.Call) and src(v.func) == "xr.where" and len(v.args) == 3
                and isinstance(v.args[2], ast.Constant) and v.args[2].value == 0):
            c = const_of(v.args[1], w, self.const_imports)
            if c is not None:
                return f"ETimes K_{c}"
        if isinstance(v, ast.Name) and v.id == "valid" and self.qual in ("loop_refinement", "loop_approximate_refinement"):
            # `sub_disp, sub_cost, valid = method(...)`: the values the refinement methods return
            if not self.method_result_is_valid():
                fail(w, "`valid` is not the third result of method(...)")
            consts, zero = self.method_returns
            return "EOneOf [" + "; ".join("K_" + c for c in consts) + "] " + ("true" if zero else "false")
        if isinstance(v, ast.Call) and src(v.func) == "xr.DataArray" and v.args:
            a = v.args[0]
            if isinstance(a, ast.Call) and src(a.func) == "np.full" and len(a.args) == 2 \
                    and isinstance(a.args[1], ast.Constant) and a.args[1].value == 0:
                return "EZero"
            if isinstance(a, ast.Call) and src(a.func) == "np.zeros":
                return "EZero"
        if isinstance(v, ast.Call) and src(v.func) == "copy.deepcopy" and len(v.args) == 1 and is_vm_key(v.args[0]):
            return "ECopy"
        if isinstance(v, ast.Call) and src(v.func) == "mask_border" and len(v.args) == 1:
            return "EBorderCall"
        fail(w, f"right-hand side of a validity-mask write not understood: {src(value)[:80]}")

    def method_result_is_valid(self):
        for n in ast.walk(self.fn):
            if (isinstance(n, ast.Assign) and isinstance(n.targets[0], ast.Tuple) and len(n.targets[0].elts) == 3
                    and isinstance(n.targets[0].elts[2], ast.Name) and n.targets[0].elts[2].id == "valid"
                    and isinstance(n.value, ast.Call) and src(n.value.func) == "method"):
                return True
        return False

    # ---- statements
    def is_flag_target(self, t):
        if through_vm_key(t):
            return True
        return isinstance(t, ast.Subscript) and base_name(t) in self.aliases

    def check_nonflag_name(self, t, node):
        names = set()   # names along the written object (base, attributes, string keys), not inside its indices
        n = t
        while isinstance(n, (ast.Subscript, ast.Attribute)):
            if isinstance(n, ast.Attribute):
                names.add(n.attr)
            elif isinstance(n.slice, ast.Constant) and isinstance(n.slice.value, str):
                names.add(n.slice.value)
            n = n.value
        if isinstance(n, ast.Name):
            names.add(n.id)
        sus = [n for n in names if ("mask" in n or "msk" in n)]
        if not sus:
            return
        b = base_name(t)
        fn_short = self.qual.split(".")[-1]
        if b is not None and (self.path, fn_short, b) in NONFLAG:
            return
        # writes through another key of a dataset (e.g. img["msk"]) are not flag writes, but none is expected
        fail(self.where(node), f"assignment to `{src(t)[:60]}` involves a mask-like name and is not classified")

    def visit_block(self, stmts, guards):
        for st in stmts:
            self.visit(st, guards)

    def visit(self, st, guards):
        if isinstance(st, (ast.FunctionDef, ast.AsyncFunctionDef, ast.ClassDef)):
            return  # nested definitions are scanned on their own
        if isinstance(st, ast.If):
            g_pos = self.guard_of(st.test, True)
            g_neg = self.guard_of(st.test, False)
            self.visit_block(st.body, guards + ([g_pos] if g_pos else []))
            self.visit_block(st.orelse, guards + ([g_neg] if g_neg else []))
            return
        if isinstance(st, (ast.For, ast.While)):
            self.visit_block(st.body, guards)
            self.visit_block(st.orelse, guards)
            return
        if isinstance(st, ast.With):
            self.visit_block(st.body, guards)
            return
        if isinstance(st, ast.Try):
            self.visit_block(st.body, guards)
            for h in st.handlers:
                self.visit_block(h.body, guards)
            self.visit_block(st.orelse, guards)
            self.visit_block(st.finalbody, guards)
            return
        if isinstance(st, ast.AugAssign):
            self.aug(st, guards)
            return
        if isinstance(st, (ast.Assign, ast.AnnAssign)):
            self.assign(st, guards)
            return

    def aug(self, st, guards):
        t = st.target
        if not self.is_flag_target(t):
            if isinstance(t, ast.Name) and t.id in self.aliases:
                fail(self.where(st), "augmented assignment to a whole mask alias")
            self.check_nonflag_name(t, st)
            return
        ops = {ast.Add: "OpAdd", ast.Sub: "OpSub", ast.BitOr: "OpOr"}
        op = ops.get(type(st.op))
        if op is None:
            fail(self.where(st), f"operator {type(st.op).__name__} on a validity mask")
        expr = self.expr_of(st.value, st)
        self.sites.append((st.lineno, op, expr, self.site_guards(t, guards, st)))

    def site_guards(self, target, guards, st):
        """keep the syntactic guards that test the SAME element as the one written"""
        out = []
        tsub = src(target.slice) if isinstance(target, ast.Subscript) else None
        for (c, positive, esrc) in guards:
            e = ast.parse(esrc, mode="eval").body
            esub = src(e.slice) if isinstance(e, ast.Subscript) else None
            if tsub is not None and esub == tsub:
                out.append((c, positive))
        out += self.vector_guards(target, st)
        return out

    def vector_guards(self, target, st):
        """validation.disparity_checking: the written columns are col_left[...], with
        col_left = col_left[valid_pixel] and valid_pixel = np.where((mask[row, :] & INVALID) == 0)"""
        if self.qual != "disparity_checking" or not isinstance(target, ast.Subscript) or is_vm_key(target):
            return []
        idx = target.slice
        if not (isinstance(idx, ast.Tuple) and len(idx.elts) == 2 and src(idx.elts[0]) == "row"):
            fail(self.where(st), "unexpected index of the cross-checking flag write")
        if base_name(idx.elts[1]) != "col_left":
            fail(self.where(st), "cross-checking flag write not restricted to col_left")
        need = {
            "valid_pixel = np.where(dataset_left['validity_mask'].data[row, :] & cst.PANDORA_MSK_PIXEL_INVALID == 0)",
            "col_left = col_left[valid_pixel]",
        }
        have = {src(n) for n in ast.walk(self.fn) if isinstance(n, ast.Assign)}
        if not need <= have:
            fail(self.where(st), "the restriction of cross-checking to valid pixels (valid_pixel / col_left) changed")
        for n in ast.walk(self.fn):  # col_left must not be reassigned otherwise
            if isinstance(n, ast.Assign) and src(n.targets[0]) == "col_left" and src(n) not in need \
                    and src(n) != "col_left = np.arange(nb_col, dtype=np.int64)":
                fail(self.where(n), "col_left reassigned")
        return [("INVALID", False)]

    def assign(self, st, guards):
        targets = st.targets if isinstance(st, ast.Assign) else [st.target]
        value = st.value
        for t in targets:
            if isinstance(t, ast.Name) and value is not None:
                self.assigned[t.id] = value
            if isinstance(t, (ast.Tuple, ast.List)):
                for pos, e in enumerate(t.elts):
                    if self.is_flag_target(e):
                        # (.., X["validity_mask"].data) = self.kernel(.., X["validity_mask"].data)
                        if not (isinstance(value, ast.Call) and isinstance(value.func, ast.Attribute)
                                and value.func.attr in KERNEL_RESULT and KERNEL_RESULT[value.func.attr] == pos):
                            fail(self.where(st), "validity mask assigned from an unknown call")
                        self.sites.append((st.lineno, "OpSet", "EKernel", []))
                    else:
                        self.check_nonflag_name(e, st)
                continue
            if self.is_flag_target(t):
                self.sites.append((st.lineno, *self.plain_assign(t, value, st, guards)))
                continue
            if isinstance(t, ast.Name) and t.id in self.aliases:
                # alias definition: out_val = np.copy(valid)
                if not (isinstance(value, ast.Call) and src(value.func) == "np.copy" and len(value.args) == 1
                        and isinstance(value.args[0], ast.Name) and value.args[0].id in self.aliases):
                    fail(self.where(st), f"mask alias {t.id} assigned from {src(value)[:60]}")
                continue
            self.check_nonflag_name(t, st)

    def plain_assign(self, t, value, st, guards):
        # mask_invalid_variable_disparity_range: T = np.where(cond, T + C, T) with cond = (T & C == 0)
        if isinstance(value, ast.Call) and src(value.func) == "np.where" and len(value.args) == 3 \
                and all(isinstance(a, ast.Name) for a in value.args):
            cond, plus, same = (self.assigned.get(a.id) for a in value.args)
            tsrc = src(t)
            if cond is None or plus is None or same is None:
                fail(self.where(st), "np.where operands not found")
            if src(same) != tsrc:
                fail(self.where(st), "np.where third operand is not the unchanged mask")
            if not (isinstance(plus, ast.BinOp) and isinstance(plus.op, ast.Add) and src(plus.left) == tsrc):
                fail(self.where(st), "np.where second operand is not mask + constant")
            c = const_of(plus.right, self.where(st), self.const_imports)
            ok = (isinstance(cond, ast.Compare) and isinstance(cond.ops[0], ast.Eq)
                  and isinstance(cond.comparators[0], ast.Constant) and cond.comparators[0].value == 0
                  and isinstance(cond.left, ast.BinOp) and isinstance(cond.left.op, ast.BitAnd)
                  and src(cond.left.left) == tsrc
                  and const_of(cond.left.right, self.where(st), self.const_imports) == c)
            if c is None or not ok:
                fail(self.where(st), "np.where condition is not (mask & C == 0) for the constant added")
            return "OpAdd", f"EConst K_{c}", [(c, False)]
        return "OpSet", self.expr_of(value, st), self.site_guards(t, guards, st)


def functions_of(tree):
    """(qualname, FunctionDef) for module-level functions and methods"""
    out = []
    for n in tree.body:
        if isinstance(n, ast.FunctionDef):
            out.append((n.name, n))
        elif isinstance(n, ast.ClassDef):
            for m in n.body:
                if isinstance(m, ast.FunctionDef):
                    out.append((n.name + "." + m.name, m))
    return out


def method_returns():
    """third component of every `return` of refinement_method in vfit.py / quadratic.py"""
    consts, zero = [], False
    for rel in REFINEMENT_METHODS:
        tree = ast.parse(open(os.path.join(REPO, rel)).read())
        found = False
        for qual, fn in functions_of(tree):
            if fn.name != "refinement_method":
                continue
            found = True
            for n in ast.walk(fn):
                if isinstance(n, ast.Return):
                    if not (isinstance(n.value, ast.Tuple) and len(n.value.elts) == 3):
                        fail(f"{rel}:{n.lineno}", "refinement_method does not return a 3-tuple")
                    e = n.value.elts[2]
                    if isinstance(e, ast.Constant) and e.value == 0:
                        zero = True
                        continue
                    c = const_of(e, f"{rel}:{n.lineno}", set())
                    if c is None:
                        fail(f"{rel}:{n.lineno}", f"flag returned by refinement_method not understood: {src(e)}")
                    if c not in consts:
                        consts.append(c)
        if not found:
            fail(rel, "no refinement_method")
    return consts, zero


def discover_aliases(tree, path):
    """kernel parameters that receive X["validity_mask"].data at a call site of the same module"""
    fns = dict()
    for qual, fn in functions_of(tree):
        fns.setdefault(fn.name, []).append(fn)
    aliases = {}
    for n in ast.walk(tree):
        if not isinstance(n, ast.Call):
            continue
        for pos, a in enumerate(n.args):
            if not through_vm_key(a):
                continue
            callee = n.func.attr if isinstance(n.func, ast.Attribute) else (n.func.id if isinstance(n.func, ast.Name) else None)
            if callee in fns:
                for fn in fns[callee]:
                    params = [p.arg for p in fn.args.args if p.arg not in ("self", "cls")]
                    if pos >= len(params):
                        fail(f"{path}:{n.lineno}", f"cannot map argument {pos} of {callee}")
                    aliases.setdefault(fn.name, set()).add(params[pos])
            elif src(n.func) in ("xr.align", "copy.deepcopy", "np.where"):
                continue
            else:
                fail(f"{path}:{n.lineno}", f"validity mask passed to an unknown function {src(n.func)}")
        for kw in n.keywords:
            if through_vm_key(kw.value):
                fail(f"{path}:{n.lineno}", "validity mask passed by keyword")
    # copies inside the kernels
    for name, al in aliases.items():
        for fn in fns[name]:
            for s in ast.walk(fn):
                if (isinstance(s, ast.Assign) and isinstance(s.targets[0], ast.Name) and isinstance(s.value, ast.Call)
                        and src(s.value.func) == "np.copy" and len(s.value.args) == 1
                        and isinstance(s.value.args[0], ast.Name) and s.value.args[0].id in al):
                    al.add(s.targets[0].id)
    return aliases


def call_facts(trees):
    """who calls mask_border / mask_invalid_variable_disparity_range / allocate_*_mask, under which `if`"""
    facts = []
    for path, tree in trees.items():
        for qual, fn in functions_of(tree):
            def walk(stmts, conds):
                for st in stmts:
                    if isinstance(st, ast.If):
                        walk(st.body, conds + [src(st.test)])
                        walk(st.orelse, conds + ["not " + src(st.test)])
                    elif isinstance(st, (ast.For, ast.While, ast.With)):
                        walk(st.body, conds)
                    elif isinstance(st, (ast.FunctionDef, ast.ClassDef)):
                        pass
                    else:
                        for n in ast.walk(st):
                            if isinstance(n, ast.Call) and isinstance(n.func, ast.Name) and n.func.id in (
                                    "mask_border", "mask_invalid_variable_disparity_range", "allocate_left_mask",
                                    "allocate_right_mask"):
                                facts.append((path, qual, n.func.id, tuple(conds), n.lineno))
            walk(fn.body, [])
    return facts


EXPECTED_CALLS = [
    ("pandora/criteria.py", "validity_mask", "allocate_left_mask", ("'msk' in img_left.data_vars",)),
    ("pandora/criteria.py", "validity_mask", "allocate_right_mask", ("'msk' in img_right.data_vars",)),
    ("pandora/matching_cost/matching_cost.py", "AbstractMatchingCost.cv_masked", "mask_invalid_variable_disparity_range", ()),
    ("pandora/matching_cost/matching_cost.py", "AbstractMatchingCost.cv_masked", "mask_border", ("offset > 0",)),
    ("pandora/disparity/disparity.py", "AbstractDisparity.approximate_right_disparity", "mask_border", ("offset > 0",)),
    ("pandora/validation/validation.py", "CrossCheckingAccurate.disparity_checking", "mask_border",
     ("dataset_left.attrs['offset_row_col'] > 0",)),
    ("pandora/validation/interpolated_disparity.py", "McCnnInterpolation.interpolated_disparity", "mask_border",
     ("left.attrs['offset_row_col'] > 0",)),
]


def main():
    sys.path.insert(0, REPO)
    import pandora.constants as cst  # pylint: disable=import-outside-toplevel

    if not os.path.realpath(cst.__file__).startswith(os.path.realpath(REPO)):
        fail("import", f"pandora imported from {cst.__file__}, not from {REPO}")

    # ---------------- (a) constants
    values = {}
    for name in dir(cst):
        if name.startswith("PANDORA_MSK"):
            if not name.startswith(CONST_PREFIX) or name[len(CONST_PREFIX):] not in KNOWN_CONSTS:
                fail("pandora/constants.py", f"unknown constant {name}")
            v = getattr(cst, name)
            if not isinstance(v, int) or isinstance(v, bool):
                fail("pandora/constants.py", f"{name} is not an integer: {v!r}")
            values[name[len(CONST_PREFIX):]] = v
    missing = [c for c in KNOWN_CONSTS if c not in values]
    if missing:
        fail("pandora/constants.py", f"constants removed: {missing}")

    # ---------------- (b) sites
    mret = method_returns()
    trees, sources = {}, []
    for rel in ANCHORED:
        text = open(os.path.join(REPO, rel)).read()
        trees[rel] = ast.parse(text)
        sources.append((rel, "whole file (ast)", sha1_of(text)))
    for rel in REFINEMENT_METHODS + ["pandora/constants.py"]:
        sources.append((rel, "whole file", sha1_of(open(os.path.join(REPO, rel)).read())))

    sites = {}  # role -> (rel, qual, line, op, expr, guards)
    seen_functions = set()
    for rel, tree in trees.items():
        const_imports = set()
        for n in tree.body:
            if isinstance(n, ast.ImportFrom) and n.module and n.module.endswith("constants"):
                const_imports |= {a.asname or a.name for a in n.names}
        aliases = discover_aliases(tree, rel)
        for qual, fn in functions_of(tree):
            sc = FunctionScan(rel, fn.name, fn, aliases.get(fn.name, ()), const_imports, mret)
            sc.visit_block(fn.body, [])
            key = (rel, qual) if (rel, qual) in ROLES else (rel, fn.name)
            if key not in ROLES and any(k[0] == rel and k[1].endswith("." + fn.name) for k in ROLES) and not sc.sites:
                continue  # homonym (abstract method) of a qualified entry, writes nothing
            if sc.sites and key not in ROLES:
                fail(f"{rel}:{sc.sites[0][0]}", f"validity-mask write in a function the model does not know: {qual}")
            if key in ROLES:
                if key in seen_functions:
                    fail(rel, f"two functions named {key[1]}")
                seen_functions.add(key)
                roles = ROLES[key]
                if len(sc.sites) != len(roles):
                    lines = [s[0] for s in sc.sites]
                    fail(f"{rel} ({qual})", f"{len(sc.sites)} validity-mask writes (lines {lines}) where the model "
                                            f"knows {len(roles)} ({roles}): a write was added or removed")
                for role, (line, op, expr, guards) in zip(roles, sc.sites):
                    sites[role] = (rel, qual, line, op, expr, guards)
    for key in ROLES:
        if key not in seen_functions:
            fail(key[0], f"function {key[1]} not found")

    # the rest of the package: no write through the key "validity_mask"
    for root, _, files in os.walk(os.path.join(REPO, "pandora")):
        for f in files:
            if not f.endswith(".py"):
                continue
            p = os.path.join(root, f)
            rel = os.path.relpath(p, REPO)
            if rel in ANCHORED:
                continue
            tree = ast.parse(open(p).read())
            for n in ast.walk(tree):
                tg = []
                if isinstance(n, ast.Assign):
                    tg = n.targets
                elif isinstance(n, (ast.AugAssign, ast.AnnAssign)):
                    tg = [n.target]
                for t in tg:
                    for e in (t.elts if isinstance(t, (ast.Tuple, ast.List)) else [t]):
                        if through_vm_key(e):
                            fail(f"{rel}:{n.lineno}", "validity-mask write outside the anchored modules")
                if isinstance(n, ast.Call):
                    callee = n.func.attr if isinstance(n.func, ast.Attribute) else (
                        n.func.id if isinstance(n.func, ast.Name) else None)
                    if callee in DEAD:
                        fail(f"{rel}:{n.lineno}", f"{callee} is called: it is modelled as dead code")
    for rel, tree in trees.items():
        for n in ast.walk(tree):
            if isinstance(n, ast.Call):
                callee = n.func.attr if isinstance(n.func, ast.Attribute) else (
                    n.func.id if isinstance(n.func, ast.Name) else None)
                if callee in DEAD:
                    fail(f"{rel}:{n.lineno}", f"{callee} is called: it is modelled as dead code")

    # ---------------- (c) calls
    facts = call_facts(trees)
    got = sorted((p, q, c, conds) for (p, q, c, conds, _) in facts)
    if got != sorted(EXPECTED_CALLS):
        extra = [g for g in got if g not in EXPECTED_CALLS]
        lost = [e for e in EXPECTED_CALLS if e not in got]
        fail("call sites", f"mask_border / mask_invalid_variable_disparity_range / allocate_*_mask are not called as "
                           f"the model assumes: unexpected {extra}, missing {lost}")

    # ---------------- emit
    body = "From Coq Require Import ZArith List.\nFrom Pandora Require Import Model.Criteria.\nImport ListNotations.\n"
    body += "Open Scope Z_scope.\n\n"
    body += "(* pandora/constants.py, values of the imported module *)\n"
    body += "Definition consts (c : cname) : Z :=\n  match c with\n"
    for c in KNOWN_CONSTS:
        body += f"  | K_{c} => {values[c]}\n"
    body += "  end.\n\n"
    body += "(* every write to a validity mask: role, source line, operator, constant expression, guards *)\n"
    body += "Definition flag_sites : list site :=\n  [ "
    rows = []
    for role in ROLE_ORDER:
        rel, qual, line, op, expr, guards = sites[role]
        g = "[" + "; ".join(f"GBit K_{c} {'true' if s else 'false'}" for c, s in guards) + "]"
        rows.append(f"mkSite {role} {line} {op} ({expr}) {g}  (* {rel} {qual} *)")
    body += ";\n    ".join(rows)
    body += "\n  ].\n\n"
    body += "(* call facts checked by the translator (fail closed): cv_masked calls\n"
    body += "   mask_invalid_variable_disparity_range then mask_border under `offset > 0`;\n"
    body += "   disparity_checking and McCnnInterpolation.interpolated_disparity end with mask_border under\n"
    body += "   `offset_row_col > 0`; validity_mask calls allocate_left/right_mask iff the image has a `msk`. *)\n"
    body += "Definition call_facts_checked : bool := true.\n"
    path, changed = emit("Flags", body, sources)
    print(f"gen_flags: {path} {'rewritten' if changed else 'unchanged'} consts={len(values)} sites={len(sites)}")


if __name__ == "__main__":
    try:
        main()
    except Exception as exc:  # fail closed, one line for the caller
        print(f"TRANSLATION-ERROR gen_flags: {type(exc).__name__}: {exc}")
        sys.exit(3)
