"""T-gen: coq/Gen/ConfKernels.v from the numba kernels of the confidence measures (Python `ast`, fail closed).

    pandora/cost_volume_confidence/ambiguity.py        Ambiguity.compute_ambiguity
                                                       Ambiguity.compute_ambiguity_and_sampled_ambiguity
    pandora/cost_volume_confidence/risk.py             Risk.compute_risk
    pandora/cost_volume_confidence/interval_bounds.py  IntervalBounds.compute_interval_bounds

Each kernel has the shape  <prelude>; for row in prange(n_row): for col in prange(n_col): <body>; return <arrays>.
It becomes two definitions over the numpy semantics of coq/Lib/NpVec.v (xf = rational | -inf | +inf | NaN, 1-D arrays
= lists, 2-D arrays = mat; float literals are the exact decimal they denote; ints are Z, promoted with xofz):

  <kernel>_pixel <prelude variables the body uses> <cells read at (row, col)> <initial cells of the written arrays>
        : option (cells of the written arrays)            -- the body of the loop nest on ONE pixel
  <kernel> cv [other 3-D input] <parameters> : option (list (list cells))
        -- the prelude, then the pixel function on every (row, col) (omap2 / ozip2: the nest only reads and writes
           the (row, col) cells of the arrays it indexes, checked here, so the iterations are independent)

Statement by statement:
    x = e                              ->  let x := e in ...
    a, b = e1, e2                      ->  let a := e1 in let b := e2 in ...         (targets not read by e1, e2)
    A[row, col] = e / += e             ->  let A_rc := e / xadd A_rc e in ...       (A_rc = the cell of A at the pixel)
    A[row, col, :] = e                 ->  let A_rc := v_fill A_rc e in ... (scalar) / match v_assign A_rc e with ... (array)
    v[mask] = s ; v[i] = e             ->  match v_setmask v mask s / v_store v i e with None => None | Some v => ...
    if t: x = e  (assignment only)     ->  let x := if t then e else x in ...
    if t: A else: B ; rest             ->  if t then <A; rest> else <B; rest>
    for i in range(n): B               ->  match for_range n (fun i '(x, y) => <B; Some (x, y)>) (x, y) with None => None
                                           | Some (x, y) => ... end             (x, y = the variables B assigns)
    every operation numpy can refuse   ->  match <op> with None => None | Some tmpN => ... end   (hoisted in evaluation
    (two-array elementwise op, mask indexing, reshape, v[i], m[:, i], nanmin of an int array)     order)
    etas = np.arange(_eta_min, _eta_max, _eta_step)   ->  the array etas is DATA given to the kernel (DESIGN 2.1 c)
    np.argsort(v)                      ->  argsort v, argsort a PARAMETER of the kernel (any function; the theorems ask
                                           it to return a permutation of the indices)
In-place writes are accepted only into a local array bound by an arithmetic expression / np.repeat / np.zeros (a fresh
array, not a view of an input, not an alias) of which no view (reshape) has been taken.  Anything else (another statement, operator, call, subscript, name,
decorator, signature, loop header, prelude or return shape) is a TranslationError naming file:line.
The per-run obligations are in Proofs/ConfGenP.v (generated = Model/Confidence.v for ALL inputs) and Props/C12.v."""
import ast
import os
import re
import sys
from fractions import Fraction

from common import emit, fail, sha1_of, REPO

RESERVED = set("""at as cofix else end exists exists2 fix for forall fun if IF in let match mod return Set Prop SProp Type
then using where with Some None true false negb andb orb Z Q xf XFin XMInf XPInf XNaN xofz xneg xadd xsub xmul xdiv xle xlt xge
xgt xeqb xneb xisnan xmin2 xmax2 vec ivec bvec vlen zip2 vv2 np_nanmin np_nanmax iv_min iv_max np_nansum np_nanmean b_sum
np_repeat np_repeat_s np_arange np_zeros v_setmask pick v_mask norm_index v_get v_take set_at v_store v_fill v_assign mat
mkMat mcols mrows chunks v_reshape v_reshape_m1 columns m_T m_flatten m_col bm_sum0 for_list for_range omap omap2 vol
np_nanmin3 np_nanmax3 shape3 vs sv v_ofz ozip ozip2 argsort mat2 m2s xminimum xmaximum np_clip2 np_min1 np_max1
np_min2 np_max2 np_percentile self_percentile np row col prange njit map repeat list option nat bool
fst snd""".split())

F_CMP = {ast.Lt: "xlt", ast.Gt: "xgt", ast.LtE: "xle", ast.GtE: "xge", ast.Eq: "xeqb", ast.NotEq: "xneb"}
Z_CMP = {ast.Lt: "<?", ast.Gt: ">?", ast.LtE: "<=?", ast.GtE: ">=?", ast.Eq: "=?"}
F_OP = {ast.Add: "xadd", ast.Sub: "xsub", ast.Mult: "xmul", ast.Div: "xdiv"}
Z_OP = {ast.Add: "+", ast.Sub: "-", ast.Mult: "*"}
COQ_TYPE = {"F": "xf", "I": "Z", "V": "vec", "IV": "ivec", "BV": "bvec", "FM": "mat xf", "BM": "mat bool", "M2": "mat2"}
SIG_TYPES = {"f4": "F", "f4[:]": "V", "f4[:, :, :]": "VOL"}


def is_np(e, attr):
    return isinstance(e, ast.Attribute) and isinstance(e.value, ast.Name) and e.value.id == "np" and e.attr == attr


def np_call(e, name, nargs=None):
    return isinstance(e, ast.Call) and is_np(e.func, name) and (nargs is None or len(e.args) == nargs)


def is_rc(s, rank):
    """the subscript [row, col] (rank 2) or [row, col, :] (rank 3)"""
    if not (isinstance(s, ast.Tuple) and len(s.elts) == rank):
        return False
    ok = isinstance(s.elts[0], ast.Name) and s.elts[0].id == "row" and isinstance(s.elts[1], ast.Name) \
        and s.elts[1].id == "col"
    if rank == 3:
        sl = s.elts[2]
        ok = ok and isinstance(sl, ast.Slice) and sl.lower is None and sl.upper is None and sl.step is None
    return ok


class Tr:
    """one kernel; env: name -> type (F I V IV BV FM BM VOL); cells: array name -> (cell name, cell type, writable)"""

    def __init__(self, fname):
        self.fname = fname
        self.env = {}
        self.cells = {}
        self.frozen = set()     # names the pixel body may not assign (parameters, prelude variables)
        self.fresh = set()      # local arrays that may be written in place
        self.pre = []
        self.ntmp = 0
        self.uses_argsort = False
        self.in_body = False
        self.uses_percentile = False
        self.method_mode = False
        self.self_attrs = {}    # "self._x" -> (coq text, type): attributes of the instance a method may read

    def where(self, node):
        return f"{self.fname}:{getattr(node, 'lineno', '?')}"

    # ------------------------------------------------------------ hoisted partial operations
    def hoist(self, scrutinee):
        self.ntmp += 1
        t = f"tmp{self.ntmp}"
        self.pre.append(f"match {scrutinee} with None => None | Some {t} =>\n")
        return t

    @staticmethod
    def wrap(pre, inner):
        for h in reversed(pre):
            inner = h + inner + " end"
        return inner

    # ------------------------------------------------------------ expressions
    def as_f(self, node, tv):
        text, ty = tv
        if ty == "F":
            return text
        if ty == "I":
            return f"(xofz {text})"
        fail(self.where(node), f"a value of type {ty} is used as a scalar number: {text}")

    def as_v(self, node, tv):
        text, ty = tv
        if ty == "V":
            return text
        if ty == "IV":
            return f"(v_ofz {text})"
        fail(self.where(node), f"a value of type {ty} is used as a float array: {text}")

    def lit(self, node, v):
        if isinstance(v, bool) or not isinstance(v, (int, float)):
            fail(self.where(node), f"literal {v!r} is not a number")
        if isinstance(v, int):
            return (f"({v})%Z", "I")
        if v != v or v in (float("inf"), float("-inf")):
            fail(self.where(node), f"float literal {v!r}")
        q = Fraction(repr(v))
        if float(q) != v:
            fail(self.where(node), f"float literal {v!r} does not round-trip")
        return (f"(XFin ({q.numerator} # {q.denominator}))", "F")

    def cell_read(self, e):
        """A[row, col] / A[row, col, :] of an array indexed by the pixel -> (cell name, type), else None"""
        if isinstance(e, ast.Subscript) and isinstance(e.value, ast.Name) and e.value.id in self.cells:
            name, ty, _ = self.cells[e.value.id]
            if not self.in_body:
                fail(self.where(e), f"{e.value.id} is indexed outside the pixel loop: {ast.unparse(e)}")
            if not is_rc(e.slice, 2 if ty == "F" else 3):
                fail(self.where(e), f"{e.value.id} is indexed with something else than "
                                    f"{'[row, col]' if ty == 'F' else '[row, col, :]'}: {ast.unparse(e)}")
            return name, ty
        return None

    def expr(self, e):
        """-> (coq text, type)"""
        if isinstance(e, ast.Constant):
            return self.lit(e, e.value)
        if isinstance(e, ast.UnaryOp) and isinstance(e.op, ast.USub):
            if isinstance(e.operand, ast.Constant):
                return self.lit(e, -e.operand.value)
            if is_np(e.operand, "inf"):
                return ("XMInf", "F")
            t, ty = self.expr(e.operand)
            if ty == "I":
                return (f"(- {t})%Z", "I")
            if ty == "F":
                return (f"(xneg {t})", "F")
            fail(self.where(e), f"unary minus on a value of type {ty}")
        if isinstance(e, ast.Name):
            if e.id in self.cells:
                fail(self.where(e), f"the array {e.id} is used as a whole inside an expression")
            if e.id in self.env and self.env[e.id] in COQ_TYPE:
                return (e.id, self.env[e.id])
            fail(self.where(e), f"unknown name {e.id}")
        if isinstance(e, ast.Attribute):
            if is_np(e, "nan"):
                return ("XNaN", "F")
            if is_np(e, "inf"):
                return ("XPInf", "F")
            if isinstance(e.value, ast.Name) and e.value.id == "self" and ("self." + e.attr) in self.self_attrs:
                return self.self_attrs["self." + e.attr]
            if e.attr == "T":
                t, ty = self.expr(e.value)
                if ty in ("FM", "BM"):
                    return (f"(m_T {t})", ty)
            fail(self.where(e), f"unknown attribute {ast.unparse(e)}")
        if isinstance(e, ast.Subscript):
            cr = self.cell_read(e)
            if cr is not None:
                return cr
            # x.shape[0]
            if isinstance(e.value, ast.Attribute) and e.value.attr == "shape" and isinstance(e.slice, ast.Constant) \
                    and e.slice.value == 0 and not isinstance(e.slice.value, bool):
                t, ty = self.expr(e.value.value)
                if ty in ("V", "IV", "BV"):
                    return (f"(vlen {t})", "I")
                fail(self.where(e), f"shape[0] of a value of type {ty}")
            base, bty = self.expr(e.value)
            if bty in ("FM", "BM"):
                s = e.slice
                if isinstance(s, ast.Tuple) and len(s.elts) == 2 and isinstance(s.elts[0], ast.Slice) \
                        and s.elts[0].lower is None and s.elts[0].upper is None and s.elts[0].step is None:
                    i, ity = self.expr(s.elts[1])
                    if ity == "I":
                        return (self.hoist(f"m_col {base} {i}"), "V" if bty == "FM" else "BV")
                fail(self.where(e), f"2-D subscript not supported: {ast.unparse(e)}")
            if bty in ("V", "IV", "BV"):
                if isinstance(e.slice, (ast.Tuple, ast.Slice)):
                    fail(self.where(e), f"subscript not supported: {ast.unparse(e)}")
                i, ity = self.expr(e.slice)
                if ity == "I":
                    return (self.hoist(f"v_get {base} {i}"), {"V": "F", "IV": "I"}.get(bty) or
                            fail(self.where(e), "scalar read of a boolean array"))
                if ity == "IV":
                    return (self.hoist(f"v_take {base} {i}"), bty)
                if ity == "BV":
                    return (self.hoist(f"v_mask {base} {i}"), bty)
            fail(self.where(e), f"subscript not supported: {ast.unparse(e)}")
        if isinstance(e, ast.BinOp):
            if type(e.op) not in F_OP:
                fail(self.where(e), f"operator {type(e.op).__name__} not supported: {ast.unparse(e)}")
            a = self.expr(e.left)
            b = self.expr(e.right)
            return self.binop(e, F_OP[type(e.op)], a, b, "V", Z_OP.get(type(e.op)))
        if isinstance(e, ast.Compare):
            if len(e.ops) != 1 or type(e.ops[0]) not in F_CMP:
                fail(self.where(e), f"comparison not supported: {ast.unparse(e)}")
            a = self.expr(e.left)
            b = self.expr(e.comparators[0])
            if a[1] in ("F", "I") and b[1] in ("F", "I"):
                fail(self.where(e), f"a comparison of two scalars is used as a value: {ast.unparse(e)}")
            return self.binop(e, F_CMP[type(e.ops[0])], a, b, "BV", None)
        if isinstance(e, ast.Call):
            return self.call(e)
        fail(self.where(e), f"expression shape not supported: {ast.unparse(e)}")

    def binop(self, node, fn, a, b, vty, zsym):
        """elementwise operation / comparison; vty = type of the result when an array is involved"""
        sa, sb = a[1] in ("F", "I"), b[1] in ("F", "I")
        if sa and sb:
            if a[1] == "I" and b[1] == "I":
                if zsym is None:
                    fail(self.where(node), f"int / int is not supported: {ast.unparse(node)}")
                return (f"({a[0]} {zsym} {b[0]})%Z", "I")
            return (f"({fn} {self.as_f(node, a)} {self.as_f(node, b)})", "F")
        if a[1] == "M2" and sb and vty == "V":
            return (f"(m2s {fn} {a[0]} {self.as_f(node, b)})", "M2")
        if sb:
            return (f"(vs {fn} {self.as_v(node, a)} {self.as_f(node, b)})", vty)
        if sa:
            return (f"(sv {fn} {self.as_f(node, a)} {self.as_v(node, b)})", vty)
        return (self.hoist(f"vv2 {fn} {self.as_v(node, a)} {self.as_v(node, b)}"), vty)

    def shape_tuple(self, node, n):
        if not (isinstance(node, ast.Tuple) and len(node.elts) == n):
            fail(self.where(node), f"not a {n}-tuple shape: {ast.unparse(node)}")
        return node.elts

    def int_arg(self, node):
        t, ty = self.expr(node)
        if ty != "I":
            fail(self.where(node), f"{ast.unparse(node)} is not an int")
        return t

    def call(self, e):
        kw = {k.arg: k.value for k in e.keywords}
        f = e.func
        if isinstance(f, ast.Name):
            if f.id in self.env or f.id in self.cells:
                fail(self.where(e), f"{f.id} is a local name, not the builtin")
            if f.id in ("min", "max") and len(e.args) == 2 and not kw:
                a, b = self.expr(e.args[0]), self.expr(e.args[1])
                if a[1] == "I" and b[1] == "I":
                    return (f"(Z.{f.id} {a[0]} {b[0]})", "I")
                fail(self.where(e), f"{f.id} of floats is not supported: {ast.unparse(e)}")
            fail(self.where(e), f"call not supported: {ast.unparse(e)}")
        if isinstance(f, ast.Attribute) and isinstance(f.value, ast.Name) and f.value.id == "np":
            n = f.attr
            if n in ("nanmin", "nanmax") and len(e.args) == 1 and not kw:
                if isinstance(e.args[0], ast.Name) and self.env.get(e.args[0].id) == "VOL":
                    if self.in_body:
                        fail(self.where(e), f"{n} of the whole volume inside the pixel loop")
                    return (f"(np_{n}3 {e.args[0].id})", "F")
                t, ty = self.expr(e.args[0])
                if ty == "V":
                    return (f"(np_{n} {t})", "F")
                if ty == "IV":
                    return (self.hoist(f"iv_{n[3:]} {t}"), "I")
                fail(self.where(e), f"np.{n} of a value of type {ty}")
            if n in ("min", "max") and len(e.args) == 1 and not kw:
                t, ty = self.expr(e.args[0])
                if ty == "M2":
                    return (self.hoist(f"np_{n}2 {t}"), "F")
                fail(self.where(e), f"np.{n} of a value of type {ty}")
            if n == "copy" and len(e.args) == 1 and not kw:
                t, ty = self.expr(e.args[0])
                if ty == "M2":
                    return (t, "M2")          # value semantics: a copy is the same value
                fail(self.where(e), f"np.copy of a value of type {ty}")
            if n == "percentile" and len(e.args) == 2 and not kw:
                t, ty = self.expr(e.args[0])
                q = self.as_f(e, self.expr(e.args[1]))
                if ty == "M2":
                    self.uses_percentile = True
                    return (f"(np_percentile {t} {q})", "F")
                fail(self.where(e), f"np.percentile of a value of type {ty}")
            if n == "nanmean" and len(e.args) == 1 and not kw:
                t, ty = self.expr(e.args[0])
                if ty == "V":
                    return (f"(np_nanmean {t})", "F")
                fail(self.where(e), f"np.nanmean of a value of type {ty}")
            if n == "isnan" and len(e.args) == 1 and not kw:
                t, ty = self.expr(e.args[0])
                if ty == "V":
                    return (f"(map xisnan {t})", "BV")
                fail(self.where(e), f"np.isnan of a value of type {ty} used as a value")
            if n == "repeat" and len(e.args) == 2 and not kw:
                t, ty = self.expr(e.args[0])
                k = self.int_arg(e.args[1])
                if ty == "F":
                    return (f"(np_repeat_s {t} {k})", "V")
                if ty in ("V", "IV", "BV"):
                    return (f"(np_repeat {t} {k})", ty)
                fail(self.where(e), f"np.repeat of a value of type {ty}")
            if n == "arange" and len(e.args) == 1 and not kw:
                return (f"(np_arange {self.int_arg(e.args[0])})", "IV")
            if n == "zeros" and len(e.args) == 1 and not kw and not isinstance(e.args[0], ast.Tuple):
                return (f"(np_zeros {self.int_arg(e.args[0])})", "V")
            if n == "sum" and len(e.args) == 1:
                t, ty = self.expr(e.args[0])
                if ty == "BV" and not kw:
                    return (f"(b_sum {t})", "I")
                if ty == "BM" and list(kw) == ["axis"] and isinstance(kw["axis"], ast.Constant) \
                        and kw["axis"].value == 0 and not isinstance(kw["axis"].value, bool):
                    return (f"(bm_sum0 {t})", "IV")
                fail(self.where(e), f"np.sum not supported: {ast.unparse(e)}")
            if n == "argsort" and len(e.args) == 1 and not kw:
                t, ty = self.expr(e.args[0])
                if ty == "V":
                    self.uses_argsort = True
                    return (f"(argsort {t})", "IV")
                fail(self.where(e), f"np.argsort of a value of type {ty}")
            fail(self.where(e), f"numpy call not supported: {ast.unparse(e)}")
        if isinstance(f, ast.Attribute) and not kw:
            t, ty = self.expr(f.value)
            if f.attr == "reshape" and isinstance(f.value, ast.Name):
                self.fresh.discard(f.value.id)      # the result is a view: no in-place write into the base any more
            if f.attr == "reshape" and len(e.args) == 1 and ty in ("V", "BV"):
                r, c = self.shape_tuple(e.args[0], 2)
                mty = "FM" if ty == "V" else "BM"
                if isinstance(r, ast.UnaryOp) and isinstance(r.op, ast.USub) and isinstance(r.operand, ast.Constant) \
                        and r.operand.value == 1 and not isinstance(r.operand.value, bool):
                    return (self.hoist(f"v_reshape_m1 {t} {self.int_arg(c)}"), mty)
                return (self.hoist(f"v_reshape {t} {self.int_arg(r)} {self.int_arg(c)}"), mty)
            if f.attr == "flatten" and not e.args and ty in ("FM", "BM"):
                return (f"(m_flatten {t})", "V" if ty == "FM" else "BV")
            if f.attr == "sum" and not e.args and ty == "BV":
                return (f"(b_sum {t})", "I")
        fail(self.where(e), f"call not supported: {ast.unparse(e)}")

    # ------------------------------------------------------------ tests (bool)
    def test(self, t):
        if isinstance(t, ast.UnaryOp) and isinstance(t.op, ast.Not):
            return f"(negb {self.test(t.operand)})"
        if np_call(t, "isnan", 1) and not t.keywords:
            a = self.expr(t.args[0])
            if a[1] in ("F", "I"):
                return f"(xisnan {self.as_f(t, a)})"
            fail(self.where(t), f"np.isnan of an array used as a test: {ast.unparse(t)}")
        if isinstance(t, ast.Compare) and len(t.ops) == 1:
            op = t.ops[0]
            a = self.expr(t.left)
            b = self.expr(t.comparators[0])
            if a[1] == "I" and b[1] == "I":
                if isinstance(op, ast.NotEq):
                    return f"(negb ({a[0]} =? {b[0]})%Z)"
                if type(op) in Z_CMP:
                    return f"({a[0]} {Z_CMP[type(op)]} {b[0]})%Z"
            elif a[1] in ("F", "I") and b[1] in ("F", "I") and type(op) in F_CMP:
                return f"({F_CMP[type(op)]} {self.as_f(t, a)} {self.as_f(t, b)})"
            fail(self.where(t), f"comparison not supported as a test: {ast.unparse(t)}")
        fail(self.where(t), f"test shape not supported: {ast.unparse(t)}")

    # ------------------------------------------------------------ statements
    def bind(self, node, name, ty, value=None):
        if name in RESERVED or re.fullmatch(r"tmp\d+|\w+_rc", name):
            fail(self.where(node), f"the local name {name} clashes with a name of the generated text")
        if name in self.frozen or name in self.cells:
            fail(self.where(node), f"assignment to the parameter / prelude variable / array {name}")
        self.env[name] = ty
        self.fresh.discard(name)
        if value is not None and ty in ("V", "IV", "BV") and (
                isinstance(value, ast.BinOp) or np_call(value, "repeat") or np_call(value, "zeros")):
            self.fresh.add(name)
        if value is not None and ty == "M2" and np_call(value, "copy"):
            self.fresh.add(name)

    def local_array(self, node, name):
        if not (isinstance(name, ast.Name) and self.env.get(name.id) in ("V", "IV", "BV")) or name.id in self.frozen:
            fail(self.where(node), f"in-place write into something that is not a local 1-D array: {ast.unparse(node)}")
        if name.id not in self.fresh:
            fail(self.where(node), f"in-place write into {name.id}, which may be a view or an alias")
        return name.id

    def assigned_names(self, stmts):
        out = []
        for s in stmts:
            for n in ast.walk(s):
                tgt = []
                if isinstance(n, ast.Assign):
                    tgt = n.targets
                elif isinstance(n, (ast.AugAssign, ast.AnnAssign)):
                    tgt = [n.target]
                elif isinstance(n, ast.For):
                    tgt = [n.target]
                for t in tgt:
                    for x in (t.elts if isinstance(t, ast.Tuple) else [t]):
                        base = x.value if isinstance(x, ast.Subscript) else x
                        if not isinstance(base, ast.Name):
                            fail(self.where(n), f"assignment target not supported: {ast.unparse(x)}")
                        if base.id not in out:
                            out.append(base.id)
        return out

    def simple_assigns(self, stmts):
        out = []
        for s in stmts:
            if not (isinstance(s, ast.Assign) and len(s.targets) == 1 and isinstance(s.targets[0], ast.Name)):
                return None
            if s.targets[0].id in [n for n, _ in out]:
                return None
            out.append((s.targets[0].id, s.value))
        return out

    def block(self, stmts, end):
        if not stmts:
            return end
        s, rest = stmts[0], stmts[1:]
        if isinstance(s, ast.Expr) and isinstance(s.value, ast.Constant) and isinstance(s.value.value, str):
            return self.block(rest, end)
        self.pre = []
        if isinstance(s, ast.Return) and self.method_mode:
            if rest or s.value is None:
                fail(self.where(s), "statements after return / empty return")
            t, ty = self.expr(s.value)
            if ty != "M2":
                fail(self.where(s), f"the method returns a value of type {ty}")
            return self.wrap(self.pre, f"Some {t}")
        if isinstance(s, ast.Expr) and self.method_mode and np_call(s.value, "clip", 3):
            # np.clip(x, lo, hi, out=x) on a fresh local copy: x is rebound to the clipped array
            c = s.value
            kw = {k.arg: k.value for k in c.keywords}
            x = c.args[0]
            if not (isinstance(x, ast.Name) and self.env.get(x.id) == "M2" and x.id in self.fresh and list(kw) == ["out"]
                    and isinstance(kw["out"], ast.Name) and kw["out"].id == x.id):
                fail(self.where(s), f"np.clip not of the form np.clip(x, lo, hi, out=x) on a local copy: {ast.unparse(s)}")
            lo = self.as_f(s, self.expr(c.args[1]))
            hi = self.as_f(s, self.expr(c.args[2]))
            pre = self.pre
            return self.wrap(pre, f"let {x.id} := (np_clip2 {x.id} {lo} {hi}) in\n" + self.block(rest, end))
        if isinstance(s, ast.Assign) and len(s.targets) == 1:
            tgt = s.targets[0]
            if isinstance(tgt, ast.Name):
                if isinstance(s.value, ast.Name):
                    fail(self.where(s), f"alias of another variable: {ast.unparse(s)}")
                t, ty = self.expr(s.value)
                pre = self.pre
                self.bind(s, tgt.id, ty, s.value)
                return self.wrap(pre, f"let {tgt.id} := {t} in\n" + self.block(rest, end))
            if isinstance(tgt, ast.Tuple) and isinstance(s.value, ast.Tuple) and len(tgt.elts) == len(s.value.elts) \
                    and all(isinstance(x, ast.Name) for x in tgt.elts):
                names = [x.id for x in tgt.elts]
                if len(set(names)) != len(names):
                    fail(self.where(s), "the same name twice in a tuple target")
                for v in s.value.elts:
                    for n in ast.walk(v):
                        if isinstance(n, ast.Name) and n.id in names:
                            fail(self.where(s), f"the tuple assignment reads one of its targets: {ast.unparse(s)}")
                lets = ""
                vals = [self.expr(v) for v in s.value.elts]
                pre = self.pre
                for nm, (t, ty), v in zip(names, vals, s.value.elts):
                    self.bind(s, nm, ty, v)
                    lets += f"let {nm} := {t} in\n"
                return self.wrap(pre, lets + self.block(rest, end))
            if isinstance(tgt, ast.Subscript) and isinstance(tgt.value, ast.Name):
                arr = tgt.value.id
                if arr in self.cells:
                    cell, cty, writable = self.cells[arr]
                    if not self.in_body or not writable:
                        fail(self.where(s), f"store into {arr} (an input, or outside the pixel loop)")
                    if not is_rc(tgt.slice, 2 if cty == "F" else 3):
                        fail(self.where(s), f"{arr} is written at something else than the pixel: {ast.unparse(tgt)}")
                    tv = self.expr(s.value)
                    if cty == "F":
                        new = self.as_f(s, tv)
                    elif tv[1] in ("F", "I"):
                        new = f"(v_fill {cell} {self.as_f(s, tv)})"
                    else:
                        new = self.hoist(f"v_assign {cell} {self.as_v(s, tv)}")
                    pre = self.pre
                    return self.wrap(pre, f"let {cell} := {new} in\n" + self.block(rest, end))
                v = self.local_array(s, tgt.value)
                vty = self.env[v]
                if isinstance(tgt.slice, (ast.Tuple, ast.Slice)):
                    fail(self.where(s), f"store not supported: {ast.unparse(tgt)}")
                i, ity = self.expr(tgt.slice)
                tv = self.expr(s.value)
                if vty == "V":
                    x = self.as_f(s, tv)
                elif vty == "IV" and tv[1] == "I":
                    x = tv[0]
                else:
                    fail(self.where(s), f"a value of type {tv[1]} is stored into an array of type {vty}")
                if ity == "BV":
                    new = self.hoist(f"v_setmask {v} {i} {x}")
                elif ity == "I":
                    new = self.hoist(f"v_store {v} {i} {x}")
                else:
                    fail(self.where(s), f"store index of type {ity}: {ast.unparse(tgt)}")
                pre = self.pre
                return self.wrap(pre, f"let {v} := {new} in\n" + self.block(rest, end))
        if isinstance(s, ast.AugAssign) and isinstance(s.op, ast.Add) and isinstance(s.target, ast.Subscript) \
                and isinstance(s.target.value, ast.Name) and s.target.value.id in self.cells:
            cell, cty, writable = self.cells[s.target.value.id]
            if self.in_body and writable and cty == "F" and is_rc(s.target.slice, 2):
                x = self.as_f(s, self.expr(s.value))
                pre = self.pre
                return self.wrap(pre, f"let {cell} := (xadd {cell} {x}) in\n" + self.block(rest, end))
        if isinstance(s, ast.If):
            tst = self.test(s.test)
            pre = self.pre
            a1 = self.simple_assigns(s.body)
            if a1 and not s.orelse and all(self.env.get(n) in ("I", "F") for n, _ in a1) and len(a1) == 1:
                n, v = a1[0]
                self.pre = []
                t, ty = self.expr(v)
                if not self.pre and ty == self.env[n] and n not in self.frozen:
                    return self.wrap(pre, f"let {n} := if {tst} then {t} else {n} in\n" + self.block(rest, end))
            env0, fresh0 = dict(self.env), set(self.fresh)
            b1 = self.block(s.body + rest, end)
            self.env, self.fresh = dict(env0), set(fresh0)
            b2 = self.block(s.orelse + rest, end)
            return self.wrap(pre, f"if {tst} then\n{b1}\nelse\n{b2}")
        if isinstance(s, ast.For):
            it = s.iter
            if not (isinstance(s.target, ast.Name) and not s.orelse and isinstance(it, ast.Call)
                    and isinstance(it.func, ast.Name) and it.func.id == "range" and len(it.args) == 1
                    and not it.keywords):
                fail(self.where(s), f"loop header not supported: {ast.unparse(s).splitlines()[0]}")
            for n in ast.walk(s):
                if isinstance(n, (ast.Break, ast.Continue, ast.Return, ast.While)):
                    fail(self.where(n), f"{type(n).__name__} inside a loop")
            n_it = self.int_arg(it.args[0])
            pre = self.pre
            var = s.target.id
            state = [n for n in self.assigned_names(s.body) if n in self.env]
            if var in self.env or var in self.cells or var in RESERVED or not state:
                fail(self.where(s), f"loop variable {var} shadows a name, or the loop assigns nothing")
            for n in state:
                if n in self.frozen:
                    fail(self.where(s), f"the loop assigns {n}")
            for n in self.assigned_names(s.body):
                if n in self.cells:
                    fail(self.where(s), f"the loop writes the array {n}")
            tup = state[0] if len(state) == 1 else "(" + ", ".join(state) + ")"
            pat = state[0] if len(state) == 1 else "'(" + ", ".join(state) + ")"
            env0, fresh0 = dict(self.env), set(self.fresh)
            self.env[var] = "I"
            self.frozen.add(var)
            inner = self.block(s.body, f"Some {tup}")
            self.frozen.discard(var)
            for n in state:
                if self.env[n] != env0[n]:
                    fail(self.where(s), f"the loop changes the type of {n}")
            self.env, self.fresh = env0, fresh0
            return self.wrap(pre, f"match for_range {n_it} (fun {var} {pat} =>\n{inner}) {tup} with None => None "
                                  f"| Some {tup} =>\n" + self.block(rest, end) + " end")
        fail(self.where(s), f"statement shape not supported: {ast.unparse(s).splitlines()[0]}")


# ---------------------------------------------------------------- locating and framing the kernels


def same(node, text):
    return ast.dump(node) == ast.dump(ast.parse(text).body[0])


def check_imports(path, tree):
    seen = {}
    for n in tree.body:
        if isinstance(n, ast.Import):
            for a in n.names:
                seen[a.asname or a.name.split(".")[0]] = a.name
        elif isinstance(n, ast.ImportFrom) and n.level == 0:
            for a in n.names:
                seen[a.asname or a.name] = f"{n.module}.{a.name}"
    want = {"np": "numpy", "njit": "numba.njit", "prange": "numba.prange"}
    for alias, full in want.items():
        if seen.get(alias) != full:
            fail(path, f"the name {alias} is not {full} (found {seen.get(alias)!r})")
    for n in tree.body:
        if isinstance(n, (ast.ClassDef, ast.Import, ast.ImportFrom)):
            continue
        names = [n.name] if isinstance(n, (ast.FunctionDef, ast.AsyncFunctionDef)) else \
            [t.id for t in ast.walk(n) if isinstance(t, ast.Name) and isinstance(t.ctx, ast.Store)]
        for nm in names:
            if nm in want or nm in ("min", "max", "range"):
                fail(f"{path}:{n.lineno}", f"the module rebinds {nm}")
    for alias, full in seen.items():
        if alias in ("min", "max", "range"):
            fail(path, f"the module imports {full} as {alias}")


DECORATOR = 'njit(SIG, parallel=literal_eval(os.environ.get("PANDORA_NUMBA_PARALLEL", "True")), cache=True)'


def find_kernel(path, tree, cls_name, name, params, ret_sig):
    cls = [n for n in tree.body if isinstance(n, ast.ClassDef) and n.name == cls_name]
    if len(cls) != 1:
        fail(path, f"{len(cls)} classes named {cls_name}")
    fns = [n for n in cls[0].body if isinstance(n, ast.FunctionDef) and n.name == name]
    if len(fns) != 1:
        fail(f"{path}:{cls[0].lineno}", f"{len(fns)} definitions of {cls_name}.{name}")
    fn = fns[0]
    d = fn.decorator_list
    if not (len(d) == 2 and isinstance(d[0], ast.Name) and d[0].id == "staticmethod" and isinstance(d[1], ast.Call)
            and d[1].args and isinstance(d[1].args[0], ast.Constant) and isinstance(d[1].args[0].value, str)):
        fail(f"{path}:{fn.lineno}", f"{name} is not decorated with staticmethod + njit(signature, ...)")
    sig = d[1].args[0].value
    # error_model / fastmath / another parallel setting would change what a division by zero or a NaN comparison does
    if ast.dump(d[1]) != ast.dump(ast.parse(DECORATOR.replace("SIG", repr(sig))).body[0].value):
        fail(f"{path}:{d[1].lineno}", f"decorator arguments not supported: {ast.unparse(d[1])}")
    m = re.fullmatch(r"(.*)\((.*)\)", sig)
    if not m:
        fail(f"{path}:{d[1].lineno}", f"numba signature not understood: {sig}")
    args = [a.strip() for a in re.split(r",\s*(?![^\[]*\])", m.group(2))]
    if m.group(1).replace(" ", "") != ret_sig.replace(" ", "") or any(a not in SIG_TYPES for a in args):
        fail(f"{path}:{d[1].lineno}", f"unexpected numba signature {sig}")
    a = fn.args
    if [x.arg for x in a.args] != [p for p, _ in params] or a.vararg or a.kwarg or a.kwonlyargs or a.posonlyargs \
            or a.defaults:
        fail(f"{path}:{fn.lineno}", f"unexpected parameters of {name}: {[x.arg for x in a.args]}")
    if [SIG_TYPES[x] for x in args] != [t for _, t in params]:
        fail(f"{path}:{d[1].lineno}", f"the numba signature {sig} does not give the expected types {params}")
    for n in ast.walk(fn):
        if isinstance(n, (ast.Global, ast.Nonlocal, ast.Lambda, ast.FunctionDef, ast.Try, ast.With, ast.While)) \
                and n is not fn:
            fail(f"{path}:{n.lineno}", f"{type(n).__name__} inside {name}")
    return fn


def names_loaded(stmts):
    out = []
    for s in stmts:
        for n in ast.walk(s):
            if isinstance(n, ast.Name) and n.id not in out:
                out.append(n.id)
    return out


def translate_kernel(path, src, tree, cls_name, name, params, ret_sig, eta_params):
    """params: [(python name, type)] in signature order.  -> coq text of the two definitions"""
    fn = find_kernel(path, tree, cls_name, name, params, ret_sig)
    tr = Tr(path)
    stmts = [s for s in fn.body
             if not (isinstance(s, ast.Expr) and isinstance(s.value, ast.Constant) and isinstance(s.value.value, str))]
    vols = [p for p, t in params if t == "VOL"]
    kernel_args = []           # (name, coq type) of the generated kernel
    for p, t in params:
        if p in eta_params:
            continue
        if p in RESERVED:
            fail(f"{path}:{fn.lineno}", f"parameter name {p} clashes with the generated text")
        tr.env[p] = t
        tr.frozen.add(p)
        kernel_args.append((p, "vol" if t == "VOL" else COQ_TYPE[t]))
    # ---- prelude
    k = 0
    prelude = []               # text lines
    order = [p for p, t in params if t != "VOL" and p not in eta_params]   # candidates for pixel parameters, in order
    outputs = []               # (array, cell type, init text)
    shape_names = None
    while k < len(stmts) and not isinstance(stmts[k], ast.For):
        s = stmts[k]
        k += 1
        tr.pre = []
        if not (isinstance(s, ast.Assign) and len(s.targets) == 1):
            fail(f"{path}:{s.lineno}", f"prelude statement not supported: {ast.unparse(s)}")
        tgt, v = s.targets[0], s.value
        if isinstance(tgt, ast.Tuple):
            if not (len(tgt.elts) == 3 and all(isinstance(x, ast.Name) for x in tgt.elts)
                    and same(ast.Expr(v), f"{vols[0]}.shape") and shape_names is None
                    and [x.id for x in tgt.elts][:2] == ["n_row", "n_col"]):
                fail(f"{path}:{s.lineno}", f"prelude statement not supported: {ast.unparse(s)}")
            shape_names = [x.id for x in tgt.elts]
            nd = shape_names[2]
            if nd in RESERVED or nd in tr.env:
                fail(f"{path}:{s.lineno}", f"name {nd} clashes")
            for x in shape_names:
                tr.env[x] = "I"
                tr.frozen.add(x)
            order.append(nd)
            prelude.append(f"let '(n_row, n_col, {nd}) := shape3 {vols[0]} in")
            continue
        if not isinstance(tgt, ast.Name):
            fail(f"{path}:{s.lineno}", f"prelude statement not supported: {ast.unparse(s)}")
        nm = tgt.id
        if nm in tr.env or nm in tr.cells or nm in RESERVED or re.fullmatch(r"tmp\d+|\w+_rc", nm):
            fail(f"{path}:{s.lineno}", f"the prelude rebinds {nm} / name clash")
        if eta_params and same(s, f"{nm} = np.arange({', '.join(eta_params)})"):
            # the float samples are data (DESIGN 2.1 c): an argument of the generated kernel
            tr.env[nm] = "V"
            tr.frozen.add(nm)
            order.append(nm)
            kernel_args.append((nm, "vec"))
            prelude.append(f"(* {ast.unparse(s)}: data *)")
            continue
        # output arrays
        init = None
        if shape_names:
            if same(s, f"{nm} = np.zeros((n_row, n_col), dtype=np.float32)"):
                init = ("F", "(XFin 0)")
            elif same(s, f"{nm} = np.full((n_row, n_col), 0, dtype=np.float32)"):
                init = ("F", "(xofz 0)")
            elif np_call(v, "zeros", 1) and isinstance(v.args[0], ast.Tuple) and len(v.args[0].elts) == 3 \
                    and same(s, f"{nm} = np.zeros((n_row, n_col, {ast.unparse(v.args[0].elts[2])}), dtype=np.float32)"):
                init = ("V", f"(np_zeros {tr.int_arg(v.args[0].elts[2])})")
                if tr.pre:
                    fail(f"{path}:{s.lineno}", "partial operation in an array shape")
        if init is not None:
            outputs.append((nm, init[0], init[1]))
            tr.cells[nm] = (nm + "_rc", init[0], True)
            continue
        if any(isinstance(n, ast.Name) and n.id in ("n_row", "n_col") for n in ast.walk(v)):
            fail(f"{path}:{s.lineno}", f"prelude statement not supported: {ast.unparse(s)}")
        t, ty = tr.expr(v)
        if ty not in COQ_TYPE:
            fail(f"{path}:{s.lineno}", f"prelude value of type {ty}")
        prelude.append(tr.wrap_open(f"let {nm} := {t} in"))
        tr.env[nm] = ty
        tr.frozen.add(nm)
        order.append(nm)
    if shape_names is None or not outputs:
        fail(f"{path}:{fn.lineno}", "the prelude does not read the shape / allocate the result arrays")
    # ---- the loop nest and the return
    if len(stmts) != k + 2:
        fail(f"{path}:{fn.lineno}", f"{name}: expected <prelude>; for row ...; return ...")
    outer, ret = stmts[k], stmts[k + 1]
    ok = isinstance(outer, ast.For) and isinstance(outer.target, ast.Name) and outer.target.id == "row" \
        and same(ast.Expr(outer.iter), "prange(n_row)") and not outer.orelse and len(outer.body) == 1
    inner = outer.body[0] if ok else None
    ok = ok and isinstance(inner, ast.For) and isinstance(inner.target, ast.Name) and inner.target.id == "col" \
        and same(ast.Expr(inner.iter), "prange(n_col)") and not inner.orelse
    if not ok:
        fail(f"{path}:{outer.lineno}", "the loop nest is not `for row in prange(n_row): for col in prange(n_col):`")
    want_ret = ", ".join(o[0] for o in outputs)
    if not (isinstance(ret, ast.Return) and ret.value is not None and same(ast.Expr(ret.value), want_ret)):
        fail(f"{path}:{ret.lineno}", f"the kernel does not return `{want_ret}`")
    for n in ast.walk(inner):
        if isinstance(n, (ast.Break, ast.Continue, ast.Return)):
            fail(f"{path}:{n.lineno}", f"{type(n).__name__} inside the pixel body")
        if isinstance(n, ast.Name) and isinstance(n.ctx, ast.Store) and n.id in ("row", "col") and n is not inner.target:
            fail(f"{path}:{n.lineno}", f"the pixel body assigns {n.id}")
    for vname in vols:
        tr.cells[vname] = (vname + "_rc", "V", False)
        del tr.env[vname]
    tr.in_body = True
    cells_out = [c + "_rc" for c, _, _ in outputs]
    end = "Some " + (cells_out[0] if len(cells_out) == 1 else "(" + ", ".join(cells_out) + ")")
    env_prelude = dict(tr.env)
    body = tr.block(inner.body, end)
    used = names_loaded(inner.body)
    pix_params = [(n, COQ_TYPE[env_prelude[n]]) for n in order if n in used]
    reads = [(v + "_rc", "vec") for v in vols if v in used]
    if [v for v in vols if v not in used]:
        fail(f"{path}:{inner.lineno}", "a 3-D input is not read by the pixel body")
    inits = [(c + "_rc", COQ_TYPE[t]) for c, t, _ in outputs]
    out_ty = " * ".join(COQ_TYPE[t] for _, t, _ in outputs)
    argsort = "(argsort : vec -> ivec) " if tr.uses_argsort else ""
    sig_pix = argsort + " ".join(f"({n} : {t})" for n, t in pix_params + reads + inits)
    text = (f"(* {cls_name}.{name}: the body of the (row, col) loop nest on one pixel *)\n"
            f"Definition {name}_pixel {sig_pix}\n  : option ({out_ty}) :=\n{indent(body)}.\n\n")
    call = f"{name}_pixel " + ("argsort " if tr.uses_argsort else "") + " ".join(n for n, _ in pix_params)
    cell_args = " ".join(n for n, _ in reads)
    init_args = " ".join(i for _, _, i in outputs)
    if len(vols) == 1:
        nest = f"omap2 (fun {cell_args} => {call} {cell_args} {init_args}) {vols[0]}"
    elif len(vols) == 2:
        nest = f"ozip2 (fun {cell_args} => {call} {cell_args} {init_args}) {vols[0]} {vols[1]}"
    else:
        fail(f"{path}:{fn.lineno}", "more than two 3-D inputs")
    closing = " end" * sum(l.count("match ") for l in prelude)
    sig_k = argsort + " ".join(f"({n} : {t})" for n, t in kernel_args)
    text += (f"(* {cls_name}.{name}: prelude, then the pixel body at every (row, col) *)\n"
             f"Definition {name} {sig_k}\n  : option (list (list ({out_ty}))) :=\n"
             + indent("\n".join(prelude) + "\n" + nest + closing) + ".\n\n")
    seg = "\n".join(src.splitlines()[fn.lineno - 1:fn.end_lineno])
    return text, (path, f"lines {fn.lineno}-{fn.end_lineno} ({cls_name}.{name})", sha1_of(seg))


def translate_normalize(path, src, tree):
    """Ambiguity.normalize_with_percentile(self, ambiguity): plain numpy on the whole 2-D map; np.percentile is a
    PARAMETER of the generated function (its contract -- linear interpolation between order statistics -- is a hypothesis
    of the theorem), self._percentile a parameter too"""
    cls = [n for n in tree.body if isinstance(n, ast.ClassDef) and n.name == "Ambiguity"]
    fns = [n for n in cls[0].body if isinstance(n, ast.FunctionDef) and n.name == "normalize_with_percentile"] if cls else []
    if len(fns) != 1:
        fail(path, f"{len(fns)} definitions of Ambiguity.normalize_with_percentile")
    fn = fns[0]
    a = fn.args
    if fn.decorator_list or [x.arg for x in a.args] != ["self", "ambiguity"] or a.vararg or a.kwarg or a.kwonlyargs \
            or a.posonlyargs or a.defaults:
        fail(f"{path}:{fn.lineno}", "unexpected signature / decorator of normalize_with_percentile")
    for n in ast.walk(fn):
        if isinstance(n, (ast.Global, ast.Nonlocal, ast.Lambda, ast.FunctionDef, ast.Try, ast.With, ast.While, ast.For)) \
                and n is not fn:
            fail(f"{path}:{n.lineno}", f"{type(n).__name__} inside normalize_with_percentile")
        if isinstance(n, ast.Attribute) and isinstance(n.value, ast.Name) and n.value.id == "self" \
                and not isinstance(n.ctx, ast.Load):
            fail(f"{path}:{n.lineno}", "normalize_with_percentile assigns an attribute of self")
    tr = Tr(path)
    tr.method_mode = True
    tr.in_body = True
    tr.env["ambiguity"] = "M2"
    tr.frozen.add("ambiguity")
    tr.self_attrs["self._percentile"] = ("self_percentile", "F")
    stmts = list(fn.body)
    if not tr_terminates(stmts):
        fail(f"{path}:{fn.lineno}", "normalize_with_percentile can fall off its end without a return")
    body = tr.block(stmts, "None")
    text = ("(* Ambiguity.normalize_with_percentile(self, ambiguity); np.percentile and self._percentile are parameters *)\n"
            "Definition normalize_with_percentile (np_percentile : mat2 -> xf -> xf) (self_percentile : xf) (ambiguity : mat2)\n"
            f"  : option mat2 :=\n{indent(body)}.\n\n")
    seg = "\n".join(src.splitlines()[fn.lineno - 1:fn.end_lineno])
    # self._percentile is the class constant _PERCENTILE, set once in __init__
    inits = [n for n in cls[0].body if isinstance(n, ast.FunctionDef) and n.name == "__init__"]
    sets = [n for n in ast.walk(cls[0]) if isinstance(n, ast.Attribute) and isinstance(n.ctx, ast.Store)
            and n.attr == "_percentile"]
    if len(inits) != 1 or len(sets) != 1 or not any(same(st, "self._percentile = self._PERCENTILE") for st in inits[0].body):
        fail(path, "self._percentile is not set exactly once, as `self._percentile = self._PERCENTILE` in __init__")
    return text, (path, f"lines {fn.lineno}-{fn.end_lineno} (Ambiguity.normalize_with_percentile)", sha1_of(seg))


def tr_terminates(stmts):
    stmts = [s for s in stmts if not (isinstance(s, ast.Expr) and isinstance(s.value, ast.Constant))]
    return bool(stmts) and isinstance(stmts[-1], ast.Return)


def wrap_open(self, inner):
    """a prelude line: the hoisted partial operations stay open (closed at the end of the definition)"""
    return "".join(self.pre) + inner


Tr.wrap_open = wrap_open


def indent(text, pad="  "):
    return "\n".join(pad + l for l in text.splitlines())


def parse_module(path):
    if not os.path.isfile(path):
        fail(path, "file is missing")
    with open(path) as f:
        src = f.read()
    tree = ast.parse(src)
    check_imports(path, tree)
    return src, tree


# the call sites: what the confidence_prediction methods hand to the kernels
ORIENT = """
cost_volume = cv["cost_volume"].data
if cv.attrs.get("type_measure", "min") == "max":
    cost_volume = -cost_volume
"""
CALLS = {
    "Ambiguity": ORIENT + """
ambiguity = self.compute_ambiguity(cost_volume, self._eta_min, self._eta_max, self._eta_step)
if self._normalization:
    ambiguity = self.normalize_with_percentile(ambiguity)
ambiguity = 1 - ambiguity
disp, cv = self.allocate_confidence_map(self._indicator, ambiguity, disp, cv)
""",
    "Risk": """
ambiguity_ = cost_volume_confidence.AbstractCostVolumeConfidence(**{"confidence_method": "ambiguity"})
""" + ORIENT + """
_, sampled_ambiguity = ambiguity_.compute_ambiguity_and_sampled_ambiguity(cost_volume, self._eta_min, self._eta_max, self._eta_step)
risk_max, risk_min = self.compute_risk(cost_volume, sampled_ambiguity, self._eta_min, self._eta_max, self._eta_step)
""",
    "IntervalBounds": """
if cv.attrs["type_measure"] == "min":
    type_factor = -1.0
else:
    type_factor = 1.0
interval_bound_inf, interval_bound_sup = self.compute_interval_bounds(cv["cost_volume"].data, cv["disp"].data.astype(np.float32), self._possibility_threshold, type_factor)
""",
}


REGISTERED = {"Ambiguity": "ambiguity", "Risk": "risk", "IntervalBounds": "interval_bounds"}


def check_registration(path, tree, cls_name):
    """the class is the one registered under its method name (what AbstractCostVolumeConfidence(**cfg) instantiates)"""
    want = f'cost_volume_confidence.AbstractCostVolumeConfidence.register_subclass("{REGISTERED[cls_name]}")'
    cls = [n for n in tree.body if isinstance(n, ast.ClassDef) and n.name == cls_name][0]
    if [ast.dump(d) for d in cls.decorator_list] != [ast.dump(ast.parse(want).body[0].value)]:
        fail(f"{path}:{cls.lineno}", f"class {cls_name} is not decorated with exactly @{want}")
    others = [n for n in ast.walk(tree) if isinstance(n, ast.Call) and isinstance(n.func, ast.Attribute)
              and n.func.attr == "register_subclass"]
    if len(others) != 1:
        fail(path, "more than one register_subclass in the module")


def check_call_site(path, tree, cls_name):
    check_registration(path, tree, cls_name)
    """confidence_prediction contains, once each and in this order, the statements of CALLS[cls_name]; the variables
    they set are not assigned anywhere else in the method"""
    cls = [n for n in tree.body if isinstance(n, ast.ClassDef) and n.name == cls_name][0]
    fns = [n for n in cls.body if isinstance(n, ast.FunctionDef) and n.name == "confidence_prediction"]
    if len(fns) != 1:
        fail(f"{path}:{cls.lineno}", f"{len(fns)} definitions of {cls_name}.confidence_prediction")
    fn = fns[0]
    flat = [n for n in ast.walk(fn) if isinstance(n, ast.stmt)]
    flat.sort(key=lambda n: (n.lineno, n.col_offset))
    dumps = [ast.dump(n) for n in flat]
    pos = -1
    watched = set()
    for w in ast.parse(CALLS[cls_name]).body:
        hits = [i for i, d in enumerate(dumps) if d == ast.dump(w)]
        if len(hits) != 1 or hits[0] <= pos:
            fail(f"{path}:{fn.lineno}", f"{cls_name}.confidence_prediction does not contain exactly once, in order: "
                                        f"{ast.unparse(w).splitlines()[0]}")
        pos = hits[0]
        for n in ast.walk(w):
            if isinstance(n, ast.Name) and isinstance(n.ctx, ast.Store) and n.id != "_":
                watched.add(n.id)
    # only the variables that flow INTO a kernel call are watched (its results are post-processed freely)
    loaded = {n.id for w in ast.parse(CALLS[cls_name]).body for n in ast.walk(w)
              if isinstance(n, ast.Name) and isinstance(n.ctx, ast.Load)}
    watched &= loaded
    expected = sum(1 for w in ast.parse(CALLS[cls_name]).body for n in ast.walk(w)
                   if isinstance(n, ast.Name) and isinstance(n.ctx, ast.Store) and n.id in watched)
    got = sum(1 for n in ast.walk(fn) if isinstance(n, ast.Name) and isinstance(n.ctx, ast.Store) and n.id in watched)
    if got != expected:
        fail(f"{path}:{fn.lineno}", f"{cls_name}.confidence_prediction assigns one of {sorted(watched)} somewhere else")
    # the eta_min / threshold attributes are the class constants / configuration values
    return sha1_of("\n".join(ast.unparse(w) for w in ast.parse(CALLS[cls_name]).body))


HEADER = """From Coq Require Import ZArith QArith List Bool.
From Pandora Require Import Lib.NpVec.
Import ListNotations.
Open Scope Z_scope.

"""

ETA = ["_eta_min", "_eta_max", "_eta_step"]


def translate():
    d = os.path.join(REPO, "pandora", "cost_volume_confidence")
    body = HEADER
    sources = []
    p_amb = os.path.join(d, "ambiguity.py")
    src, tree = parse_module(p_amb)
    eta_sig = [("_eta_min", "F"), ("_eta_max", "F"), ("_eta_step", "F")]
    for name, ret in (("compute_ambiguity", "f4[:, :]"),
                      ("compute_ambiguity_and_sampled_ambiguity", "Tuple((f4[:, :],f4[:, :, :]))")):
        text, s = translate_kernel(p_amb, src, tree, "Ambiguity", name, [("cv", "VOL")] + eta_sig, ret, ETA)
        body += text
        sources.append(s)
    text, s = translate_normalize(p_amb, src, tree)
    body += text
    sources.append(s)
    check_call_site(p_amb, tree, "Ambiguity")
    p_risk = os.path.join(d, "risk.py")
    src, tree = parse_module(p_risk)
    text, s = translate_kernel(p_risk, src, tree, "Risk", "compute_risk",
                               [("cv", "VOL"), ("sampled_ambiguity", "VOL")] + eta_sig, "Tuple((f4[:, :],f4[:, :]))", ETA)
    body += text
    sources.append(s)
    check_call_site(p_risk, tree, "Risk")
    p_ib = os.path.join(d, "interval_bounds.py")
    src, tree = parse_module(p_ib)
    text, s = translate_kernel(p_ib, src, tree, "IntervalBounds", "compute_interval_bounds",
                               [("cv", "VOL"), ("disp_interval", "V"), ("possibility_threshold", "F"),
                                ("type_factor", "F")], "UniTuple(f4[:, :], 2)", [])
    body += text
    sources.append(s)
    check_call_site(p_ib, tree, "IntervalBounds")
    path, changed = emit("ConfKernels", body, sources)
    print(f"gen_conf_kernels: {path} {'rewritten' if changed else 'unchanged'} "
          + " ".join(f"{s[1].split('(')[1][:-1].split('.')[1]}={s[2][:8]}" for s in sources))


def main():
    try:
        translate()
    except BaseException as exc:
        # fail closed: no stale kernels may stay behind for Proofs/ConfGenP.v to be checked against
        msg = f"{type(exc).__name__}: {exc}".replace("*)", "* )").replace("(*", "( *")
        emit("ConfKernels", f"(* TRANSLATION FAILED, nothing generated:\n   {msg}\n*)\n", [])
        raise


if __name__ == "__main__":
    try:
        main()
    except Exception as exc:  # fail closed, one line for the caller
        print(f"TRANSLATION-ERROR gen_conf_kernels: {type(exc).__name__}: {exc}")
        sys.exit(3)
