"""T-gen for C11: pandora/aggregation/cbca.py  cbca_step_1 .. cbca_step_4, cross_support  ->  coq/Gen/CbcaKernels.v

The five numba kernels are plain Python loops over scalars and array cells.  Each is mapped, one `ast` construct at a
time, to a term of the IR of coq/Lib/KernelIR.v (whose evaluator carries all the meaning: negative indices, `range`,
`break`, the loop variable after the loop, slices, IEEE specials).  The translator only
  * numbers the variables (scalar parameters, then scalar locals in order of first assignment; array parameters, then
    local arrays in order of allocation), so that renaming a local does not change the term;
  * desugars `a, b = x.shape` into two assignments, `x += e` on a scalar into `x = x + e`, `range(n)` / `range(a, b)`
    into `range(0, n, 1)` / `range(a, b, 1)`, and a literal `-k` into the integer -k;
  * reads the numba signature of the decorator (which parameters are arrays, their dtypes and ranks).
Fail-closed: any other shape is a TranslationError naming file:line."""
import ast
import os
import re

from common import REPO, emit, fail, sha1_of

SRC = os.path.join(REPO, "pandora", "aggregation", "cbca.py")
KERNELS = ["cbca_step_1", "cbca_step_2", "cbca_step_3", "cbca_step_4", "cross_support"]
DTYPES = {"f8": "F64", "f4": "F32", "i2": "I16", "i4": "I32", "i8": "I64"}
NP_DTYPES = {"float64": "F64", "float32": "F32", "int16": "I16", "int32": "I32", "int64": "I64"}
BINOPS = {ast.Add: "BAdd", ast.Sub: "BSub", ast.Mult: "BMul"}
CMPOPS = {ast.GtE: "BGe", ast.Gt: "BGt", ast.LtE: "BLe", ast.Lt: "BLt", ast.Eq: "BEq", ast.NotEq: "BNe"}


def parse_signature(where, text):
    """'f8[:, :](f4[:, :])' or '(f8[:, :], i2[:, :, :], i8)' -> [(dtype, rank)] of the parameters"""
    text = text.strip()
    m = re.match(r"^(?:[a-z0-9]+(?:\[[:, ]*\])?)?\((.*)\)$", text)
    if not m:
        fail(where, f"numba signature not understood: {text!r}")
    out = []
    for item in re.findall(r"[a-z0-9]+(?:\[[:, ]*\])?", m.group(1)):
        mm = re.match(r"^([a-z0-9]+)(?:\[([:, ]*)\])?$", item)
        if not mm or mm.group(1) not in DTYPES:
            fail(where, f"numba type not understood: {item!r}")
        rank = 0 if mm.group(2) is None else mm.group(2).count(":")
        out.append((DTYPES[mm.group(1)], rank))
    if re.sub(r"[\s]", "", ",".join(re.findall(r"[a-z0-9]+(?:\[[:, ]*\])?", m.group(1)))) != re.sub(r"\s", "", m.group(1)):
        fail(where, f"numba signature not understood: {text!r}")
    return out


class Tr:
    def __init__(self, fn):
        self.fn = fn
        self.sc = {}    # scalar name -> id
        self.ar = {}    # array name -> (id, rank)
        self.ret = None

    def where(self, node):
        return f"{SRC}:{getattr(node, 'lineno', self.fn.lineno)} ({self.fn.name})"

    # -- variables
    def scalar_def(self, name):
        if name in self.ar:
            fail(self.where(self.fn), f"{name} is used both as an array and as a scalar")
        if name not in self.sc:
            self.sc[name] = len(self.sc)
        return self.sc[name]

    def scalar_use(self, node):
        if node.id not in self.sc:
            fail(self.where(node), f"scalar {node.id} read before any assignment")
        return self.sc[node.id]

    def array_def(self, node, name, rank):
        if name in self.sc or name in self.ar:
            fail(self.where(node), f"array {name} is (re)defined")
        self.ar[name] = (len(self.ar), rank)
        return self.ar[name][0]

    def array_use(self, node):
        if not isinstance(node, ast.Name) or node.id not in self.ar:
            fail(self.where(node), f"an array name was expected: {ast.dump(node)}")
        return self.ar[node.id]

    # -- expressions
    def is_np(self, f, attr):
        return (isinstance(f, ast.Attribute) and isinstance(f.value, ast.Name) and f.value.id == "np"
                and f.attr == attr)

    def expr(self, e):
        w = self.where(e)
        if isinstance(e, ast.Constant):
            if type(e.value) is not int:
                fail(w, f"constant {e.value!r} is not an integer")
            return f"(EInt ({e.value})%Z)"
        if isinstance(e, ast.UnaryOp) and isinstance(e.op, ast.USub):
            if isinstance(e.operand, ast.Constant) and type(e.operand.value) is int:
                return f"(EInt ({-e.operand.value})%Z)"
            return f"(EUn UNeg {self.expr(e.operand)})"
        if isinstance(e, ast.UnaryOp) and isinstance(e.op, ast.Not):
            return f"(EUn UNot {self.expr(e.operand)})"
        if isinstance(e, ast.Name):
            if e.id in self.ar:
                fail(w, f"array {e.id} used as a value")
            return f"(EVar {self.scalar_use(e)})"
        if isinstance(e, ast.BinOp) and type(e.op) in BINOPS:
            return f"(EBin {BINOPS[type(e.op)]} {self.expr(e.left)} {self.expr(e.right)})"
        if isinstance(e, ast.Compare) and len(e.ops) == 1 and type(e.ops[0]) in CMPOPS:
            return f"(EBin {CMPOPS[type(e.ops[0])]} {self.expr(e.left)} {self.expr(e.comparators[0])})"
        if isinstance(e, ast.Subscript):
            # x.shape[k]
            if (isinstance(e.value, ast.Attribute) and e.value.attr == "shape" and isinstance(e.slice, ast.Constant)
                    and type(e.slice.value) is int):
                a, rank = self.array_use(e.value.value)
                if not 0 <= e.slice.value < rank:
                    fail(w, "shape index outside the rank of the array")
                return f"(EShape {a} {e.slice.value})"
            a, rank = self.array_use(e.value)
            idx = e.slice.elts if isinstance(e.slice, ast.Tuple) else [e.slice]
            if len(idx) != rank or not 1 <= rank <= 3:
                fail(w, f"{len(idx)} indices for an array of rank {rank}")
            if any(isinstance(i, ast.Slice) for i in idx):
                fail(w, "slice outside np.sum(a[lo:hi, j])")
            return f"(ELoad{rank} {a} " + " ".join(self.expr(i) for i in idx) + ")"
        if isinstance(e, ast.Call) and not e.keywords:
            f = e.func
            if isinstance(f, ast.Name) and f.id in ("min", "max") and len(e.args) == 2:
                return f"(EBin {'BMin' if f.id == 'min' else 'BMax'} {self.expr(e.args[0])} {self.expr(e.args[1])})"
            if isinstance(f, ast.Name) and f.id == "abs" and len(e.args) == 1:
                return f"(EUn UAbs {self.expr(e.args[0])})"
            if self.is_np(f, "isnan") and len(e.args) == 1:
                return f"(EUn UIsNan {self.expr(e.args[0])})"
            if self.is_np(f, "isfinite") and len(e.args) == 1:
                return f"(EUn UIsFinite {self.expr(e.args[0])})"
            if self.is_np(f, "sum") and len(e.args) == 1:
                s = e.args[0]
                if (isinstance(s, ast.Subscript) and isinstance(s.slice, ast.Tuple) and len(s.slice.elts) == 2
                        and isinstance(s.slice.elts[0], ast.Slice) and s.slice.elts[0].step is None
                        and s.slice.elts[0].lower is not None and s.slice.elts[0].upper is not None
                        and not isinstance(s.slice.elts[1], ast.Slice)):
                    a, rank = self.array_use(s.value)
                    if rank != 2:
                        fail(w, "np.sum(a[lo:hi, j]) on an array that is not 2-D")
                    sl = s.slice.elts[0]
                    return (f"(ESumSlice {a} {self.expr(sl.lower)} {self.expr(sl.upper)} "
                            f"{self.expr(s.slice.elts[1])})")
        fail(w, f"expression not understood: {ast.unparse(e)}")

    # -- statements
    def block(self, stmts, ind):
        out = []
        for s in stmts:
            out += self.stmt(s, ind)
        pad = " " * ind
        if not out:
            return "[]"
        return "[\n" + ";\n".join(pad + "  " + x for x in out) + "\n" + pad + "]"

    def target_index(self, t):
        a, rank = self.array_use(t.value)
        idx = t.slice.elts if isinstance(t.slice, ast.Tuple) else [t.slice]
        if len(idx) != rank:
            fail(self.where(t), f"{len(idx)} indices for an array of rank {rank}")
        return a, rank, idx

    def stmt(self, s, ind):
        w = self.where(s)
        if self.ret is not None:
            fail(w, "statement after return")
        if isinstance(s, ast.Expr) and isinstance(s.value, ast.Constant) and isinstance(s.value.value, str):
            return []  # docstring
        if isinstance(s, ast.Return):
            v = s.value
            names = v.elts if isinstance(v, ast.Tuple) else [v]
            self.ret = [self.array_use(n)[0] for n in names]
            return []
        if isinstance(s, ast.Break):
            return ["SBreak"]
        if isinstance(s, ast.If):
            c = self.expr(s.test)
            return [f"SIf {c} {self.block(s.body, ind + 2)} {self.block(s.orelse, ind + 2)}"]
        if isinstance(s, ast.For):
            if s.orelse or not isinstance(s.target, ast.Name):
                fail(w, "for loop not understood")
            it = s.iter
            if not (isinstance(it, ast.Call) and isinstance(it.func, ast.Name) and it.func.id == "range"
                    and not it.keywords and 1 <= len(it.args) <= 3):
                fail(w, f"only `for x in range(...)` is understood: {ast.unparse(it)}")
            args = [self.expr(a) for a in it.args]  # evaluated before the loop variable is bound
            if len(args) == 1:
                args = ["(EInt (0)%Z)", args[0], "(EInt (1)%Z)"]
            elif len(args) == 2:
                args = args + ["(EInt (1)%Z)"]
            x = self.scalar_def(s.target.id)
            return [f"SFor {x} {args[0]} {args[1]} {args[2]} {self.block(s.body, ind + 2)}"]
        if isinstance(s, ast.AugAssign):
            if not isinstance(s.op, ast.Add):
                fail(w, "only += is understood")
            if isinstance(s.target, ast.Name):
                x = self.scalar_use(s.target)
                return [f"SAssign {x} (EBin BAdd (EVar {x}) {self.expr(s.value)})"]
            if isinstance(s.target, ast.Subscript):
                a, rank, idx = self.target_index(s.target)
                if rank != 2 or any(isinstance(i, ast.Slice) for i in idx):
                    fail(w, "a[i, j] += e expected")
                return [f"SAug2 {a} {self.expr(idx[0])} {self.expr(idx[1])} {self.expr(s.value)}"]
            fail(w, "augmented assignment not understood")
        if isinstance(s, ast.Assign) and len(s.targets) == 1:
            t, v = s.targets[0], s.value
            # a, b = x.shape
            if isinstance(t, ast.Tuple):
                if not (isinstance(v, ast.Attribute) and v.attr == "shape" and all(isinstance(n, ast.Name) for n in t.elts)):
                    fail(w, "tuple assignment other than `a, b = x.shape`")
                a, rank = self.array_use(v.value)
                if rank != len(t.elts):
                    fail(w, f"{len(t.elts)} names for a shape of rank {rank}")
                return [f"SAssign {self.scalar_def(n.id)} (EShape {a} {k})" for k, n in enumerate(t.elts)]
            if isinstance(t, ast.Name):
                # x = np.zeros((..), dtype=np.T)
                if isinstance(v, ast.Call) and self.is_np(v.func, "zeros"):
                    if not (len(v.args) == 1 and isinstance(v.args[0], ast.Tuple) and len(v.keywords) == 1
                            and v.keywords[0].arg == "dtype" and isinstance(v.keywords[0].value, ast.Attribute)
                            and isinstance(v.keywords[0].value.value, ast.Name) and v.keywords[0].value.value.id == "np"
                            and v.keywords[0].value.attr in NP_DTYPES):
                        fail(w, "np.zeros((shape), dtype=np.<type>) expected")
                    shape = [self.expr(x) for x in v.args[0].elts]
                    a = self.array_def(s, t.id, len(shape))
                    return [f"SAlloc {a} [{'; '.join(shape)}] {NP_DTYPES[v.keywords[0].value.attr]}"]
                if isinstance(v, ast.Call) and self.is_np(v.func, "copy"):
                    if len(v.args) != 1 or v.keywords:
                        fail(w, "np.copy(a) expected")
                    b, rank = self.array_use(v.args[0])
                    a = self.array_def(s, t.id, rank)
                    return [f"SCopy {a} {b}"]
                e = self.expr(v)  # the right-hand side is evaluated before the name is bound
                return [f"SAssign {self.scalar_def(t.id)} {e}"]
            if isinstance(t, ast.Subscript):
                a, rank, idx = self.target_index(t)
                if rank == 2 and isinstance(idx[1], ast.Slice) and not isinstance(idx[0], ast.Slice):
                    # a[i, :] = b[j, :]
                    full = lambda sl: isinstance(sl, ast.Slice) and sl.lower is None and sl.upper is None and sl.step is None
                    if not (full(idx[1]) and isinstance(v, ast.Subscript) and isinstance(v.slice, ast.Tuple)
                            and len(v.slice.elts) == 2 and full(v.slice.elts[1])
                            and not isinstance(v.slice.elts[0], ast.Slice)):
                        fail(w, "a[i, :] = b[j, :] expected")
                    b, rb = self.array_use(v.value)
                    if rb != 2:
                        fail(w, "a[i, :] = b[j, :] with b not 2-D")
                    return [f"SRowCopy {a} {self.expr(idx[0])} {b} {self.expr(v.slice.elts[0])}"]
                if any(isinstance(i, ast.Slice) for i in idx) or rank not in (2, 3):
                    fail(w, "store not understood")
                return [f"SStore{rank} {a} " + " ".join(self.expr(i) for i in idx) + f" {self.expr(v)}"]
        fail(w, f"statement not understood: {ast.unparse(s).splitlines()[0]}")


def translate(fn, src_lines):
    tr = Tr(fn)
    w = tr.where(fn)
    # decorator: @njit("<signature>", cache=True)
    if len(fn.decorator_list) != 1:
        fail(w, "exactly one decorator expected")
    d = fn.decorator_list[0]
    if not (isinstance(d, ast.Call) and isinstance(d.func, ast.Name) and d.func.id == "njit" and len(d.args) == 1
            and isinstance(d.args[0], ast.Constant) and isinstance(d.args[0].value, str)):
        fail(w, "@njit(\"signature\", ...) expected")
    for kw in d.keywords:
        if not (kw.arg == "cache" or (kw.arg in ("parallel", "fastmath", "nogil") and isinstance(kw.value, ast.Constant)
                                      and kw.value.value is False)):
            fail(w, f"njit option {kw.arg} is not understood (the evaluator is sequential, strict IEEE)")
    sig = parse_signature(w, d.args[0].value)
    a = fn.args
    if a.vararg or a.kwarg or a.kwonlyargs or a.defaults or a.posonlyargs or len(a.args) != len(sig):
        fail(w, "parameters do not match the numba signature")
    for p, (dt, rank) in zip(a.args, sig):
        if rank == 0:
            tr.scalar_def(p.arg)
        else:
            tr.array_def(fn, p.arg, rank)
    body = tr.block(fn.body, 2)
    if tr.ret is None:
        fail(w, "no return")
    sc = " ".join(f"{i}={n}" for n, i in sorted(tr.sc.items(), key=lambda x: x[1]))
    ar = " ".join(f"{i}={n}" for n, (i, _) in sorted(tr.ar.items(), key=lambda x: x[1][0]))
    sigs = "; ".join(f"({dt}, {rank})" for dt, rank in sig)
    text = (f"(* {fn.name}({', '.join(p.arg for p in a.args)})   numba signature {d.args[0].value!r}\n"
            f"   scalars: {sc}\n   arrays: {ar} *)\n"
            f"Definition {fn.name} : kernel :=\n  mkKernel [{sigs}] {len(tr.sc)} {len(tr.ar)}\n  {body}\n  [{'; '.join(str(r) for r in tr.ret)}].\n")
    return text


def main():
    with open(SRC) as f:
        src = f.read()
    tree = ast.parse(src)
    lines = src.splitlines()
    fns = {n.name: n for n in tree.body if isinstance(n, ast.FunctionDef)}
    body = ("From Coq Require Import ZArith List.\nFrom Pandora Require Import Lib.KernelIR.\nImport ListNotations.\n"
            "Open Scope nat_scope.\n\n")
    sources = []
    for name in KERNELS:
        if name not in fns:
            fail(SRC, f"kernel {name} not found at module level")
        fn = fns[name]
        first = min([fn.lineno] + [d.lineno for d in fn.decorator_list])
        span = "\n".join(lines[first - 1:fn.end_lineno])
        sources.append((SRC, f"lines {first}-{fn.end_lineno} ({name})", sha1_of(span)))
        body += translate(fn, lines) + "\n"
    path, changed = emit("CbcaKernels", body, sources)
    print(f"gen_cbca_kernels: {path} {'rewritten' if changed else 'unchanged'} kernels={len(KERNELS)} "
          + " ".join(f"{n}={s[2][:8]}" for n, s in zip(KERNELS, sources)))


if __name__ == "__main__":
    main()
