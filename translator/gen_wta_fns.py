"""T-gen for C03: the body of the winner-takes-all step  ->  coq/Gen/WtaFns.v

    pandora/disparity/disparity.py   WinnerTakesAll.to_disp, WinnerTakesAll.argmin_split, WinnerTakesAll.argmax_split,
                                     extract_disparity_interval_from_cost_volume

Python `ast` only (pandora is not imported), fail closed.  Each statement is mapped, one construct at a time, to a
`let` over the numpy combinators of coq/Lib/NpNd.v and coq/Lib/NpNd3.v (which carry ALL the meaning: NaN test,
boolean-mask assignment, np.min / np.argmin / np.argmax along axis 2 and what they do on an empty axis, the lookup
a[I] with its IndexError / negative wrap-around, integer casts, np.nan_to_num and what it does to infinities) and the
dataset records of coq/Model/WtaNp.v (a variable of a dataset is a field; `ds["v"] = x`, `ds.attrs = a` and the
in-place store `ds["v"].data[m] = s` are record updates, the dataset name being re-bound).  The translator only
  * types the names: CV (the cost volume dataset: the xr.Dataset parameter) / DM (the dataset built by xr.Dataset(...))
    / C float cost array / F float array / B boolean array / I integer position array / M integer flag array / Z int /
    S string / CO coordinate / AT attrs / OC optional confidence array / CS cost scalar (np.nan, +-np.inf) / OQ the
    configured invalid_disparity (self._invalid_disparity, a parameter of the generated definition);
  * turns `x = e` into `let x := e in` (shadowing), `a, b, c = x.shape` into three lets, `if t: A else: B` into
    `let '(v1, .., vn) := if t then <A; (v1..vn)> else <B; (v1..vn)> in` (v1..vn = the names bound or datasets updated
    in A or B; each must be bound on both paths), `return disp_map` of to_disp into the PAIR (cv afterwards, disp_map);
  * replaces the double block loop of the split functions (whose bookkeeping is transliterated by gen_block_loops.py
    into Gen/BlockLoops.v) by ONE call of a hole `h_block_loop (fun <inner chunk> => <the expression written by the
    loop>) <array that is split> <array that is written>`; the written expression is translated like any other;
    self.argmin_split(cv) / self.argmax_split(cv) are calls of the generated definitions, their hole passed along;
  * keeps track of STORAGE: every array value is fresh (np.isnan, np.zeros, np.min, a[I], .copy(deep=True),
    copy.deepcopy, np.copy, the result of a translated function) or a view of the storage of a variable of a dataset /
    of a local name.  An in-place store is accepted only when nothing else that is still read afterwards holds the
    same storage (otherwise the functional reading would not be the Python one: TranslationError).  A function called
    with a dataset (the split functions, extract_disparity_interval_from_cost_volume) is translated too and may not
    store into its parameter.  The pairs (variable of disp_map, variable of cv) that share storage when to_disp
    returns are emitted as the list [g_to_disp_shares] (obligation in Props/C03.v: the disparity map, the validity
    mask and the disparity interval of the result are fresh; the harness compares the list with np.shares_memory on
    the real datasets);
  * partial reads are only accepted under the test that makes them defined: cv["confidence_measure"] under
    `"confidence_measure" in cv.data_vars`.
Anything else (statement, operator, call, subscript, keyword, dtype, decorator, signature): TranslationError naming
file:line.  Python locals and parameters keep their names (prefixed v_), so renaming them is harmless.

The per-run obligations are in Proofs/WtaGenP.v / Props/C03.v: the generated to_disp computes what the hand-written
Model/Wta.v computes, for ALL datasets; the C03 theorems are restated on the generated function."""
import ast
import os
import sys

from common import REPO, emit, fail, sha1_of

DISP = "pandora/disparity/disparity.py"
CLS = "WinnerTakesAll"
COQ_TYPE = {"CV": "cvds", "DM": "dmds", "C": "nd cost", "F": "nd oq", "B": "nd bool", "I": "nd Z", "M": "nd Z", "Z": "Z",
            "S": "string", "CO": "list Z", "AT": "wattrs", "OC": "option (nd oq)", "OQ": "oq", "BOOL": "bool"}
ARRAY_TYPES = ("C", "F", "B", "I", "M", "OC")
HOLE_T = "(nd cost -> nd oq) -> nd cost -> nd oq -> nd oq"
KEYWORDS = {"in", "let", "if", "then", "else", "fun", "match", "end", "with", "as", "at", "return", "forall", "exists",
            "Type", "Prop", "Set", "fix", "cofix", "for", "where", "using"}
INT_BITS = {"int8": 8, "int16": 16, "int32": 32, "int64": 64, "intp": 64}
# variables of the two datasets: key -> (field, type)
CV_VARS = {"cost_volume": ("cv_cost", "C"), "validity_mask": ("cv_mask", "M"), "confidence_measure": ("cv_conf", "OC")}
CV_COORDS = {"row": ("cv_row", "CO"), "col": ("cv_col", "CO"), "disp": ("cv_disp", "F")}
DM_VARS = {"disparity_map": ("dm_disp", "F")}
DM_SET = {"disparity_interval": ("dm_set_interval", "F"), "confidence_measure": ("dm_set_conf", "OC"),
          "validity_mask": ("dm_set_mask", "M")}


def dump(n):
    return ast.dump(n, annotate_fields=False, include_attributes=False)


def is_np(node, name):
    return (isinstance(node, ast.Call) and isinstance(node.func, ast.Attribute) and node.func.attr == name
            and isinstance(node.func.value, ast.Name) and node.func.value.id == "np")


def np_attr(node, name):
    return (isinstance(node, ast.Attribute) and node.attr == name and isinstance(node.value, ast.Name)
            and node.value.id == "np")


def const_str(node, s=None):
    return isinstance(node, ast.Constant) and isinstance(node.value, str) and (s is None or node.value == s)


def coq_str(s):
    if '"' in s or "\\" in s:
        raise ValueError(s)
    return f'"{s}"%string'


def zlit(n):
    return f"({n})" if n < 0 else str(n)


class Module:
    def __init__(self, rel):
        self.rel = rel
        self.path = os.path.join(REPO, rel)
        with open(self.path) as f:
            self.src = f.read()
        self.tree = ast.parse(self.src)
        self.imports = {}
        for n in self.tree.body:
            if isinstance(n, ast.Import):
                for a in n.names:
                    self.imports[a.asname or a.name] = a.name
            elif isinstance(n, ast.ImportFrom):
                for a in n.names:
                    self.imports[a.asname or a.name] = "." * n.level + (n.module or "") + ":" + a.name
        for alias, origin in (("np", "numpy"), ("xr", "xarray"), ("copy", "copy"), ("cst", "pandora.constants")):
            if self.imports.get(alias) != origin:
                fail(self.path, f"`{alias}` is not the module {origin}")

    def method(self, cls, name):
        found = []
        for n in self.tree.body:
            if isinstance(n, ast.ClassDef) and n.name == cls:
                found += [s for s in n.body if isinstance(s, ast.FunctionDef) and s.name == name]
        if len(found) != 1:
            fail(self.path, f"method {cls}.{name} not found exactly once")
        return found[0]

    def function(self, name):
        found = [n for n in self.tree.body if isinstance(n, ast.FunctionDef) and n.name == name]
        if len(found) != 1:
            fail(self.path, f"function {name} not found exactly once at module level")
        return found[0]

    def source_info(self, cls, fdef):
        seg = ast.get_source_segment(self.src, fdef) or ""
        return (self.path, f"{cls}.{fdef.name} lines {fdef.lineno}-{fdef.end_lineno}", sha1_of(seg))


class Val:
    """a translated expression: coq text, type, storage id (arrays / attrs only), fresh (allocated by this expression)"""

    def __init__(self, text, typ, sto=None, fresh=False):
        self.text, self.typ, self.sto, self.fresh = text, typ, sto, fresh


class Tr:
    """one function -> nested lets"""

    def __init__(self, gen, fdef, kind):
        self.gen = gen
        self.mod = gen.mod
        self.fdef = fdef
        self.kind = kind          # "to_disp" | "split" | "pure"
        self.env = {}             # python name -> (coq name, type)
        self.sto = {}             # holder -> storage id; holders: python names, ("cv", var), ("dm", var)
        self.nsto = 0
        self.deleted = set()
        self.holes = []           # (coq name, coq type)
        self.self_params = []
        self.cv = None            # python name of the cost volume dataset parameter
        self.dm = None            # python name of the dataset built by xr.Dataset
        self.guards = set()       # facts holding where we are ("conf")
        self.stmts_after = []     # stack of the statement lists still to be executed (liveness of names)
        a = fdef.args
        if a.vararg or a.kwarg or a.kwonlyargs or getattr(a, "posonlyargs", None):
            self.err(fdef, "unsupported signature")
        decos = [ast.unparse(d) for d in fdef.decorator_list]
        want = {"to_disp": [], "split": ["staticmethod"], "pure": []}[kind]
        if decos != want:
            self.err(fdef, f"decorators {decos}: {want} expected (the statements are read as plain numpy code)")
        for n in ast.walk(fdef):
            if isinstance(n, (ast.Global, ast.Nonlocal, ast.Lambda, ast.Try, ast.While, ast.Yield, ast.YieldFrom, ast.With,
                              ast.Await, ast.NamedExpr, ast.ListComp, ast.DictComp, ast.SetComp, ast.GeneratorExp,
                              ast.Starred, ast.Raise, ast.Assert)) or (
                    isinstance(n, (ast.FunctionDef, ast.ClassDef, ast.AsyncFunctionDef)) and n is not fdef):
                self.err(n, f"{type(n).__name__} inside a translated function")

    def err(self, node, msg):
        fail(f"{self.mod.path}:{getattr(node, 'lineno', self.fdef.lineno)} ({self.fdef.name})", msg)

    # ------------------------------------------------------------ names and storage
    def new_sto(self):
        self.nsto += 1
        return self.nsto

    def coq_name(self, name):
        n = name.rstrip("_") if name.endswith("_") else name
        if not n.isidentifier() or not n.isascii():
            self.err(self.fdef, f"name {name!r} cannot be used in the generated text")
        return "v_" + n

    def bind(self, name, val):
        if name in (self.cv, self.dm) and val.typ not in ("CV", "DM"):
            self.err(self.fdef, f"the dataset name {name} is re-bound to something else")
        self.env[name] = (self.coq_name(name), val.typ)
        self.deleted.discard(name)
        if val.typ in ARRAY_TYPES or val.typ == "AT":
            self.sto[name] = val.sto if val.sto is not None else self.new_sto()
        else:
            self.sto.pop(name, None)
        return self.env[name][0]

    def use(self, node):
        name = node.id
        if name in self.deleted:
            self.err(node, f"{name} is used after `del`")
        if name not in self.env:
            self.err(node, f"name {name} is not bound (unused parameter, unknown global, or bound on one path only)")
        c, t = self.env[name]
        return Val(c, t, self.sto.get(name))

    def read_later(self, name):
        """is the python name read by a statement still to be executed?"""
        for stmts in self.stmts_after:
            for s in stmts:
                for n in ast.walk(s):
                    if isinstance(n, ast.Name) and n.id == name and isinstance(n.ctx, ast.Load):
                        return True
        return False

    def check_store(self, node, holder):
        """an in-place store through [holder]: nothing else still read may hold the same storage"""
        sid = self.sto.get(holder)
        if sid is None:
            self.err(node, "store into something whose storage is not known")
        for h, s in self.sto.items():
            if s != sid or h == holder:
                continue
            if isinstance(h, tuple):
                self.err(node, f"in-place store into storage shared by {holder} and {h}: the datasets would both change")
            if h not in self.deleted and self.read_later(h):
                self.err(node, f"in-place store into storage also held by the name {h}, which is read afterwards (aliasing)")

    def cvn(self):
        return self.env[self.cv][0]

    def dmn(self):
        return self.env[self.dm][0]

    # ------------------------------------------------------------ recognisers on the datasets
    def is_ds(self, node, which):
        name = self.cv if which == "cv" else self.dm
        return name is not None and isinstance(node, ast.Name) and node.id == name and node.id not in self.deleted

    def ds_var(self, node, which):
        """<ds>["key"] -> key"""
        if isinstance(node, ast.Subscript) and self.is_ds(node.value, which) and const_str(node.slice):
            return node.slice.value
        return None

    def cv_coord(self, node):
        """<cv>.coords["key"] -> key"""
        if (isinstance(node, ast.Subscript) and isinstance(node.value, ast.Attribute) and node.value.attr == "coords"
                and self.is_ds(node.value.value, "cv") and const_str(node.slice)):
            return node.slice.value
        return None

    def cv_read(self, node, key):
        if key not in CV_VARS:
            self.err(node, f"variable {key!r} of the cost volume dataset is not modelled")
        field, typ = CV_VARS[key]
        if key == "confidence_measure" and "conf" not in self.guards:
            self.err(node, 'cv["confidence_measure"] read outside `if "confidence_measure" in cv.data_vars` (KeyError when absent)')
        return Val(f"({field} {self.cvn()})", typ, self.sto[("cv", key)])

    # ------------------------------------------------------------ expressions
    def cost_scalar(self, e):
        if np_attr(e, "nan"):
            return "None"
        if np_attr(e, "inf"):
            return "(Some PInf)"
        if isinstance(e, ast.UnaryOp) and isinstance(e.op, ast.USub) and np_attr(e.operand, "inf"):
            return "(Some MInf)"
        return None

    def expr(self, e):
        if isinstance(e, ast.Constant):
            if type(e.value) is int:
                return Val(zlit(e.value), "Z")
            if type(e.value) is str:
                return Val(coq_str(e.value), "S")
            self.err(e, f"constant {e.value!r}")
        if isinstance(e, ast.Name):
            if e.id in (self.cv, self.dm):
                self.err(e, f"the dataset {e.id} used as a value")
            return self.use(e)
        cs = self.cost_scalar(e)
        if cs is not None:
            return Val(cs, "CS")
        if (isinstance(e, ast.Attribute) and isinstance(e.value, ast.Name) and e.value.id == "self"):
            if e.attr == "_invalid_disparity" and self.kind == "to_disp":
                if ("invalid_disparity", "OQ") not in self.self_params:
                    self.self_params.append(("invalid_disparity", "OQ"))
                return Val("p_invalid_disparity", "OQ")
            self.err(e, f"self.{e.attr} is not modelled")
        if (isinstance(e, ast.Attribute) and isinstance(e.value, ast.Name) and e.value.id == "cst"
                and e.attr.startswith("PANDORA_MSK_PIXEL_")):
            return Val("Constants." + e.attr[len("PANDORA_"):].lower(), "Z")
        # <cv>.attrs
        if isinstance(e, ast.Attribute) and e.attr == "attrs" and self.is_ds(e.value, "cv"):
            return Val(f"(cv_attrs {self.cvn()})", "AT", self.sto[("cv", "attrs")])
        # X.data : the array of an xarray object
        if isinstance(e, ast.Attribute) and e.attr == "data":
            x = self.expr(e.value)
            if x.typ in ("C", "F", "M") and not x.fresh:
                return x
            self.err(e, ".data of something that is not a variable / coordinate of a dataset")
        if isinstance(e, ast.Compare) and len(e.ops) == 1:
            return self.compare(e)
        if isinstance(e, ast.Subscript):
            return self.subscript(e)
        if isinstance(e, ast.Call):
            return self.call(e)
        self.err(e, f"expression not understood: {ast.unparse(e)}")
        return None

    def compare(self, e):
        op, rhs = e.ops[0], e.comparators[0]
        # "confidence_measure" in <cv>.data_vars
        if (isinstance(op, ast.In) and const_str(e.left) and isinstance(rhs, ast.Attribute) and rhs.attr == "data_vars"
                and self.is_ds(rhs.value, "cv")):
            if e.left.value != "confidence_measure":
                self.err(e, f"membership test of {e.left.value!r} is not modelled")
            return Val(f"(o_some (cv_conf {self.cvn()}))", "BOOL:conf")
        # (M & c) != 0
        if (isinstance(op, ast.NotEq) and isinstance(e.left, ast.BinOp) and isinstance(e.left.op, ast.BitAnd)
                and isinstance(rhs, ast.Constant) and type(rhs.value) is int and rhs.value == 0):
            m, c = self.expr(e.left.left), self.expr(e.left.right)
            if m.typ == "M" and c.typ == "Z":
                return Val(f"(np_and_ne0 {m.text} {c.text})", "B", self.new_sto(), True)
        l, r = self.expr(e.left), self.expr(rhs)
        if isinstance(op, ast.Eq) and l.typ == "S" and r.typ == "S":
            return Val(f"(String.eqb {l.text} {r.text})", "BOOL")
        self.err(e, f"comparison not understood: {ast.unparse(e)}")
        return None

    def subscript(self, e):
        # <cv>.attrs["type_measure"]
        if (isinstance(e.value, ast.Attribute) and e.value.attr == "attrs" and self.is_ds(e.value.value, "cv")
                and const_str(e.slice)):
            if e.slice.value != "type_measure":
                self.err(e, f"attribute {e.slice.value!r} of the cost volume is not modelled")
            return Val(f"(at_type_measure (cv_attrs {self.cvn()}))", "S")
        key = self.cv_coord(e)
        if key is not None:
            if key not in CV_COORDS:
                self.err(e, f"coordinate {key!r} of the cost volume is not modelled")
            field, typ = CV_COORDS[key]
            return Val(f"({field} {self.cvn()})", typ, self.sto[("cv", "coord:" + key)] if typ == "F" else None)
        key = self.ds_var(e, "cv")
        if key is not None:
            return self.cv_read(e, key)
        key = self.ds_var(e, "dm")
        if key is not None:
            if key not in DM_VARS:
                self.err(e, f"variable {key!r} of the disparity dataset is not read by the modelled code")
            field, typ = DM_VARS[key]
            return Val(f"({field} {self.dmn()})", typ, self.sto[("dm", key)])
        # a[I]: lookup on a float array with an integer position array / a list literal of integers
        a = self.expr(e.value)
        if a.typ == "F":
            if isinstance(e.slice, ast.List):
                items = []
                for it in e.slice.elts:
                    k = it.operand if isinstance(it, ast.UnaryOp) and isinstance(it.op, ast.USub) else it
                    if not (isinstance(k, ast.Constant) and type(k.value) is int):
                        self.err(e, "index list that is not a list of integer literals")
                    items.append(zlit(-k.value if k is not it else k.value))
                return Val(f"(np_take {a.text} (nd1_z [{'; '.join(items)}]))", "F", self.new_sto(), True)
            i = self.expr(e.slice)
            if i.typ == "I":
                return Val(f"(np_take {a.text} {i.text})", "F", self.new_sto(), True)
        self.err(e, f"subscript not understood: {ast.unparse(e)}")
        return None

    def kw(self, e, names):
        got = {k.arg: k.value for k in e.keywords}
        if None in got or sorted(got) != sorted(names):
            self.err(e, f"{ast.unparse(e.func)}: keywords {sorted(names)} expected, {sorted(k or '**' for k in got)} found")
        return got

    def axis2(self, e):
        return (len(e.args) == 1 and len(e.keywords) == 1 and e.keywords[0].arg == "axis"
                and isinstance(e.keywords[0].value, ast.Constant) and type(e.keywords[0].value.value) is int
                and e.keywords[0].value.value == 2)

    def call(self, e):
        f = e.func
        fresh = lambda text, typ: Val(text, typ, self.new_sto(), True)  # noqa: E731
        if is_np(e, "isnan") and len(e.args) == 1 and not e.keywords:
            x = self.expr(e.args[0])
            if x.typ in ("C", "F"):
                return fresh(f"(np_isnan_o {x.text})", "B")
        if is_np(e, "min"):
            if not self.axis2(e):
                self.err(e, "np.min without axis=2")
            x = self.expr(e.args[0])
            if x.typ == "B":
                return fresh(f"(np_min_bool_2 {x.text})", "B")
        for fn in ("argmin", "argmax"):
            if is_np(e, fn):
                if not self.axis2(e):
                    self.err(e, f"np.{fn} without axis=2")
                x = self.expr(e.args[0])
                if x.typ == "C":
                    return fresh(f"(np_{fn}_2 {x.text})", "I")
        if is_np(e, "where") and len(e.args) == 1 and not e.keywords:
            x = self.expr(e.args[0])
            if x.typ == "B":
                return Val(f"(np_where {x.text})", "B", x.sto, x.fresh)
        if is_np(e, "copy") and len(e.args) == 1 and not e.keywords:
            x = self.expr(e.args[0])
            if x.typ in ("C", "F", "M", "B", "I"):
                return fresh(f"(np_copy {x.text})", x.typ)
        if ast.unparse(f) == "copy.deepcopy" and len(e.args) == 1 and not e.keywords:
            x = self.expr(e.args[0])
            if x.typ in ("C", "F", "M"):
                return fresh(f"(np_copy {x.text})", x.typ)
        # X.copy(deep=True) / X.copy() of an xarray variable (deep by default)
        if isinstance(f, ast.Attribute) and f.attr == "copy" and not e.args:
            deep = True
            if e.keywords:
                k = self.kw(e, ["deep"])["deep"]
                if not (isinstance(k, ast.Constant) and type(k.value) is bool):
                    self.err(e, "copy(deep=<not a literal>)")
                deep = k.value
            x = self.expr(f.value)
            if x.typ in ("C", "F", "M") and not x.fresh:
                return fresh(f"(np_copy {x.text})", x.typ) if deep else x
        # X.astype(np.intNN) of a position array
        if isinstance(f, ast.Attribute) and f.attr == "astype" and len(e.args) == 1 and not e.keywords:
            x = self.expr(f.value)
            t = e.args[0]
            if x.typ == "I" and isinstance(t, ast.Attribute) and isinstance(t.value, ast.Name) and t.value.id == "np" \
                    and t.attr in INT_BITS:
                return fresh(f"(np_astype_int {INT_BITS[t.attr]} {x.text})", "I")
        if is_np(e, "zeros"):
            if len(e.args) != 1 or not isinstance(e.args[0], ast.Tuple) or len(e.args[0].elts) != 2:
                self.err(e, "np.zeros((n, m), dtype=...) expected")
            k = self.kw(e, ["dtype"])["dtype"]
            if not (np_attr(k, "float32") or np_attr(k, "float64")):
                self.err(e, f"np.zeros with dtype {ast.unparse(k)}: the map written by the block loop holds disparities (float32 / float64 expected)")
            n, m = [self.expr(x) for x in e.args[0].elts]
            if n.typ == "Z" and m.typ == "Z":
                return fresh(f"(np_zeros2 {n.text} {m.text})", "F")
        # xr.Dataset({"disparity_map": (["row", "col"], D)}, coords={"row": r, "col": c})
        if ast.unparse(f) == "xr.Dataset":
            if self.kind != "to_disp" or self.dm is not None:
                self.err(e, "a second dataset is built")
            if len(e.args) != 1 or not isinstance(e.args[0], ast.Dict):
                self.err(e, "xr.Dataset({...}, coords={...}) expected")
            d = e.args[0]
            co = self.kw(e, ["coords"])["coords"]
            if not (len(d.keys) == 1 and const_str(d.keys[0], "disparity_map") and isinstance(d.values[0], ast.Tuple)
                    and len(d.values[0].elts) == 2 and dump(d.values[0].elts[0]) == dump(ast.parse('["row", "col"]', mode="eval").body)):
                self.err(e, 'data variables {"disparity_map": (["row", "col"], <array>)} expected')
            if not (isinstance(co, ast.Dict) and len(co.keys) == 2 and const_str(co.keys[0], "row") and const_str(co.keys[1], "col")):
                self.err(e, 'coords={"row": ..., "col": ...} expected')
            x = self.expr(d.values[0].elts[1])
            r, c = self.expr(co.values[0]), self.expr(co.values[1])
            if x.typ != "F" or r.typ != "CO" or c.typ != "CO":
                self.err(e, "xr.Dataset of a float map and two coordinates expected")
            v = Val(f"(dm_new {x.text} {r.text} {c.text})", "DM")
            v.disp_sto = x.sto
            return v
        # xr.DataArray(x, coords=[("disparity", ["min", "max"])])
        if ast.unparse(f) == "xr.DataArray":
            co = self.kw(e, ["coords"])["coords"]
            if len(e.args) != 1:
                self.err(e, "xr.DataArray(<array>, coords=[(name, labels)]) expected")
            if not (isinstance(co, ast.List) and len(co.elts) == 1 and isinstance(co.elts[0], ast.Tuple) and len(co.elts[0].elts) == 2
                    and const_str(co.elts[0].elts[0]) and isinstance(co.elts[0].elts[1], ast.List)
                    and all(const_str(x) for x in co.elts[0].elts[1].elts)):
                self.err(e, "coords=[(<name>, [<labels>])] expected")
            x = self.expr(e.args[0])
            if x.typ == "F":
                labels = "; ".join(coq_str(x.value) for x in co.elts[0].elts[1].elts)
                return Val(f"(xr_dataarray1 {x.text} [{labels}])", "F", x.sto, x.fresh)
        # translated functions
        if isinstance(f, ast.Name) and f.id == "extract_disparity_interval_from_cost_volume":
            if len(e.args) != 1 or e.keywords or not self.is_ds(e.args[0], "cv"):
                self.err(e, "extract_disparity_interval_from_cost_volume(<the cost volume dataset>) expected")
            self.gen.need("extract_disparity_interval_from_cost_volume")
            return fresh(f"(g_extract_disparity_interval_from_cost_volume {self.cvn()})", "F")
        if (isinstance(f, ast.Attribute) and f.attr in ("argmin_split", "argmax_split") and isinstance(f.value, ast.Name)
                and f.value.id in ("self", CLS)):
            if len(e.args) != 1 or e.keywords or not self.is_ds(e.args[0], "cv"):
                self.err(e, f"{f.attr}(<the cost volume dataset>) expected")
            self.gen.need(f.attr)
            h = f"h_block_loop_{f.attr}"
            if (h, HOLE_T) not in self.holes:
                self.holes.append((h, HOLE_T))
            return fresh(f"(g_{f.attr} {h} {self.cvn()})", "F")
        self.err(e, f"call not understood: {ast.unparse(e)}")
        return None

    # ------------------------------------------------------------ statements
    def skip(self, s):
        if isinstance(s, ast.Expr) and isinstance(s.value, ast.Constant) and isinstance(s.value.value, str):
            return True
        if isinstance(s, ast.Pass):
            return True
        if isinstance(s, ast.Delete):
            for t in s.targets:
                for n in (t.elts if isinstance(t, ast.Tuple) else [t]):
                    if not isinstance(n, ast.Name) or n.id in (self.cv, self.dm):
                        self.err(s, "del of something that is not a local name")
                    self.deleted.add(n.id)
                    self.sto.pop(n.id, None)
            return True
        return False

    def result(self, pad, rtype):
        if self.kind == "to_disp":
            return f"{pad}({self.cvn()}, {self.dmn()})"
        self.err(self.fdef, "the function falls off its end without a return")
        return None

    def assigned(self, stmts):
        """names bound / datasets updated by a list of statements, in order of first occurrence"""
        out = []

        def add(n):
            if n not in out:
                out.append(n)
        for s in stmts:
            if isinstance(s, ast.Assign) and len(s.targets) == 1:
                t = s.targets[0]
                if isinstance(t, ast.Name):
                    add(t.id)
                elif isinstance(t, ast.Tuple) and all(isinstance(x, ast.Name) for x in t.elts):
                    for x in t.elts:
                        add(x.id)
                else:
                    root = t
                    while isinstance(root, (ast.Subscript, ast.Attribute)):
                        root = root.value
                    if isinstance(root, ast.Name):
                        add(root.id)
            elif isinstance(s, ast.Expr) and isinstance(s.value, ast.Call) and s.value.args:
                root = s.value.args[0]
                while isinstance(root, (ast.Subscript, ast.Attribute)):
                    root = root.value
                if isinstance(root, ast.Name) and root.id in (self.cv, self.dm):
                    add(root.id)
            elif isinstance(s, (ast.If, ast.For)):
                for n in self.assigned(s.body) + self.assigned(s.orelse):
                    add(n)
            elif isinstance(s, ast.AugAssign) and isinstance(s.target, ast.Name):
                add(s.target.id)
        return out

    def block(self, stmts, ind, tail):
        """translate a list of statements; [tail] gives the text that ends the block (a function of the padding)"""
        pad = "  " * ind
        if not stmts:
            return tail(pad)
        s, rest = stmts[0], stmts[1:]
        self.stmts_after.append(rest)
        try:
            out = self.stmt(s, ind)
        finally:
            self.stmts_after.pop()
        if out is None:
            return self.block(rest, ind, tail)
        if out == "RETURN":
            if rest:
                self.err(rest[0], "statement after return")
            return self.ret(s, pad)
        return out + "\n" + self.block(rest, ind, tail)

    def ret(self, s, pad):
        if self.kind == "to_disp":
            if not (isinstance(s.value, ast.Name) and s.value.id == self.dm):
                self.err(s, "to_disp must return the dataset it built")
            return f"{pad}({self.cvn()}, {self.dmn()})"
        x = self.expr(s.value)
        if x.typ != "F":
            self.err(s, f"returns a value of type {x.typ}, a float array expected")
        self.ret_val = x
        return f"{pad}{x.text}"

    def stmt(self, s, ind):
        pad = "  " * ind
        if self.skip(s):
            return None
        if isinstance(s, ast.Return):
            if len(self.stmts_after) > 1:
                self.err(s, "return inside a branch")
            return "RETURN"
        if isinstance(s, ast.If):
            return self.if_stmt(s, ind)
        if isinstance(s, ast.For):
            return f"{pad}{self.loop_stmt(s)}"
        if isinstance(s, ast.Expr):
            return f"{pad}{self.expr_stmt(s)}"
        if isinstance(s, ast.Assign) and len(s.targets) == 1:
            t, v = s.targets[0], s.value
            if isinstance(t, ast.Name):
                if is_np(v, "array_split"):
                    return None      # the block loop's own (Gen/BlockLoops.v)
                x = self.expr(v)
                if x.typ == "DM":
                    if self.dm is not None:
                        self.err(s, "a second dataset is built")
                    self.dm = t.id
                    n = self.bind(t.id, x)
                    self.sto[("dm", "disparity_map")] = x.disp_sto
                    self.sto[("dm", "attrs")] = self.new_sto()
                    return f"{pad}let {n} := {x.text} in"
                if x.typ not in COQ_TYPE or x.typ in ("CV", "BOOL"):
                    self.err(s, f"value of type {x.typ} bound to a name")
                n = self.bind(t.id, x)
                return f"{pad}let {n} := {x.text} in"
            if (isinstance(t, ast.Tuple) and isinstance(v, ast.Attribute) and v.attr == "shape"
                    and all(isinstance(n, ast.Name) for n in t.elts)):
                x = self.expr(v.value)
                if x.typ != "C" or len(t.elts) != 3:
                    self.err(s, "a, b, c = <cost volume>.shape expected")
                return "\n".join(f"{pad}let {self.bind(n.id, Val('', 'Z'))} := np_shape {x.text} {k} in" for k, n in enumerate(t.elts))
            if isinstance(t, (ast.Subscript, ast.Attribute)):
                return f"{pad}{self.store(s, t, v)}"
        self.err(s, f"statement not understood: {ast.unparse(s).splitlines()[0]}")
        return None

    def if_stmt(self, s, ind):
        pad = "  " * ind
        c = self.expr(s.test)
        if not c.typ.startswith("BOOL"):
            self.err(s, "test that is not a scalar test")
        names = self.assigned(s.body + s.orelse)
        if not names:
            self.err(s, "`if` that binds nothing")
        env0, sto0, del0, guards0, dm0 = dict(self.env), dict(self.sto), set(self.deleted), set(self.guards), self.dm
        outs, states = [], []
        for branch, guard in ((s.body, c.typ == "BOOL:conf"), (s.orelse, False)):
            self.env, self.sto, self.deleted, self.guards, self.dm = dict(env0), dict(sto0), set(del0), set(guards0), dm0
            if guard:
                self.guards.add("conf")

            def tail(p, names=names, branch=branch):
                for n in names:
                    if n not in self.env or n in self.deleted:
                        self.err(branch[0] if branch else s, f"{n} is bound on one path of the `if` only")
                vs = [self.env[n][0] for n in names]
                return p + (vs[0] if len(vs) == 1 else "(" + ", ".join(vs) + ")")
            outs.append(self.block(list(branch), ind + 2, tail))
            if self.dm != dm0:
                self.err(s, "the dataset is built inside a branch")
            states.append((dict(self.env), dict(self.sto), set(self.deleted)))
        (e1, st1, d1), (e2, st2, d2) = states
        for n in names:
            if e1[n] != e2[n]:
                self.err(s, f"{n} has different types on the two paths of the `if`")
        # merge the storage maps: a holder keeps its storage when both paths agree; a name bound to an allocation
        # that nothing else holds, on both paths, gets a new storage; anything else is refused
        self.env = {n: v for n, v in e1.items() if e2.get(n) == v}
        self.deleted, self.guards = d1 | d2, guards0
        merged = {}
        for h in set(st1) | set(st2):
            a, b = st1.get(h), st2.get(h)
            if h not in self.env and not isinstance(h, tuple):
                continue            # a local of one path: unbound afterwards
            if a == b:
                merged[h] = a
            elif a is None or b is None:
                if not isinstance(h, tuple):
                    self.err(s, f"{h} holds an array on one path of the `if` only")
                merged[h] = a if b is None else b       # a variable set on one path: it MAY share that storage
            elif sto0.get(h) not in (a, b) and list(st1.values()).count(a) == 1 and list(st2.values()).count(b) == 1:
                merged[h] = self.new_sto()
            else:
                self.err(s, f"after the `if`, what shares its storage with {h} depends on the path taken")
        self.sto = merged
        vs = [self.env[n][0] for n in names]
        pat = vs[0] if len(vs) == 1 else "'(" + ", ".join(vs) + ")"
        return (f"{pad}let {pat} :=\n{pad}  if {c.text} then\n{outs[0]}\n{pad}  else\n{outs[1]}\n{pad}in")

    def mask_of(self, node):
        m = self.expr(node)
        if m.typ != "B":
            self.err(node, "index that is not a boolean array / np.where(...)")
        return m.text

    def store(self, s, t, v):
        # <cv>["cost_volume"].data[m] = <cost scalar>
        if (isinstance(t, ast.Subscript) and isinstance(t.value, ast.Attribute) and t.value.attr == "data"
                and self.ds_var(t.value.value, "cv") == "cost_volume"):
            if self.kind != "to_disp":
                self.err(s, "a function called with the cost volume dataset stores into it")
            self.check_store(s, ("cv", "cost_volume"))
            m = self.mask_of(t.slice)
            x = self.expr(v)
            if x.typ != "CS":
                self.err(s, "masked store into the cost volume of something else than np.nan / np.inf / -np.inf")
            cv = self.cvn()
            return f"let {cv} := cv_set_cost {cv} (np_setitem_mask (cv_cost {cv}) {m} {x.text}) in"
        # <dm>["disparity_map"].data[m] = self._invalid_disparity
        if (isinstance(t, ast.Subscript) and isinstance(t.value, ast.Attribute) and t.value.attr == "data"
                and self.ds_var(t.value.value, "dm") == "disparity_map"):
            self.check_store(s, ("dm", "disparity_map"))
            m = self.mask_of(t.slice)
            x = self.expr(v)
            if x.typ != "OQ":
                self.err(s, "masked store into the disparity map of something else than self._invalid_disparity")
            dm = self.dmn()
            return f"let {dm} := dm_set_disp {dm} (np_setitem_mask (dm_disp {dm}) {m} {x.text}) in"
        # <cv>["disp_indices"] = <float array>
        if self.ds_var(t, "cv") == "disp_indices":
            if self.kind != "to_disp":
                self.err(s, "a function called with the cost volume dataset stores into it")
            x = self.expr(v)
            if x.typ != "F":
                self.err(s, 'cv["disp_indices"] = <float map> expected')
            self.sto[("cv", "disp_indices")] = x.sto
            cv = self.cvn()
            return f"let {cv} := cv_set_disp_indices {cv} {x.text} in"
        # <dm>["key"] = value
        key = self.ds_var(t, "dm")
        if key is not None:
            if key not in DM_SET:
                self.err(s, f"variable {key!r} of the disparity dataset is not modelled")
            setter, typ = DM_SET[key]
            x = self.expr(v)
            if x.typ != typ:
                self.err(s, f"disp_map[{key!r}] = a value of type {x.typ} ({typ} expected)")
            self.sto[("dm", key)] = x.sto
            dm = self.dmn()
            return f"let {dm} := {setter} {dm} {x.text} in"
        # <dm>.attrs = <cv>.attrs
        if isinstance(t, ast.Attribute) and t.attr == "attrs" and self.is_ds(t.value, "dm"):
            x = self.expr(v)
            if x.typ != "AT":
                self.err(s, "disp_map.attrs = <attrs of the cost volume> expected")
            self.sto[("dm", "attrs")] = self.new_sto()      # xarray's setter stores dict(value): a new dict
            dm = self.dmn()
            return f"let {dm} := dm_set_attrs {dm} {x.text} in"
        self.err(s, f"store not understood: {ast.unparse(s).splitlines()[0]}")
        return None

    def expr_stmt(self, s):
        e = s.value
        # np.nan_to_num(<cv>["cost_volume"].data, copy=False, nan=<cost scalar>): in place
        if is_np(e, "nan_to_num") and len(e.args) == 1:
            k = self.kw(e, ["copy", "nan"])
            a = e.args[0]
            if (isinstance(k["copy"], ast.Constant) and k["copy"].value is False and isinstance(a, ast.Attribute) and a.attr == "data"
                    and self.ds_var(a.value, "cv") == "cost_volume" and self.kind == "to_disp"):
                self.check_store(s, ("cv", "cost_volume"))
                x = self.expr(k["nan"])
                if x.typ == "CS":
                    cv = self.cvn()
                    return f"let {cv} := cv_set_cost {cv} (np_nan_to_num (cv_cost {cv}) {x.text}) in"
        self.err(s, f"statement not understood: {ast.unparse(s).splitlines()[0]}")
        return None

    def loop_stmt(self, s):
        """the double block loop -> one call of the hole h_block_loop"""
        if self.kind != "split":
            self.err(s, "loop outside the split functions")
        inner = [x for x in s.body if isinstance(x, ast.For)]
        if len(inner) != 1 or s.orelse:
            self.err(s, "the loop is not a double block loop")
        inner = inner[0]
        it = s.iter
        if isinstance(it, ast.Call) and isinstance(it.func, ast.Name) and it.func.id == "enumerate" and len(it.args) == 1 and not it.keywords:
            it = it.args[0]
        if not isinstance(it, ast.Name):
            self.err(s, "loop over something that is not the list returned by np.array_split")
        splits = [n for n in ast.walk(self.fdef) if isinstance(n, ast.Assign) and len(n.targets) == 1
                  and isinstance(n.targets[0], ast.Name) and n.targets[0].id == it.id]
        if len(splits) != 1 or not is_np(splits[0].value, "array_split") or splits[0].lineno > s.lineno or not splits[0].value.args:
            self.err(s, f"{it.id} is not bound once, before the loop, by np.array_split")
        src = self.expr(splits[0].value.args[0])
        tg = inner.target
        chunk = tg.elts[1] if isinstance(tg, ast.Tuple) and len(tg.elts) == 2 else tg
        if not isinstance(chunk, ast.Name):
            self.err(inner, "inner loop variable not understood")
        writes = [x for x in inner.body if isinstance(x, ast.Assign) and len(x.targets) == 1
                  and isinstance(x.targets[0], ast.Subscript)]
        if len(writes) != 1 or not isinstance(writes[0].targets[0].value, ast.Name):
            self.err(inner, "exactly one slice write <array>[a:b, c:d] = <expression> expected in the inner loop")
        w = writes[0]
        target = w.targets[0].value
        tv = self.use(target)
        if tv.typ != "F" or list(self.sto.values()).count(tv.sto) != 1:
            self.err(w, f"the loop writes into {target.id}, which is not a float array that nothing else holds")
        if src.typ != "C":
            self.err(s, "the array that is split is not the cost volume")
        if src.sto == tv.sto:
            self.err(s, "the loop writes into the array it splits")
        saved_env, saved_sto = dict(self.env), dict(self.sto)
        loopvars = {n.id for l in (s, inner) for n in ast.walk(l.target) if isinstance(n, ast.Name)}
        assigned = {n.id for st in ast.walk(s) if isinstance(st, (ast.Assign, ast.AugAssign))
                    for tt in (st.targets if isinstance(st, ast.Assign) else [st.target])
                    for n in ast.walk(tt) if isinstance(n, ast.Name) and isinstance(n.ctx, ast.Store)}
        for n in ast.walk(w.value):
            if isinstance(n, ast.Name) and n.id != chunk.id and (n.id in loopvars or n.id in assigned or n.id == target.id):
                self.err(w, f"the written expression depends on {n.id}, which changes inside the loop")
        c = self.bind(chunk.id, Val("", "C", src.sto))
        k = self.expr(w.value)
        self.env, self.sto = saved_env, saved_sto
        if k.typ != "F":
            self.err(w, "the written expression is not a float array")
        if ("h_block_loop", HOLE_T) not in self.holes:
            self.holes.append(("h_block_loop", HOLE_T))
        return f"let {tv.text} := h_block_loop (fun {c} => {k.text}) {src.text} {tv.text} in"


class Gen:
    def __init__(self):
        self.mod = Module(DISP)
        self.done = {}       # function name -> (text, source info)
        self.order = []
        self.shares = None

    def need(self, name):
        if name in self.done:
            return
        if name == "extract_disparity_interval_from_cost_volume":
            fdef, cls, kind = self.mod.function(name), "function", "pure"
        else:
            fdef, cls, kind = self.mod.method(CLS, name), CLS, "split"
        self.done[name] = None      # no recursion
        tr = Tr(self, fdef, kind)
        params = self.signature(tr, fdef)
        body = tr.block(list(fdef.body), 1, lambda pad: tr.result(pad, None))
        if getattr(tr, "ret_val", None) is None:
            tr.err(fdef, "no return value")
        # the value returned may not be (a view of) storage of the parameter dataset
        if any(isinstance(h, tuple) and sid == tr.ret_val.sto for h, sid in tr.sto.items()):
            tr.err(fdef, "the function returns a view of its parameter dataset")
        self.finish(name, tr, params, "nd oq", body, f"{self.mod.rel} {cls + '.' if cls != 'function' else ''}{name}", cls, fdef)

    def signature(self, tr, fdef):
        out = []
        args = [a for a in fdef.args.args if a.arg != "self"]
        if fdef.args.defaults and tr.kind != "to_disp":
            tr.err(fdef, "default values in the signature")
        for i, a in enumerate(args):
            ann = ast.unparse(a.annotation) if a.annotation is not None else None
            if i == 0:
                if ann != "xr.Dataset":
                    tr.err(fdef, f"first parameter {a.arg}: annotation {ann!r}, xr.Dataset expected")
                tr.cv = a.arg
                tr.env[a.arg] = (tr.coq_name(a.arg), "CV")
                for key in list(CV_VARS) + ["attrs", "disp_indices"] + ["coord:" + k for k in CV_COORDS]:
                    tr.sto[("cv", key)] = tr.new_sto()
                out.append((tr.env[a.arg][0], "cvds"))
            elif tr.kind == "to_disp" and a.arg in ("img_left", "img_right"):
                continue     # unused: any use is an unbound name
            else:
                tr.err(fdef, f"parameter {a.arg} is not understood")
        if not out:
            tr.err(fdef, "no dataset parameter")
        return out

    def finish(self, name, tr, params, rtype, body, comment, cls, fdef):
        ps = [f"({h} : {t})" for h, t in tr.holes]
        if len(tr.holes) == 2 and tr.holes[0][1] == tr.holes[1][1]:
            ps = [f"({tr.holes[0][0]} {tr.holes[1][0]} : {tr.holes[0][1]})"]
        ps += [f"(p_{n} : {COQ_TYPE[t]})" for n, t in tr.self_params]
        ps += [f"({n} : {t})" for n, t in params]
        text = f"(* {comment} *)\nDefinition g_{name} {' '.join(ps)} : {rtype} :=\n{body}.\n"
        self.done[name] = (text, self.mod.source_info(cls, fdef))
        self.order.append(name)

    def to_disp(self):
        fdef = self.mod.method(CLS, "to_disp")
        tr = Tr(self, fdef, "to_disp")
        params = self.signature(tr, fdef)
        body = tr.block(list(fdef.body), 1, lambda pad: tr.result(pad, None))
        if tr.dm is None:
            tr.err(fdef, "no dataset is built")
        for h, _ in tr.holes:
            if h not in ("h_block_loop_argmin_split", "h_block_loop_argmax_split"):
                tr.err(fdef, f"unexpected hole {h}")
        if [h for h, _ in tr.holes] != ["h_block_loop_argmax_split", "h_block_loop_argmin_split"] and \
                [h for h, _ in tr.holes] != ["h_block_loop_argmin_split", "h_block_loop_argmax_split"]:
            tr.err(fdef, "to_disp does not call both argmin_split and argmax_split")
        tr.holes = [("h_block_loop_argmin_split", HOLE_T), ("h_block_loop_argmax_split", HOLE_T)]
        if tr.self_params != [("invalid_disparity", "OQ")]:
            tr.err(fdef, "self._invalid_disparity is not used")
        shares = sorted((h[1], g[1]) for h, a in tr.sto.items() for g, b in tr.sto.items()
                        if isinstance(h, tuple) and isinstance(g, tuple) and h[0] == "dm" and g[0] == "cv" and a == b)
        self.shares = shares
        self.finish("to_disp", tr, params, "cvds * dmds", body,
                    f"{self.mod.rel} {CLS}.to_disp (works in place on cv: the result is the pair (cv afterwards, disp_map))", CLS, fdef)


def main():
    g = Gen()
    g.to_disp()
    for n in ("argmin_split", "argmax_split", "extract_disparity_interval_from_cost_volume"):
        if n not in g.done:
            fail(g.mod.path, f"to_disp does not call {n}")
    order = ["extract_disparity_interval_from_cost_volume", "argmin_split", "argmax_split", "to_disp"]
    body = ("From Coq Require Import ZArith QArith List Bool String.\n"
            "From Pandora Require Import Lib.Ext Lib.NpNd Lib.NpNd3 Model.WtaNp.\n"
            "From Pandora Require Gen.Constants.\n"
            "Import ListNotations.\nOpen Scope Z_scope.\n\n")
    body += "\n".join(g.done[n][0] for n in order)
    body += ("\n(* storage shared between the result and the cost volume when to_disp returns: (variable of disp_map, variable of cv) *)\n"
             "Definition g_to_disp_shares : list share :=\n  ["
             + "; ".join(f"({coq_str(a)}, {coq_str(b)})" for a, b in g.shares) + "].\n")
    path, changed = emit("WtaFns", body, [g.done[n][1] for n in order])
    print(f"gen_wta_fns: {path} {'updated' if changed else 'unchanged'} ({len(order)} functions, shares {g.shares})")


if __name__ == "__main__":
    try:
        main()
    except Exception as exc:  # fail closed
        print(f"TRANSLATION-ERROR gen_wta_fns: {type(exc).__name__}: {exc}", file=sys.stderr)
        sys.exit(3)
