"""T-gen: coq/Gen/DatasetFns.v from the dataset functions of pandora/img_tools.py (Python `ast`, fail closed):

    add_disparity, add_classif, add_segm, add_no_data, add_mask, create_dataset_from_inputs

Every function body is translated statement by statement into a Gallina term over the primitives of
coq/Model/DatasetPrims.v (the semantics of the numpy / xarray / rasterio constructs met: [np_map] for a
vectorised expression, [np_where] / [where_count] / [where_rc] for np.where and what is done with its result,
[nd_assign_where] for a[w] = v, [rio_read] / [rio_read1] for windowed reads, record updates for
dataset["v"] = ..., dataset.coords[...] = ..., dataset.attrs[...] = ...) and over Gen.Window.get_window.

    x = e                               ->  let x := e in ...
    a, b = e1, e2                       ->  let '(a, b) := (e1, e2) in ...
    dataset["v"] = xr.DataArray(e, dims=[..])   ->  let dataset := ds_set_v dataset e in ...   (dims checked)
    dataset["v"].data[w] = e            ->  let dataset := ds_v_assign_where dataset w e in ...
    dataset.pipe(f, a, k=b)             ->  let dataset := f dataset a b in ...  (f mutates and returns its first
                                            argument: every helper is checked to return that parameter only)
    if t: return dataset                ->  if t then dataset else <rest>
    if t: A [elif/else: B]              ->  let '(v1, .., vn) := if t then <A; (v1..vn)> else <B; (v1..vn)> in ...
                                            (v1..vn = the variables assigned in A or B)
    window = get_window(..) if roi else None    ->  bind_window (match roi with Some roi => Some (get_window ..)
                                                    | None => None end) (fun window => ...)   (what it raises ends
                                                    the function)
    return e                            ->  e (helpers) / COk e (create_dataset_from_inputs)

Typed expressions (Z int, S float32 sample / nodata value, B bool, arrays of 2 or 3 dimensions, where-sets, raster
files, optional paths, the disparity input, the window, records for the three dict literals given to xr.Dataset).
Operations that are partial in Python and total in Gallina are only emitted under the guard that makes them
defined (rasterio_open(p) under `p is not None`, disparity[k] in the non-str branch of a non-None disparity,
window.col_off under `... if roi`, input_config["disp"] under `"disp" in ...`), otherwise refused.
Georeferencing (crs, transform) is outside the property: statements that only compute them are skipped.
The out_dtype of every read is recorded in the generated list [read_dtypes].
Anything else (statement, operator, call, subscript, name, dims list, decorator, signature) is a
TranslationError naming file:line.  Python locals and parameters keep their names, so renaming them is harmless.

The per-run obligations are in Proofs/DatasetGenP.v / Props/C16.v: each generated function computes what the
hand-written Model/Dataset.v computes, for ALL inputs; the C16 theorems are restated on the generated functions."""
import ast
import inspect
import sys
import textwrap

from common import emit, fail, sha1_of, REPO

FUNCS = ["add_disparity", "add_classif", "add_segm", "add_no_data", "add_mask", "create_dataset_from_inputs"]
# parameter types by position (names are read from the source)
PARAM_TYPES = {
    "add_disparity": ["DS", "DISP", "WIN"],
    "add_classif": ["DS", "OFZ", "WIN"],
    "add_segm": ["DS", "OFZ", "WIN"],
    "add_no_data": ["DS", "S", "W"],
    "add_mask": ["DS", "OFZ", "W", "Z", "Z", "WIN"],
    "create_dataset_from_inputs": ["CFG", "ROI"],
}
COQ_TYPES = {"DS": "xds", "DISP": "disp_input", "WIN": "option (Z * Z * Z * Z)", "OFZ": "option (rfile Z)",
             "S": "sample", "W": "whereset", "Z": "Z", "CFG": "xinputs", "ROI": "option roi_t"}
CFG_KEYS = {"img": ("PFS", "xi_img"), "nodata": ("S", "xi_nodata"), "mask": ("OFZ", "xi_mask"),
            "disp": ("DISP", "xi_disp"), "classif": ("OFZ", "xi_classif"), "segm": ("OFZ", "xi_segm")}
CFG_MANDATORY = ("img", "nodata")
OPAQUE_ATTR_KEYS = ("crs", "transform")
# dims a variable of the dataset must be declared with, by the type of the value
VAR_SPECS = {  # var -> (value type, setter, dims)
    "msk": ("AZ", "ds_set_msk", ["row", "col"]),
    "segm": ("AZ", "ds_set_segm", ["row", "col"]),
    "disparity": ("LAS", "ds_set_disparity", ["band_disp", "row", "col"]),
    "classif": ("LAZ", "ds_set_classif", ["band_classif", "row", "col"]),
}
COORD_SPECS = {"band_disp": ("LSTR", "ds_set_band_disp"), "band_classif": ("LZ", "ds_set_band_classif")}
ATTR_GET = {"valid_pixels": "x_valid_pixels", "no_data_mask": "x_no_data_mask"}
DTYPES = {"float32": "DtFloat32", "int16": "DtInt16"}
Z_CMP = {ast.Lt: "<?", ast.Gt: ">?", ast.LtE: "<=?", ast.GtE: ">=?", ast.Eq: "=?"}
RESERVED = set("""at as cofix else end exists exists2 fix for forall fun if IF in let match mod return Set Prop SProp
Type then using where with Some None true false negb andb orb fst snd Z Q nat list option bool string
sample SNaN SInf SFin sz is_nan is_inf ieee_eqb read arr mkArr nr nc px assign_where const_arr zrange
nd Nd2 Nd3 nd_bands bands_shape nd_shape arr_map np_map np_full astype_int16 np_arange whereset np_where where_count
where_rc where2 map2 nd_assign_where rfile mkRfile rf_desc rf_bands rio_open rf_count rf_height rf_width rio_read
rio_read1 win_col_off win_row_off roi_t mkRoi r_col_first r_col_last r_row_first r_row_last r_m_left r_m_up r_m_right
r_m_down xinputs xi_img xi_nodata xi_mask xi_disp xi_classif xi_segm cfg_get cfg_has is_none disp_input DispNone
DispPair DispGrid disp_is_none disp_is_str disp_open disp_item ximage mkImage xcoords mkCoords xattrs mkAttrs xds
xr_dataset ds_set_im ds_set_no_data_img ds_set_disparity_source ds_set_msk ds_put_msk ds_set_band_disp ds_set_disparity
ds_set_band_classif ds_set_classif ds_set_segm ds_im_assign_where ds_msk_assign_where ds_size_row ds_size_col x_im
x_valid_pixels x_no_data_mask cres COk CRaiseOutside CRaiseNegative bind_window get_window window_result Window
RaiseOutside RaiseNegative dtype DtFloat32 DtInt16 DtNative read_dtypes x_ np xr rasterio_open""".split()) | set(FUNCS)


def is_const(node, value=None, kind=None):
    if not isinstance(node, ast.Constant):
        return False
    if kind is not None and (not isinstance(node.value, kind) or isinstance(node.value, bool)):
        return False
    return value is None or node.value == value


def is_name(node, name=None):
    return isinstance(node, ast.Name) and (name is None or node.id == name)


def is_np(node, attr):
    return isinstance(node, ast.Attribute) and node.attr == attr and is_name(node.value, "np")


def subscript_key(node):
    s = node.slice
    if isinstance(s, ast.Index):  # python < 3.9
        s = s.value
    return s


class Fn:
    """one function; kind = "helper" (returns its first parameter) or "create" (returns a cres)"""

    def __init__(self, fname, line0, name, params, sigs, dtypes):
        self.fname = fname
        self.line0 = line0
        self.name = name
        self.kind = "create" if name == "create_dataset_from_inputs" else "helper"
        self.params = params
        self.env = dict(zip(params, PARAM_TYPES[name]))
        self.sigs = sigs      # helper name -> parameter names
        self.dtypes = dtypes  # shared list of (function, dtype)
        self.facts = set()
        self.cfgd = {}        # name of a defaults dict -> {"defaults": {key: None}, "updated": cfg name or None}
        self.nonnull_when = {}  # window variable -> the roi variable whose truth makes it a window
        self.opaque = set()
        self.depth = 0

    def where(self, node):
        return f"{self.fname}:{self.line0 + getattr(node, 'lineno', 1) - 1}"

    def refuse(self, node, msg):
        fail(self.where(node), f"{self.name}: {msg}: {ast.unparse(node)}")

    # ------------------------------------------------------------------ helpers on types
    def coerce(self, node, tv, want):
        text, ty = tv
        if ty == want:
            return text
        if ty == "Z" and want == "S":
            return f"(sz {text})"
        if ty == "NONE" and want in ("WIN", "OFZ"):
            return "None"
        if ty == "PFS" and want == "FS":
            return text
        self.refuse(node, f"a value of type {ty} where {want} is expected")

    def var(self, node, name):
        if name in self.env:
            return name, self.env[name]
        self.refuse(node, f"unknown name {name}")

    def bind(self, node, name, ty):
        if name in RESERVED:
            self.refuse(node, f"the name {name} is reserved by the generated text")
        if name in self.params and self.env.get(name) != ty:
            self.refuse(node, f"parameter {name} re-assigned with another type ({ty})")
        self.env[name] = ty

    # ------------------------------------------------------------------ opaque (georeferencing) expressions
    def is_opaque(self, e):
        if is_const(e, None) and e.value is None:
            return False  # None alone is not enough to call a statement opaque
        return self._opaque(e)

    def _opaque(self, e):
        if isinstance(e, ast.Constant) and e.value is None:
            return True
        if is_name(e) and e.id in self.opaque:
            return True
        if isinstance(e, ast.Subscript) and isinstance(e.value, ast.Attribute) and e.value.attr == "profile" \
                and is_name(e.value.value) and self.env.get(e.value.value.id) == "FS" \
                and is_const(subscript_key(e), kind=str):
            return True
        if isinstance(e, ast.IfExp) and isinstance(e.test, ast.Compare) and len(e.test.ops) == 1 \
                and isinstance(e.test.ops[0], (ast.Is, ast.IsNot)) and self._opaque(e.test.left) \
                and is_const(e.test.comparators[0]) and e.test.comparators[0].value is None:
            return self._opaque(e.body) and self._opaque(e.orelse)
        return False

    # ------------------------------------------------------------------ expressions
    def expr(self, e):
        """-> (coq text, type)"""
        if isinstance(e, ast.Constant):
            if e.value is None:
                return "None", "NONE"
            if isinstance(e.value, bool) or not isinstance(e.value, int):
                self.refuse(e, "literal is not an integer or None")
            return (f"({e.value})" if e.value < 0 else str(e.value)), "Z"
        if isinstance(e, ast.UnaryOp) and isinstance(e.op, ast.USub):
            return f"(- {self.coerce(e, self.expr(e.operand), 'Z')})", "Z"
        if isinstance(e, ast.UnaryOp) and isinstance(e.op, ast.Not):
            return f"(negb {self.coerce(e, self.expr(e.operand), 'B')})", "B"
        if isinstance(e, ast.Name):
            if e.id in self.opaque:
                self.refuse(e, "a georeferencing value is used in the modelled part")
            return self.var(e, e.id)
        if isinstance(e, ast.BinOp):
            ops = {ast.Add: "+", ast.Sub: "-", ast.Mult: "*"}
            if type(e.op) not in ops:
                self.refuse(e, f"operator {type(e.op).__name__} not supported")
            a = self.coerce(e, self.expr(e.left), "Z")
            b = self.coerce(e, self.expr(e.right), "Z")
            return f"({a} {ops[type(e.op)]} {b})", "Z"
        if isinstance(e, ast.BoolOp):
            op = " || " if isinstance(e.op, ast.Or) else " && "
            return "(" + op.join(self.coerce(v, self.expr(v), "B") for v in e.values) + ")", "B"
        if isinstance(e, ast.Compare):
            return self.compare(e)
        if isinstance(e, ast.IfExp):
            return self.ifexp(e)
        if isinstance(e, ast.Tuple):
            tvs = [self.expr(x) for x in e.elts]
            return "(" + ", ".join(t for t, _ in tvs) + ")", ("T", tuple(ty for _, ty in tvs))
        if isinstance(e, ast.List):
            if e.elts and all(is_const(x, kind=str) for x in e.elts):
                return "[" + "; ".join(f'"{x.value}"%string' for x in e.elts) + "]", "LSTR"
            self.refuse(e, "list literal is not a list of strings")
        if isinstance(e, ast.Dict):
            return self.dict_literal(e)
        if isinstance(e, ast.Attribute):
            return self.attribute(e)
        if isinstance(e, ast.Subscript):
            return self.subscript(e)
        if isinstance(e, ast.Call):
            return self.call(e)
        self.refuse(e, "expression shape not supported")

    def compare(self, e):
        if len(e.ops) != 1:
            self.refuse(e, "chained comparison")
        op, left, right = e.ops[0], e.left, e.comparators[0]
        if isinstance(op, (ast.Is, ast.IsNot)):
            if not (is_const(right) and right.value is None):
                self.refuse(e, "`is` with something else than None")
            t, ty = self.expr(left)
            if ty == "OFZ":
                r = f"(is_none {t})"
            elif ty == "DISP":
                r = f"(disp_is_none {t})"
            else:
                self.refuse(e, f"`is None` on a value of type {ty}")
            return (r if isinstance(op, ast.Is) else f"(negb {r})"), "B"
        if isinstance(op, ast.In):
            if not is_const(left, kind=str):
                self.refuse(e, "`in` with a non-literal key")
            return self.cfg_has(e, left.value, right), "B"
        a, ta = self.expr(left)
        b, tb = self.expr(right)

        def zcmp(x, y):
            if isinstance(op, ast.NotEq):
                return f"(negb ({x} =? {y}))"
            if type(op) not in Z_CMP:
                self.refuse(e, f"comparison {type(op).__name__} not supported")
            return f"({x} {Z_CMP[type(op)]} {y})"

        if ta == "Z" and tb == "Z":
            return zcmp(a, b), "B"
        if ta == "AZ" and tb == "Z":  # vectorised, pixel by pixel
            return f"(arr_map (fun x_ => {zcmp('x_', b)}) {a})", "AB"
        if ta == "NDS" and tb in ("S", "Z"):
            b = self.coerce(right, (b, tb), "S")
            if isinstance(op, ast.Eq):
                return f"(np_map (fun x_ => ieee_eqb x_ {b}) {a})", "NDB"
            if isinstance(op, ast.NotEq):
                return f"(np_map (fun x_ => negb (ieee_eqb x_ {b})) {a})", "NDB"
        self.refuse(e, f"comparison between {ta} and {tb} not supported")

    def cfg_has(self, node, key, container):
        if key not in CFG_KEYS:
            self.refuse(node, f"unknown configuration key {key!r}")
        if is_name(container) and container.id in self.cfgd:
            d = self.cfgd[container.id]
            if key in d["defaults"]:
                return "true"
            if d["updated"] is None:
                return "false"
            cfg = d["updated"]
        elif is_name(container) and self.env.get(container.id) == "CFG":
            cfg = container.id
        else:
            self.refuse(node, "`in` on something else than the input configuration")
        if key in CFG_MANDATORY:
            return "true"
        return f"(cfg_has ({CFG_KEYS[key][1]} {cfg}))"

    def cfg_item(self, node, container, key):
        if key not in CFG_KEYS:
            self.refuse(node, f"unknown configuration key {key!r}")
        ty, field = CFG_KEYS[key]
        if container in self.cfgd:
            d = self.cfgd[container]
            cfg = d["updated"]
            if cfg is None:
                self.refuse(node, f"{container} was never updated with the input configuration")
            if key in CFG_MANDATORY:
                if key in d["defaults"]:
                    self.refuse(node, f"a default for the mandatory key {key!r}")
                return f"({field} {cfg})", ty
            if key in d["defaults"]:
                dflt = "DispNone" if ty == "DISP" else "None"
                return f"(cfg_get {dflt} ({field} {cfg}))", ty
            return self.cfg_guarded(node, cfg, key)
        if self.env.get(container) == "CFG":
            if key in CFG_MANDATORY:
                return f"({field} {container})", ty
            return self.cfg_guarded(node, container, key)
        self.refuse(node, "subscript on something else than the input configuration")

    def cfg_guarded(self, node, cfg, key):
        ty, field = CFG_KEYS[key]
        if ("haskey", key) not in self.facts:
            self.refuse(node, f"the optional key {key!r} is read without a default and outside an `in` guard")
        dflt = "DispNone" if ty == "DISP" else "None"
        return f"(cfg_get {dflt} ({field} {cfg}))", ty

    def ifexp(self, e):
        if is_name(e.test) and self.env.get(e.test.id) == "ROI":
            roi = e.test.id
            saved = set(self.facts)
            self.facts.add(("truthy", roi))
            self.env[roi] = "ROIV"
            a, ta = self.expr(e.body)
            self.env[roi] = "ROI"
            self.facts = saved
            b, tb = self.expr(e.orelse)
            if ta == "WINRES" and tb == "NONE":
                return f"(match {roi} with Some {roi} => Some {a} | None => None end)", ("OWINRES", roi)
            if ta != tb:
                self.refuse(e, f"branches of types {ta} and {tb}")
            return f"(match {roi} with Some {roi} => {a} | None => {b} end)", ta
        t = self.coerce(e.test, self.expr(e.test), "B")
        a, ta = self.expr(e.body)
        b, tb = self.expr(e.orelse)
        if ta != tb:
            self.refuse(e, f"branches of types {ta} and {tb}")
        return f"(if {t} then {a} else {b})", ta

    def dict_literal(self, e):
        keys = []
        for k in e.keys:
            if not is_const(k, kind=str):
                self.refuse(e, "dict literal with a non-literal key")
            keys.append(k.value)
        if len(set(keys)) != len(keys):
            self.refuse(e, "dict literal with a repeated key")
        items = dict(zip(keys, e.values))
        if keys == ["im"]:
            v = items["im"]
            if not (isinstance(v, ast.Tuple) and len(v.elts) == 2):
                self.refuse(e, "the image variable is not (dims, data)")
            dims, td = self.expr(v.elts[0])
            data, ty = self.expr(v.elts[1])
            if td != "LSTR" or ty != "NDS":
                self.refuse(e, f"the image variable is ({td}, {ty})")
            return f"(mkImage {dims} {data})", "IMG"
        if set(keys) <= {"band_im", "row", "col"} and {"row", "col"} <= set(keys):
            band = "None"
            if "band_im" in items:
                band = "(Some " + self.coerce(items["band_im"], self.expr(items["band_im"]), "LZ") + ")"
            row = self.coerce(items["row"], self.expr(items["row"]), "LZ")
            col = self.coerce(items["col"], self.expr(items["col"]), "LZ")
            return f"(mkCoords {band} {row} {col})", "COORDS"
        if set(keys) <= set(ATTR_GET) | set(OPAQUE_ATTR_KEYS) and set(ATTR_GET) <= set(keys):
            for k in OPAQUE_ATTR_KEYS:
                if k in items and not self._opaque(items[k]):
                    self.refuse(items[k], f"attribute {k} is not a georeferencing value")
            vp = self.coerce(items["valid_pixels"], self.expr(items["valid_pixels"]), "Z")
            ndm = self.coerce(items["no_data_mask"], self.expr(items["no_data_mask"]), "Z")
            return f"(mkAttrs {vp} {ndm})", "ATTRS"
        self.refuse(e, f"dict literal with keys {keys} not supported")

    def attribute(self, e):
        v = e.value
        # w[k].size
        if e.attr == "size" and isinstance(v, ast.Subscript) and is_name(v.value) and self.env.get(v.value.id) == "W" \
                and is_const(subscript_key(v), kind=int):
            return f"(where_count {v.value.id})", "Z"
        # dataset["im"].data
        if e.attr == "data" and isinstance(v, ast.Subscript) and is_name(v.value) and self.env.get(v.value.id) == "DS" \
                and is_const(subscript_key(v), "im"):
            return f"(x_im {v.value.id})", "NDS"
        if is_name(v):
            t, ty = self.var(v, v.id)
            if ty == "FS" and e.attr in ("width", "height", "count"):
                return f"(rf_{e.attr} {t})", "Z"
            if ty == "WIN" and e.attr in ("col_off", "row_off"):
                roi = self.nonnull_when.get(v.id)
                if roi is None or ("truthy", roi) not in self.facts:
                    self.refuse(e, f"{v.id}.{e.attr} where {v.id} may be None")
                return f"(win_{e.attr} {t})", "Z"
        self.refuse(e, "attribute not supported")

    def subscript(self, e):
        v, k = e.value, subscript_key(e)
        # x.shape[k]
        if isinstance(v, ast.Attribute) and v.attr == "shape" and is_name(v.value) and is_const(k, kind=int):
            t, ty = self.var(v.value, v.value.id)
            if ty != "NDS":
                self.refuse(e, f".shape of a value of type {ty}")
            return f"(nd_shape {t} {k.value})", "Z"
        # dataset.attrs["k"], dataset.sizes["row"]
        if isinstance(v, ast.Attribute) and is_name(v.value) and self.env.get(v.value.id) == "DS" and is_const(k, kind=str):
            if v.attr == "attrs" and k.value in ATTR_GET:
                return f"({ATTR_GET[k.value]} {v.value.id})", "Z"
            if v.attr == "sizes" and k.value in ("row", "col"):
                return f"(ds_size_{k.value} {v.value.id})", "Z"
        if is_name(v):
            if v.id in self.cfgd or self.env.get(v.id) == "CFG":
                if not is_const(k, kind=str):
                    self.refuse(e, "configuration read with a non-literal key")
                return self.cfg_item(e, v.id, k.value)
            if self.env.get(v.id) == "DISP" and is_const(k, kind=int):
                if not {("notnone", v.id), ("notstr", v.id)} <= self.facts:
                    self.refuse(e, f"{v.id}[{k.value}] where {v.id} may be None or a path")
                return f"(disp_item {v.id} {k.value})", "S"
        self.refuse(e, "subscript not supported")

    def kwargs(self, c, allowed):
        out = {}
        for kw in c.keywords:
            if kw.arg is None or kw.arg not in allowed:
                self.refuse(c, f"keyword {kw.arg} not supported")
            out[kw.arg] = kw.value
        return out

    def call(self, c):
        f = c.func
        if is_np(f, "isnan") or is_np(f, "isinf"):
            fn = "is_nan" if f.attr == "isnan" else "is_inf"
            if len(c.args) != 1 or c.keywords:
                self.refuse(c, "arguments")
            t, ty = self.expr(c.args[0])
            if ty == "S":
                return f"({fn} {t})", "B"
            if ty == "NDS":
                return f"(np_map {fn} {t})", "NDB"
            self.refuse(c, f"np.{f.attr} of a value of type {ty}")
        if is_np(f, "where"):
            if len(c.args) != 1 or c.keywords:
                self.refuse(c, "np.where with more than the condition")
            t, ty = self.expr(c.args[0])
            if ty == "NDB":
                return f"(np_where {t})", "W"
            if ty == "AB":
                return f"(where2 {t})", "W2"
            self.refuse(c, f"np.where of a value of type {ty}")
        if is_np(f, "full"):
            if len(c.args) != 2 or c.keywords or not (isinstance(c.args[0], ast.Tuple) and len(c.args[0].elts) == 2):
                self.refuse(c, "np.full is not np.full((h, w), v)")
            h = self.coerce(c, self.expr(c.args[0].elts[0]), "Z")
            w = self.coerce(c, self.expr(c.args[0].elts[1]), "Z")
            v, ty = self.expr(c.args[1])
            if ty == "Z":
                return f"(np_full {h} {w} {v})", "AZ"
            if ty == "S":
                return f"(np_full {h} {w} {v})", "AS"
            self.refuse(c, f"np.full with a fill value of type {ty}")
        if is_np(f, "array"):
            if len(c.args) != 1 or c.keywords or not isinstance(c.args[0], ast.List) or not c.args[0].elts:
                self.refuse(c, "np.array of something else than a list of arrays")
            elts = [self.coerce(x, self.expr(x), "AS") for x in c.args[0].elts]
            return "[" + "; ".join(elts) + "]", "LAS"
        if is_np(f, "arange"):
            if len(c.args) != 2 or c.keywords:
                self.refuse(c, "np.arange is not np.arange(a, b)")
            a = self.coerce(c, self.expr(c.args[0]), "Z")
            b = self.coerce(c, self.expr(c.args[1]), "Z")
            return f"(np_arange {a} {b})", "LZ"
        if is_name(f, "int") and len(c.args) == 1 and not c.keywords:
            return self.coerce(c, self.expr(c.args[0]), "Z"), "Z"
        if is_name(f, "list") and len(c.args) == 1 and not c.keywords and isinstance(c.args[0], ast.Attribute) \
                and c.args[0].attr == "descriptions" and is_name(c.args[0].value):
            t, ty = self.var(c.args[0].value, c.args[0].value.id)
            if ty not in ("FS", "FZ"):
                self.refuse(c, f".descriptions of a value of type {ty}")
            return f"(rf_desc {t})", "LZ"
        if is_name(f, "rasterio_open"):
            if len(c.args) != 1 or c.keywords:
                self.refuse(c, "rasterio_open with more than the path")
            a = c.args[0]
            t, ty = self.expr(a)
            if ty == "PFS":
                return t, "FS"
            if ty == "OFZ":
                if not (is_name(a) and ("notnone", a.id) in self.facts):
                    self.refuse(c, "rasterio_open of a path that may be None")
                return f"(rio_open {t})", "FZ"
            if ty == "DISP":
                if not (is_name(a) and {("notnone", a.id), ("isstr", a.id)} <= self.facts):
                    self.refuse(c, "rasterio_open of a disparity that may not be a path")
                return f"(disp_open {t})", "FS"
            self.refuse(c, f"rasterio_open of a value of type {ty}")
        if is_name(f, "get_window"):
            if len(c.args) != 3 or c.keywords or not is_name(c.args[0]) or self.env.get(c.args[0].id) != "ROIV":
                self.refuse(c, "get_window is not called as get_window(roi, width, height) under `if roi`")
            r = c.args[0].id
            w = self.coerce(c, self.expr(c.args[1]), "Z")
            h = self.coerce(c, self.expr(c.args[2]), "Z")
            fields = " ".join(f"({x} {r})" for x in ("r_col_first", "r_col_last", "r_row_first", "r_row_last",
                                                      "r_m_left", "r_m_up", "r_m_right", "r_m_down"))
            return f"(get_window {fields} {w} {h})", "WINRES"
        if isinstance(f, ast.Attribute):
            if f.attr == "astype" and len(c.args) == 1 and not c.keywords and is_np(c.args[0], "int16"):
                return f"(astype_int16 {self.coerce(c, self.expr(f.value), 'AZ')})", "AZ"
            if f.attr == "read":
                return self.read(c)
            if f.attr == "pipe":
                return self.pipe(c)
            if f.attr == "Dataset" and is_name(f.value, "xr"):
                kw = self.kwargs(c, ("coords", "attrs"))
                if len(c.args) != 1 or set(kw) != {"coords", "attrs"}:
                    self.refuse(c, "xr.Dataset is not xr.Dataset(image, coords=.., attrs=..)")
                i = self.coerce(c, self.expr(c.args[0]), "IMG")
                co = self.coerce(c, self.expr(kw["coords"]), "COORDS")
                at = self.coerce(c, self.expr(kw["attrs"]), "ATTRS")
                return f"(xr_dataset {i} {co} {at})", "DS"
        self.refuse(c, "call not supported")

    def read(self, c):
        """f.read([1,] out_dtype=np.<t>, window=w)"""
        ft, fty = self.expr(c.func.value)
        if fty not in ("FS", "FZ"):
            self.refuse(c, f".read on a value of type {fty}")
        kw = self.kwargs(c, ("out_dtype", "window"))
        if "window" not in kw:
            self.refuse(c, "read without window=")
        w = self.coerce(c, self.expr(kw["window"]), "WIN")
        dt = "DtNative"
        if "out_dtype" in kw:
            o = kw["out_dtype"]
            if not (isinstance(o, ast.Attribute) and is_name(o.value, "np") and o.attr in DTYPES):
                self.refuse(c, "out_dtype not supported")
            dt = DTYPES[o.attr]
        if fty == "FS" and dt != "DtFloat32":
            self.refuse(c, "a float raster is read with an out_dtype that is not np.float32")
        self.dtypes.append((self.name, dt))
        if len(c.args) == 1 and is_const(c.args[0], 1, int):
            return (f"(rio_read1 SNaN {w} {ft})", "AS") if fty == "FS" else (f"(rio_read1 0 {w} {ft})", "AZ")
        if not c.args:
            return (f"(rio_read {w} {ft})", "LAS") if fty == "FS" else (f"(rio_read {w} {ft})", "LAZ")
        self.refuse(c, "read of something else than band 1 or every band")

    def pipe(self, c):
        """ds.pipe(f, a, k=b) = f(ds, a, k=b); f is one of the helpers translated before"""
        recv, ty = self.expr(c.func.value)
        if ty != "DS":
            self.refuse(c, f".pipe on a value of type {ty}")
        if not c.args or not is_name(c.args[0]) or c.args[0].id not in self.sigs:
            self.refuse(c, "pipe of something else than a translated helper")
        callee = c.args[0].id
        names = self.sigs[callee]
        types = PARAM_TYPES[callee]
        actual = {names[0]: None}
        for i, a in enumerate(c.args[1:], 1):
            if i >= len(names):
                self.refuse(c, "too many arguments")
            actual[names[i]] = a
        for kw in c.keywords:
            if kw.arg is None or kw.arg not in names or kw.arg in actual:
                self.refuse(c, f"keyword {kw.arg} not supported")
            actual[kw.arg] = kw.value
        if set(actual) != set(names):
            self.refuse(c, f"arguments of {callee} missing: {sorted(set(names) - set(actual))}")
        args = []
        for n, t in list(zip(names, types))[1:]:
            args.append(self.coerce(actual[n], self.expr(actual[n]), t))
        return f"({callee} {recv} {' '.join(args)})", "DS"

    # ------------------------------------------------------------------ statements
    def assigned(self, stmts):
        """names (re)bound by a block, in first-assignment order"""
        out = []

        def add(n):
            if n not in out:
                out.append(n)
        for s in stmts:
            if isinstance(s, ast.Assign) and len(s.targets) == 1:
                t = s.targets[0]
                if is_name(t):
                    if not self.is_opaque(s.value):
                        add(t.id)
                elif isinstance(t, ast.Tuple) and all(is_name(x) for x in t.elts):
                    for x in t.elts:
                        add(x.id)
                else:
                    add(self.root_name(t))
            elif isinstance(s, ast.Expr) and isinstance(s.value, ast.Call) and isinstance(s.value.func, ast.Attribute):
                add(self.root_name(s.value.func))
            elif isinstance(s, ast.If):
                for n in self.assigned(s.body) + self.assigned(s.orelse):
                    add(n)
            elif isinstance(s, ast.Expr) and is_const(s.value, kind=str):
                pass
            else:
                self.refuse(s, "statement not supported inside a branch")
        return out

    def root_name(self, node):
        n = node
        while isinstance(n, (ast.Attribute, ast.Subscript, ast.Call)):
            n = n.func if isinstance(n, ast.Call) else n.value
        if not is_name(n):
            self.refuse(node, "assignment target not supported")
        return n.id

    def test_facts(self, t):
        """facts that hold in the body / in the else branch of `if t`"""
        pos, neg = set(), set()
        if isinstance(t, ast.Compare) and len(t.ops) == 1 and is_name(t.left):
            if isinstance(t.ops[0], ast.IsNot) and is_const(t.comparators[0]) and t.comparators[0].value is None:
                pos.add(("notnone", t.left.id))
        if isinstance(t, ast.Compare) and len(t.ops) == 1 and isinstance(t.ops[0], ast.In) and is_const(t.left, kind=str):
            pos.add(("haskey", t.left.value))
        if isinstance(t, ast.Call) and is_name(t.func, "isinstance") and len(t.args) == 2 and is_name(t.args[0]) \
                and is_name(t.args[1], "str"):
            pos.add(("isstr", t.args[0].id))
            neg.add(("notstr", t.args[0].id))
        return pos, neg

    def test(self, t):
        if isinstance(t, ast.Call) and is_name(t.func, "isinstance"):
            if not (len(t.args) == 2 and is_name(t.args[0]) and is_name(t.args[1], "str")
                    and self.env.get(t.args[0].id) == "DISP"):
                self.refuse(t, "isinstance test not supported")
            return f"(disp_is_str {t.args[0].id})"
        return self.coerce(t, self.expr(t), "B")

    def block(self, stmts, tail, ind, top):
        """stmts then [tail()] (the text that ends the block when it does not return); top: a return / a raise may
        end the function here"""
        pad = "  " * ind
        if not stmts:
            return pad + tail() + "\n"
        s, rest = stmts[0], stmts[1:]
        if isinstance(s, ast.Expr) and is_const(s.value, kind=str):
            return self.block(rest, tail, ind, top)
        if isinstance(s, ast.Return):
            if not top or rest:
                self.refuse(s, "return inside a branch that does not end the function, or followed by statements")
            return pad + self.ret(s) + "\n"
        if isinstance(s, ast.If):
            return self.if_stmt(s, rest, tail, ind, top)
        if isinstance(s, ast.Assign):
            if len(s.targets) != 1:
                self.refuse(s, "multiple assignment targets")
            return self.assign(s, rest, tail, ind, top)
        if isinstance(s, ast.Expr) and isinstance(s.value, ast.Call):
            return self.expr_stmt(s, rest, tail, ind, top)
        self.refuse(s, "statement shape not supported")

    def ret(self, s):
        if self.kind == "helper":
            if not is_name(s.value, self.params[0]):
                self.refuse(s, f"a helper must return its first parameter {self.params[0]}")
            return self.params[0]
        return "COk " + self.coerce(s, self.expr(s.value), "DS")

    def ends_with_return(self, stmts):
        return bool(stmts) and isinstance(stmts[-1], ast.Return)

    def if_stmt(self, s, rest, tail, ind, top):
        pad = "  " * ind
        tst = self.test(s.test)
        pos, neg = self.test_facts(s.test)
        saved_facts, saved_env = set(self.facts), dict(self.env)
        if self.ends_with_return(s.body):
            if s.orelse or not top:
                self.refuse(s, "an early return with an else branch or inside a branch")
            self.facts |= pos
            body = self.block(s.body, tail, ind + 1, True)
            self.facts, self.env = saved_facts, dict(saved_env)
            return f"{pad}if {tst} then\n{body}{pad}else\n" + self.block(rest, tail, ind, top)
        in1, in2 = self.assigned(s.body), self.assigned(s.orelse)
        # a name bound in one branch only and unknown before the `if` is local to that branch (a later use is refused
        # as an unknown name)
        names = [n for n in in1 + [m for m in in2 if m not in in1] if n in saved_env or (n in in1 and n in in2)]
        if not names:
            self.refuse(s, "an `if` that assigns nothing")
        tup = names[0] if len(names) == 1 else "(" + ", ".join(names) + ")"
        pat = names[0] if len(names) == 1 else "'" + tup
        self.depth += 1
        self.facts = saved_facts | pos
        b1 = self.block(s.body, lambda: tup, ind + 2, False)
        env1 = self.env
        self.facts, self.env = saved_facts | neg, dict(saved_env)
        b2 = self.block(s.orelse, lambda: tup, ind + 2, False)
        env2 = self.env
        self.facts = saved_facts
        self.depth -= 1
        for n in names:
            if n not in env1 or n not in env2:
                self.refuse(s, f"{n} is assigned in one branch only and is not defined before the `if`")
            if env1[n] != env2[n]:
                self.refuse(s, f"{n} has type {env1[n]} in one branch and {env2[n]} in the other")
        self.env = dict(saved_env)
        for n in names:
            self.env[n] = env1[n]
        return (f"{pad}let {pat} :=\n{pad}  if {tst} then\n{b1}{pad}  else\n{b2}{pad}in\n"
                + self.block(rest, tail, ind, top))

    def assign(self, s, rest, tail, ind, top):
        pad = "  " * ind
        t, v = s.targets[0], s.value
        cont = lambda: self.block(rest, tail, ind, top)  # noqa: E731
        if is_name(t):
            # georeferencing: skipped
            if self.is_opaque(v):
                self.opaque.add(t.id)
                return cont()
            # defaults = {"k": None, ...}
            if isinstance(v, ast.Dict) and v.keys and all(is_const(k, kind=str) and k.value in CFG_KEYS for k in v.keys):
                if not all(is_const(x) and x.value is None for x in v.values):
                    self.refuse(s, "a default of the input configuration is not None")
                if t.id in self.env:
                    self.refuse(s, f"{t.id} is already a variable")
                self.cfgd[t.id] = {"defaults": {k.value: None for k in v.keys}, "updated": None}
                return cont()
            text, ty = self.expr(v)
            if isinstance(ty, tuple) and ty[0] == "OWINRES":
                if not top:
                    self.refuse(s, "a call that may raise inside a branch")
                self.bind(s, t.id, "WIN")
                self.nonnull_when[t.id] = ty[1]
                return f"{pad}bind_window {text} (fun {t.id} =>\n" + cont().rstrip("\n") + ")\n"
            if isinstance(ty, tuple) or ty in ("NONE", "WINRES", "W2", "AB"):
                self.refuse(s, f"a value of type {ty} is stored in a variable")
            if ty == "AS" and isinstance(v, ast.Call) and isinstance(v.func, ast.Attribute) and v.func.attr == "read":
                ty, text = "NDS", f"(Nd2 {text})"   # a 2-D image
            elif ty == "LAS" and isinstance(v, ast.Call) and isinstance(v.func, ast.Attribute) and v.func.attr == "read":
                ty, text = "NDS", f"(Nd3 {text})"   # a 3-D image
            if self.env.get(t.id) == "S" and ty == "Z":  # an integer stored where a float value lives
                ty, text = "S", self.coerce(v, (text, ty), "S")
            self.bind(s, t.id, ty)
            return f"{pad}let {t.id} := {text} in\n" + cont()
        if isinstance(t, ast.Tuple) and all(is_name(x) for x in t.elts):
            text, ty = self.expr(v)
            if not (isinstance(ty, tuple) and ty[0] == "T" and len(ty[1]) == len(t.elts)):
                self.refuse(s, "tuple assignment from something else than a tuple of the same length")
            for x, xt in zip(t.elts, ty[1]):
                if isinstance(xt, tuple) or xt not in ("Z", "S", "B"):
                    self.refuse(s, f"tuple assignment of a value of type {xt}")
                self.bind(s, x.id, xt)
            return f"{pad}let '({', '.join(x.id for x in t.elts)}) := {text} in\n" + cont()
        if isinstance(t, ast.Subscript):
            ds = self.root_name(t)
            if self.env.get(ds) != "DS":
                self.refuse(s, "subscript assignment on something else than the dataset")
            text = self.ds_store(s, ds, t, v)
            return f"{pad}let {ds} := {text} in\n" + cont()
        self.refuse(s, "assignment target not supported")

    def data_array(self, node, v, want_ty, dims):
        """xr.DataArray(e, dims=[...]) -> text of e"""
        if not (isinstance(v, ast.Call) and isinstance(v.func, ast.Attribute) and v.func.attr == "DataArray"
                and is_name(v.func.value, "xr") and len(v.args) == 1):
            self.refuse(node, "the value stored is not xr.DataArray(array, dims=[...])")
        kw = self.kwargs(v, ("dims",))
        if "dims" not in kw or not isinstance(kw["dims"], ast.List) \
                or [x.value if is_const(x, kind=str) else None for x in kw["dims"].elts] != dims:
            self.refuse(node, f"dims of this variable must be {dims}")
        return self.coerce(v, self.expr(v.args[0]), want_ty)

    def ds_store(self, s, ds, t, v):
        k = subscript_key(t)
        base = t.value
        # dataset["var"] = xr.DataArray(...)
        if is_name(base, ds) and is_const(k, kind=str):
            if k.value not in VAR_SPECS:
                self.refuse(s, f"dataset variable {k.value!r} not supported")
            ty, setter, dims = VAR_SPECS[k.value]
            return f"{setter} {ds} {self.data_array(s, v, ty, dims)}"
        # dataset.coords["c"] = ..., dataset.attrs["k"] = ...
        if isinstance(base, ast.Attribute) and is_name(base.value, ds) and is_const(k, kind=str):
            if base.attr == "coords" and k.value in COORD_SPECS:
                ty, setter = COORD_SPECS[k.value]
                return f"{setter} {ds} {self.coerce(v, self.expr(v), ty)}"
            if base.attr == "attrs" and k.value == "disparity_source":
                return f"ds_set_disparity_source {ds} {self.coerce(v, self.expr(v), 'DISP')}"
            if base.attr == "attrs" and k.value == "no_data_img":
                return f"ds_set_no_data_img {ds} {self.coerce(v, self.expr(v), 'S')}"
        # dataset["var"].data[w] = e
        if isinstance(base, ast.Attribute) and base.attr == "data" and isinstance(base.value, ast.Subscript) \
                and is_name(base.value.value, ds) and is_const(subscript_key(base.value), kind=str):
            var = subscript_key(base.value).value
            if var == "im":
                w = self.coerce(k, self.expr(k), "W")
                return f"ds_im_assign_where {ds} {w} {self.coerce(v, self.expr(v), 'S')}"
            if var == "msk":
                return f"ds_msk_assign_where {ds} {self.index2(k)} {self.coerce(v, self.expr(v), 'Z')}"
        self.refuse(s, "store into the dataset not supported")

    def index2(self, k):
        """a 2-D fancy index: np.where(2-D boolean array) or (w[-2], w[-1])"""
        if isinstance(k, ast.Tuple) and len(k.elts) == 2:
            a, b = k.elts
            ok = all(isinstance(x, ast.Subscript) and is_name(x.value) and self.env.get(x.value.id) == "W" for x in (a, b))
            if ok and a.value.id == b.value.id:
                ia, ib = subscript_key(a), subscript_key(b)

                def neg(n, val):
                    return isinstance(n, ast.UnaryOp) and isinstance(n.op, ast.USub) and is_const(n.operand, val, int) \
                        or is_const(n, -val, int)
                if neg(ia, 2) and neg(ib, 1):
                    return f"(where_rc {a.value.id})"
            self.refuse(k, "index pair is not (w[-2], w[-1])")
        t, ty = self.expr(k)
        if ty != "W2":
            self.refuse(k, f"index of type {ty} on a 2-D variable")
        return t

    def expr_stmt(self, s, rest, tail, ind, top):
        pad = "  " * ind
        c = s.value
        f = c.func
        cont = lambda: self.block(rest, tail, ind, top)  # noqa: E731
        if isinstance(f, ast.Attribute) and f.attr == "update" and len(c.args) == 1 and not c.keywords:
            # defaults.update(input_config)
            if is_name(f.value) and f.value.id in self.cfgd:
                if not (is_name(c.args[0]) and self.env.get(c.args[0].id) == "CFG"):
                    self.refuse(s, "update with something else than the input configuration")
                if self.cfgd[f.value.id]["updated"] is not None or self.depth:
                    self.refuse(s, "second or conditional update of the defaults")
                self.cfgd[f.value.id]["updated"] = c.args[0].id
                return cont()
            # dataset.attrs.update({"no_data_img": e})
            if isinstance(f.value, ast.Attribute) and f.value.attr == "attrs" and is_name(f.value.value) \
                    and self.env.get(f.value.value.id) == "DS" and isinstance(c.args[0], ast.Dict):
                ds = f.value.value.id
                d = c.args[0]
                if len(d.keys) != 1 or not is_const(d.keys[0], "no_data_img", str):
                    self.refuse(s, "attrs.update with something else than {'no_data_img': ..}")
                v = self.coerce(d.values[0], self.expr(d.values[0]), "S")
                return f"{pad}let {ds} := ds_set_no_data_img {ds} {v} in\n" + cont()
        if isinstance(f, ast.Attribute) and f.attr == "pipe" and is_name(f.value) and self.env.get(f.value.id) == "DS":
            text, _ = self.pipe(c)
            return f"{pad}let {f.value.id} := {text} in\n" + cont()
        self.refuse(s, "expression statement not supported")


HEADER = """From Coq Require Import ZArith QArith List Bool String.
From Pandora Require Import Model.Dataset Model.DatasetPrims Gen.Window.
Import ListNotations.
Open Scope Z_scope.

"""


def translate():
    sys.path.insert(0, REPO)
    from pandora import img_tools  # pylint: disable=import-outside-toplevel

    src_file = inspect.getsourcefile(img_tools)
    if not src_file.startswith(REPO):
        fail("import", f"pandora imported from {src_file}, not from {REPO}")
    import numpy
    import xarray
    if getattr(img_tools, "np", None) is not numpy or getattr(img_tools, "xr", None) is not xarray:
        fail(src_file, "np / xr are not numpy / xarray in img_tools")
    body = HEADER
    sources, sigs, dtypes, stats = [], {}, [], []
    for name in FUNCS:
        fobj = getattr(img_tools, name, None)
        if fobj is None or inspect.getsourcefile(fobj) != src_file:
            fail(src_file, f"{name} is not defined in img_tools")
        lines, line0 = inspect.getsourcelines(fobj)
        src = textwrap.dedent("".join(lines))
        fn = ast.parse(src).body[0]
        if not isinstance(fn, ast.FunctionDef) or fn.decorator_list:
            fail(f"{src_file}:{line0}", f"{name} is not a plain function")
        a = fn.args
        params = [x.arg for x in a.args]
        if a.vararg or a.kwarg or a.kwonlyargs or a.posonlyargs or len(params) != len(PARAM_TYPES[name]):
            fail(f"{src_file}:{line0}", f"{name}: unexpected signature {params}")
        if name == "create_dataset_from_inputs":
            if len(a.defaults) != 1 or not (is_const(a.defaults[0]) and a.defaults[0].value is None):
                fail(f"{src_file}:{line0}", f"{name}: the roi parameter must default to None")
        elif a.defaults:
            fail(f"{src_file}:{line0}", f"{name}: default values not supported")
        for p in params:
            if p in RESERVED:
                fail(f"{src_file}:{line0}", f"{name}: parameter name {p} is reserved by the generated text")
        tr = Fn(src_file, line0, name, params, sigs, dtypes)
        if not fn.body or not isinstance(fn.body[-1], ast.Return):
            fail(f"{src_file}:{line0}", f"{name} does not end with a return")
        text = tr.block(fn.body, lambda: fail(f"{src_file}:{line0}", f"{name} falls off its end"), 1, True)
        binders = " ".join(f"({p} : {COQ_TYPES[t]})" for p, t in zip(params, PARAM_TYPES[name]))
        rty = "cres" if name == "create_dataset_from_inputs" else "xds"
        body += (f"(* img_tools.{name}({', '.join(params)}), lines {line0}-{line0 + len(lines) - 1} *)\n"
                 f"Definition {name} {binders} : {rty} :=\n{text.rstrip()}.\n\n")
        sigs[name] = params
        sources.append((src_file, f"lines {line0}-{line0 + len(lines) - 1} ({name})", sha1_of(src)))
        stats.append(f"{name}={len(fn.body)}")
    body += ("(* out_dtype of every raster read, in source order (function, dtype) *)\n"
             "Definition read_dtypes : list (string * dtype) :=\n  ["
             + ";\n   ".join(f'("{f}"%string, {d})' for f, d in dtypes) + "].\n")
    path, changed = emit("DatasetFns", body, sources)
    print(f"gen_dataset_fns: {path} {'rewritten' if changed else 'unchanged'} statements: {' '.join(stats)}")


def main():
    try:
        translate()
    except BaseException as exc:
        # fail closed: no stale definitions from an earlier run may stay behind for Proofs/DatasetGenP.v to be checked
        # against; an empty file makes the equality obligations (and what is built on them) fail to build
        msg = f"{type(exc).__name__}: {exc}".replace("*)", "* )").replace("(*", "( *")
        emit("DatasetFns", f"(* TRANSLATION FAILED, nothing generated:\n   {msg}\n*)\n", [])
        raise


if __name__ == "__main__":
    try:
        main()
    except Exception as exc:  # fail closed, one line for the caller
        print(f"TRANSLATION-ERROR gen_dataset_fns: {type(exc).__name__}: {exc}")
        sys.exit(3)
