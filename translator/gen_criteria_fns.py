"""T-gen: coq/Gen/CriteriaFns.v -- six functions of pandora/criteria.py, statement by statement (Python `ast` only,
pandora is not imported; fail closed: every shape that is not listed here is a TranslationError naming file:line).

  binary_dilation_msk -> g_binary_dilation_msk : bmat        (returns a local boolean array)
  allocate_left_mask, allocate_right_mask, mask_invalid_variable_disparity_range, mask_border
                      -> g_<name> K cv w_validity_mask ... : imat   (they work IN PLACE on cv["validity_mask"]: the
                         array is an extra parameter right after the dataset, the result is that array afterwards)
  validity_mask       -> g_validity_mask K img_left img_right cv : imat   (its first statement creates the array)

The target language is coq/Lib/NpCrit.v: ONE numpy / xarray / scipy construct -> ONE combinator, whose meaning is
written there, once.  What this file does:

* TYPES every expression: Z (integer scalar), V / VB (1-D integer / boolean array), T1 (the 1-tuple of np.where on a
  1-D array, or `([],)`), M / MB (2-D integer / boolean array), Q3 (NaN pattern of the cost volume), IMG / CV (the
  dataset parameters, from the annotation `xr.Dataset` and the name: img* / cv, dataset); `int` -> Z,
  `Union[np.ndarray, Tuple]` -> T1; any other annotation is refused.  A combinator is chosen by the operator AND the
  types of its operands (V + Z -> np_add_vs, VB & VB -> np_and_vv, M != Z -> np_ne_ms, ...); a combination that is not
  in the table is refused (e.g. Z on the left of an array operator, Z * Z, chained comparisons, any dtype but np.uint16,
  any keyword of np.full, np.min without axis=2, binary_dilation without structure=np.ones((a, b)), iterations=1).
* NAMES: the local x is `v_x`; `x = e` is `let v_x := E in` (re-binding = shadowing).  cv["validity_mask"](.data) of
  the dataset parameter is ONE pseudo-variable `w_validity_mask`; subscripts need the `.data` form (numpy indexing; the
  DataArray's own indexing is not modelled), xr.align / return need the DataArray form.
* STORES (`X[...] = e`, `X[...] += e`, `cv["validity_mask"] += e`; only `=` and `+=`) re-bind X, and are accepted only
  when X is the pseudo-variable or a FRESH name (bound by np.full and never aliased since); binding a second name to a
  fresh array or to the validity mask array itself is refused, as is a store into anything else ("may be aliased").
  Shapes: X[:, idx] += c | M, X[:, idx] = c, X[np.where(MB)] += c, X[lo:hi, lo:hi] = c, X[a, b] = V with
  `a, b = np.where(MB)` (the pair is one Coq value `v_a_b`; a and b may only be used together, in that order).
* PARTIAL scalar reads `v[<int const>]` are `np_item v i`, and the check `np_item_ok v i` is attached to the statement
  that holds them: its right-hand side becomes `(v_guard [checks] E)` / `(m_guard [checks] E)`; a partial read bound to
  a scalar name, or in an `if` test / a range bound, is refused.
* `if c: ... else: ...` (c an integer comparison or `"msk" in img.data_vars`) is `let '(names) := if C then ... (names)
  else ... (names) in`, the names being those assigned in either branch in order of first assignment; a name that is
  not bound before the `if` must be assigned (with the same type) in both branches.
* `for k in range(a, b):` is a fold_left over py_range a b whose state is the tuple of the names assigned in the body
  that are bound before the loop (their type and freshness must be loop-invariant); the names first bound in the body
  and the loop variable are unbound after the loop.  No nested for, break, continue, else.
* CALLS: only the numpy / xarray / scipy functions of the table, len(range(a, b)), and the functions translated before
  (binary_dilation_msk(img, n) as a value; allocate_*_mask(cv, ...) as a statement: it re-binds w_validity_mask).
* ENDINGS: binary_dilation_msk returns a name of type MB; the others end with `return <cv parameter>`,
  `return <cv>["validity_mask"]`, or fall off the end of a function annotated `-> None`; a return anywhere else is
  refused.  Docstrings are skipped.
* Also refused: a module that does not import numpy as np, xarray as xr, pandora.constants as cst (or binds those names
  twice, or holds anything but imports and functions), decorators, defaults, *args / **kwargs, nested functions,
  lambdas, comprehensions, try / while / with / global / del, unbound names, assignment to a dataset parameter, to an
  imported / module-level name, to a loop variable; cst.PANDORA_MSK_PIXEL_<X> with X not a constructor of `cname`
  (coq/Model/Criteria.v)."""
import ast
import os
import re
import sys

from common import GEN_DIR, REPO, emit, fail, sha1_of

REL = "pandora/criteria.py"
# callees before callers; "value": returns a local array, "mask": the result is the validity mask afterwards
FUNCS = [("binary_dilation_msk", "value"), ("allocate_left_mask", "mask"), ("allocate_right_mask", "mask"),
         ("validity_mask", "mask"), ("mask_invalid_variable_disparity_range", "mask"), ("mask_border", "mask")]
OBLIGATIONS = [
    "Gen.CriteriaFns g_binary_dilation_msk = Model.Criteria.dil, element by element, err = false, every layout and ROI origin "
    "(C04_gen_binary_dilation_eq_model, re-proved on the regenerated file)",
    "Gen.CriteriaFns g_allocate_left_mask = Model.Criteria.alloc_left with the regenerated flag sites "
    "(C04_gen_allocate_left_mask_eq_model)",
    "Gen.CriteriaFns g_allocate_right_mask (fold_left over range(d_min, d_max + 1) on whole arrays) = Model.Criteria.alloc_right "
    "(fold of arm_step per pixel), any bit_1 index array holding the bit-1 columns (C04_gen_allocate_right_mask_eq_model)",
    "Gen.CriteriaFns g_validity_mask = Model.Criteria.validity_mask_px (C04_gen_validity_mask_eq_model; col coordinates "
    "c0 .. c0+nc-1 for every origin c0)",
    "Gen.CriteriaFns g_mask_invalid_variable_disparity_range = Model.Criteria.mivdr (C04_gen_mivdr_eq_model)",
    "Gen.CriteriaFns g_mask_border = Model.Criteria.mask_border_px (C04_gen_mask_border_eq_model)",
    "gen_after_mc (the three calls in pipeline order) = Model.Criteria.after_mc with E0 = the regenerated flag sites "
    "(C04_gen_criteria_eq_model); C04_gen_after_mc_expected / _border_bit0_only / _bit7_iff / _invalid_iff_nocost restate the "
    "model theorems on the generated functions",
]

VM = "@validity_mask"      # key of the pseudo-variable in the environment
W = "w_validity_mask"
COQ_TYPE = {"Z": "Z", "T1": "vec Z", "IMG": "imgrec", "CV": "cvrec"}
BINDABLE = ("Z", "V", "VB", "T1", "M", "MB", "Q3")
ANNOT = {"int": "Z", "Union[np.ndarray, Tuple]": "T1"}
V_CMP = {ast.Lt: "np_lt_vs", ast.LtE: "np_le_vs", ast.Gt: "np_gt_vs", ast.GtE: "np_ge_vs", ast.Eq: "np_eq_vs"}
Z_CMP = {ast.Lt: "<?", ast.LtE: "<=?", ast.Gt: ">?", ast.GtE: ">=?", ast.Eq: "=?"}
BANNED = (ast.Global, ast.Nonlocal, ast.Lambda, ast.Try, ast.While, ast.With, ast.Delete, ast.Yield, ast.YieldFrom,
          ast.ListComp, ast.SetComp, ast.DictComp, ast.GeneratorExp, ast.Break, ast.Continue, ast.AsyncFunctionDef,
          ast.AsyncFor, ast.AsyncWith, ast.Await, ast.ClassDef, ast.NamedExpr, ast.IfExp, ast.Starred, ast.Import,
          ast.ImportFrom, ast.Assert, ast.Raise, ast.Pass)


def same(node, src):
    return ast.dump(node) == ast.dump(ast.parse(src, mode="eval").body)


def intconst(e):
    """an integer literal, possibly negated -> int, else None"""
    if isinstance(e, ast.Constant) and type(e.value) is int:
        return e.value
    if isinstance(e, ast.UnaryOp) and isinstance(e.op, ast.USub) and isinstance(e.operand, ast.Constant) and type(e.operand.value) is int:
        return -e.operand.value
    return None


def is_full(sl):
    return isinstance(sl, ast.Slice) and sl.lower is None and sl.upper is None and sl.step is None


def is_doc(s):
    return isinstance(s, ast.Expr) and isinstance(s.value, ast.Constant) and isinstance(s.value.value, str)


def cnames():
    path = os.path.join(os.path.dirname(GEN_DIR), "Model", "Criteria.v")
    with open(path) as f:
        m = re.search(r"Inductive cname :=(.*?)\.", f.read(), re.S)
    names = re.findall(r"\bK_\w+", m.group(1)) if m else []
    if len(names) != 13:
        fail(path, f"13 constructors of cname expected, {len(names)} found")
    return names


class Module:
    def __init__(self):
        self.path = os.path.join(REPO, REL)
        with open(self.path) as f:
            self.src = f.read()
        self.tree = ast.parse(self.src)
        self.imports, self.functions = {}, {}
        for n in self.tree.body:
            if isinstance(n, ast.Import):
                new = [(a.asname or a.name, a.name) for a in n.names]
            elif isinstance(n, ast.ImportFrom):
                new = [(a.asname or a.name, "." * n.level + (n.module or "") + ":" + a.name) for a in n.names]
            elif isinstance(n, ast.FunctionDef):
                new = [(n.name, n)]
            elif is_doc(n):
                continue
            else:
                fail(f"{self.path}:{n.lineno}", f"module-level {type(n).__name__}: only imports and functions are expected")
            for k, v in new:
                if k in self.imports or k in self.functions:
                    fail(f"{self.path}:{n.lineno}", f"module-level name {k} is bound twice")
                (self.functions if isinstance(v, ast.FunctionDef) else self.imports)[k] = v
        for k, v in (("np", "numpy"), ("xr", "xarray"), ("cst", "pandora.constants")):
            if self.imports.get(k) != v:
                fail(self.path, f"`import {v} as {k}` expected")
        self.reserved = set(self.imports) | set(self.functions) | {"len", "range", "int", "_"}
        self.cnames = cnames()
        self.sigs = {}          # translated so far: name -> (kind, [parameter types], takes the mask)

    def function(self, name):
        if name not in self.functions:
            fail(self.path, f"function {name} not found at module level")
        return self.functions[name]

    def source_info(self, fdef):
        seg = ast.get_source_segment(self.src, fdef) or ""
        return (self.path, f"function.{fdef.name} lines {fdef.lineno}-{fdef.end_lineno}", sha1_of(seg))


class Tr:
    """one function -> nested lets"""

    def __init__(self, mod, fdef, kind):
        self.mod, self.fdef, self.kind = mod, fdef, kind
        self.env = {}            # python name | VM -> type, or ("PART", (a, b)) for the two names of a np.where pair
        self.fresh = set()       # names bound to arrays allocated here and not aliased (stores allowed)
        self.log = []            # keys assigned in the block being translated, in order of first assignment
        self.guards = []         # np_item_ok checks of the statement being translated
        self.loopvars = set()
        self.depth = 0
        self.cv = None
        a = fdef.args
        if a.vararg or a.kwarg or a.kwonlyargs or a.posonlyargs or a.defaults or a.kw_defaults:
            self.err(fdef, "unsupported signature (defaults, *args, **kwargs, keyword-only, positional-only)")
        if fdef.decorator_list:
            self.err(fdef, f"decorated function (@{ast.unparse(fdef.decorator_list[0])})")
        for n in ast.walk(fdef):
            if isinstance(n, BANNED) or (isinstance(n, ast.FunctionDef) and n is not fdef):
                self.err(n, f"{type(n).__name__} inside a translated function")
        self.body = [s for s in fdef.body if not is_doc(s)]
        self.params = []         # (python name, type)
        for p in a.args:
            ann = ast.unparse(p.annotation) if p.annotation is not None else None
            if ann == "xr.Dataset":
                ty = "IMG" if p.arg.startswith("img") else "CV" if p.arg in ("cv", "dataset") else None
            else:
                ty = ANNOT.get(ann)
            if ty == "T1" and (mod.imports.get("Union"), mod.imports.get("Tuple")) != ("typing:Union", "typing:Tuple"):
                ty = None
            if ty is None or p.arg in mod.reserved or not p.arg.isascii() or p.arg in self.env:
                self.err(fdef, f"parameter {p.arg}: annotation {ann!r} is not understood")
            if ty == "CV":
                if self.cv:
                    self.err(fdef, "two cost-volume dataset parameters")
                self.cv = p.arg
            self.env[p.arg] = ty
            self.params.append((p.arg, ty))
        # the validity mask: created by the first statement, or a parameter that follows the dataset
        self.creates = bool(self.cv and self.body and isinstance(self.body[0], ast.Assign) and len(self.body[0].targets) == 1
                            and self.vm_form(self.body[0].targets[0]) == "da"
                            and same(self.body[0].value, f'xr.DataArray(np.full(({self.cv}.sizes["row"], {self.cv}.sizes["col"]), 0), '
                                                         f'dims=["row", "col"])'))
        self.takes_mask = bool(self.cv) and not self.creates
        if self.takes_mask:
            self.env[VM] = "M"
        self.reads = {}          # unparsed read of a dataset parameter -> (coq, type)
        for p, ty in self.params:
            c = self.coq(p)
            if ty == "CV":
                self.reads.update({f"{p}.attrs['offset_row_col']": (f"(cv_offset {c})", "Z"), f"{p}.attrs['window_size']": (f"(cv_window_size {c})", "Z"),
                                   f"{p}.sizes['row']": (f"(cv_size_row {c})", "Z"), f"{p}.sizes['col']": (f"(cv_size_col {c})", "Z"),
                                   f"{p}.coords['col'].data": (f"(cv_col {c})", "V")})
            if ty == "IMG":
                self.reads.update({f"{p}.attrs['no_data_mask']": (f"(i_no_data_mask {c})", "Z"), f"{p}.attrs['valid_pixels']": (f"(i_valid_pixels {c})", "Z"),
                                   f"{p}['msk'].data": (f"(i_msk {c})", "M")})

    def err(self, node, msg):
        fail(f"{self.mod.path}:{getattr(node, 'lineno', self.fdef.lineno)} ({self.fdef.name})", msg)

    # ------------------------------------------------------------ names
    @staticmethod
    def coq(key):
        return W if key == VM else "v_" + key

    def lookup(self, node):
        if node.id not in self.env:
            self.err(node, f"name {node.id} is not bound here")
        return self.env[node.id]

    def vm_form(self, node):
        """"da" for <cv>["validity_mask"], "data" for <cv>["validity_mask"].data, else None"""
        if self.cv and isinstance(node, (ast.Subscript, ast.Attribute)):
            u = ast.unparse(node)
            return "da" if u == f"{self.cv}['validity_mask']" else "data" if u == f"{self.cv}['validity_mask'].data" else None
        return None

    def use_vm(self, node):
        if VM not in self.env:
            self.err(node, "the validity mask is used before it is created")
        return W

    def bind(self, node, key, typ, fresh):
        """fresh: True (allocated here), False (anything else), None (a store: unchanged)"""
        if key != VM:
            if key in self.mod.reserved or key in self.loopvars or not key.isascii():
                self.err(node, f"assignment to {key} (imported / module-level / builtin name, or loop variable)")
            if self.env.get(key) in ("IMG", "CV"):
                self.err(node, f"assignment to the dataset parameter {key}")
            for t in self.env.values():
                if isinstance(t, tuple) and "_".join(t[1]) == key:
                    self.err(node, f"{key} collides with the name of the np.where pair {t[1]}")
            if fresh is True:
                self.fresh.add(key)
            elif fresh is False:
                self.fresh.discard(key)
        self.env[key] = typ
        if key not in self.log:
            self.log.append(key)
        return self.coq(key)

    def let(self, node, key, rhs, typ, ind, fresh=False):
        if self.guards:
            g = "[" + "; ".join(self.guards) + "]"
            if typ in ("V", "VB", "T1"):
                rhs = f"(v_guard {g} {rhs})"
            elif typ == "M":
                rhs = f"(m_guard {g} {rhs})"
            else:
                self.err(node, f"partial read v[i] in a statement that binds a value of type {typ}: it cannot carry the check")
            self.guards = []
        if typ not in BINDABLE:
            self.err(node, f"value of type {typ} bound to a name")
        return f"{'  ' * ind}let {self.bind(node, key, typ, fresh)} := {rhs} in"

    def pair(self, a, b):
        """X[a, b] with `a, b = np.where(...)` still in force -> coq name of the pair"""
        if isinstance(a, ast.Name) and isinstance(b, ast.Name) and self.env.get(a.id) == self.env.get(b.id) == ("PART", (a.id, b.id)):
            return f"v_{a.id}_{b.id}"
        return None

    # ------------------------------------------------------------ expressions
    def typed(self, node, *types):
        c, t = self.expr(node)
        if t not in types:
            self.err(node, f"{ast.unparse(node)} has type {t}, {' / '.join(types)} expected")
        return c, t

    def expr(self, e):
        """-> (coq text, type)"""
        k = intconst(e)
        if k is not None:
            return (f"({k})" if k < 0 else str(k)), "Z"
        if isinstance(e, ast.Name):
            t = self.lookup(e)
            if t not in BINDABLE:
                self.err(e, f"{e.id} ({t[0] if isinstance(t, tuple) else t}) is used in a way that is not understood")
            return self.coq(e.id), t
        if isinstance(e, ast.UnaryOp) and isinstance(e.op, ast.USub):
            return f"(- {self.typed(e.operand, 'Z')[0]})", "Z"
        if isinstance(e, ast.Tuple) and same(e, "([],)"):
            return "np_tuple1_empty", "T1"
        if isinstance(e, (ast.Attribute, ast.Subscript)) and ast.unparse(e) in self.reads:
            return self.reads[ast.unparse(e)]
        if isinstance(e, ast.Attribute):
            if self.vm_form(e) == "data":
                return self.use_vm(e), "M"
            if (isinstance(e.value, ast.Name) and self.mod.imports.get(e.value.id) == "pandora.constants"
                    and e.attr.startswith("PANDORA_MSK_PIXEL_")):
                k = "K_" + e.attr[len("PANDORA_MSK_PIXEL_"):]
                if k not in self.mod.cnames:
                    self.err(e, f"{e.attr} is not a constructor of cname (coq/Model/Criteria.v)")
                return f"(K {k})", "Z"
            if e.attr == "data" and isinstance(e.value, ast.Call) and ast.unparse(e.value.func) == "xr.where":
                return self.expr(e.value)       # .data of a new DataArray: the same elements
        if isinstance(e, ast.Subscript):
            return self.subscript(e)
        if isinstance(e, ast.BinOp):
            return self.binop(e)
        if isinstance(e, ast.Compare):
            return self.compare(e)
        if isinstance(e, ast.Call):
            return self.call(e)
        self.err(e, f"expression not understood: {ast.unparse(e)}")
        return None

    def binop(self, e):
        (l, lt), (r, rt) = self.expr(e.left), self.expr(e.right)
        table = {("Z", ast.Add, "Z"): ("+", "Z"), ("Z", ast.Sub, "Z"): ("-", "Z"),
                 ("V", ast.Add, "Z"): ("np_add_vs", "V"), ("V", ast.BitAnd, "Z"): ("np_land_vs", "V"),
                 ("VB", ast.BitAnd, "VB"): ("np_and_vv", "VB"), ("VB", ast.BitOr, "VB"): ("np_or_vv", "VB"),
                 ("MB", ast.BitAnd, "MB"): ("np_and_mm", "MB"), ("M", ast.Mult, "Z"): ("np_mul_ms", "M")}
        hit = table.get((lt, type(e.op), rt))
        if hit is None:
            self.err(e, f"operator {type(e.op).__name__} on {lt} and {rt}: {ast.unparse(e)}")
        return (f"({l} {hit[0]} {r})" if lt == "Z" else f"({hit[0]} {l} {r})"), hit[1]

    def compare(self, e):
        if len(e.ops) != 1:
            self.err(e, f"chained comparison: {ast.unparse(e)}")
        op = type(e.ops[0])
        (l, lt), (r, rt) = self.expr(e.left), self.expr(e.comparators[0])
        if (lt, rt) == ("Z", "Z") and op in Z_CMP:
            return f"({l} {Z_CMP[op]} {r})", "BOOL"
        if (lt, rt) == ("V", "Z") and op in V_CMP:
            return f"({V_CMP[op]} {l} {r})", "VB"
        if (lt, rt) == ("M", "Z") and op in (ast.NotEq, ast.Eq):
            return f"({'np_ne_ms' if op is ast.NotEq else 'np_eq_ms'} {l} {r})", "MB"
        self.err(e, f"comparison {op.__name__} on {lt} and {rt}: {ast.unparse(e)}")
        return None

    def subscript(self, e):
        form = self.vm_form(e.value)
        if form == "da":
            self.err(e, "indexing the DataArray itself (xarray indexing) is not modelled: .data expected")
        sl = e.slice
        x, xt = (self.use_vm(e), "M") if form == "data" else self.expr(e.value)
        if isinstance(sl, ast.Tuple):
            if len(sl.elts) == 2 and xt in ("M", "MB") and is_full(sl.elts[0]) and not isinstance(sl.elts[1], ast.Slice):
                idx, _ = self.typed(sl.elts[1], "T1", "V")
                return (f"(np_cols {x} {idx})", "M") if xt == "M" else (f"(np_colsb {x} {idx})", "MB")
            if len(sl.elts) == 2 and xt == "M" and self.pair(*sl.elts):
                return f"(np_take2 {x} {self.pair(*sl.elts)})", "V"
        elif intconst(sl) is not None:
            i = intconst(sl)
            lit = f"({i})" if i < 0 else str(i)
            if xt == "V":
                g = f"np_item_ok {x} {lit}"
                if g not in self.guards:
                    self.guards.append(g)
                return f"(np_item {x} {lit})", "Z"
            if xt == "T1" and i == 0:
                return f"(np_tuple_get0 {x})", "V"
        elif not isinstance(sl, ast.Slice) and xt == "V":
            idx, _ = self.typed(sl, "T1", "V")
            return f"(np_take {x} {idx})", "V"
        self.err(e, f"subscript not understood (base of type {xt}): {ast.unparse(e)}")
        return None

    def args(self, e, n, keywords=()):
        if len(e.args) != n or sorted(str(k.arg) for k in e.keywords) != sorted(keywords):
            self.err(e, f"{ast.unparse(e.func)}: {n} positional argument(s) and the keywords {list(keywords)} expected")
        return e.args

    def call(self, e):
        fn = ast.unparse(e.func)
        if fn == "np.where":
            if len(e.args) == 3:
                c, a, b = self.args(e, 3)
                return f"(np_where_vvv {self.typed(c, 'VB')[0]} {self.typed(a, 'V')[0]} {self.typed(b, 'V')[0]})", "V"
            (a,) = self.args(e, 1)
            c, t = self.typed(a, "VB", "MB")
            if t == "MB":
                self.err(e, "np.where of a 2-D array: only as `a, b = np.where(B)` or `X[np.where(B)] += c`")
            return f"(np_where1 {c})", "T1"
        if fn == "xr.where":
            c, a, b = self.args(e, 3)
            return f"(np_where_mss {self.typed(c, 'MB')[0]} {self.typed(a, 'Z')[0]} {self.typed(b, 'Z')[0]})", "M"
        if fn == "np.full":
            sh, v = self.args(e, 2)         # no dtype= : Python integers, unbounded here
            if not (isinstance(sh, ast.Tuple) and len(sh.elts) == 2):
                self.err(e, "np.full((n, m), v) expected")
            return f"(np_full2 {self.typed(sh.elts[0], 'Z')[0]} {self.typed(sh.elts[1], 'Z')[0]} {self.typed(v, 'Z')[0]})", "M"
        if fn == "np.arange":
            return f"(np_arange {self.typed(self.args(e, 1)[0], 'Z')[0]})", "V"
        if fn == "np.setdiff1d":
            a, b = self.args(e, 2)
            return f"(np_setdiff1d {self.typed(a, 'V')[0]} {self.typed(b, 'T1', 'V')[0]})", "V"
        if fn == "np.isnan":
            (a,) = self.args(e, 1)
            if not (self.cv and same(a, f'{self.cv}["cost_volume"].data')):
                self.err(e, 'np.isnan(<cv>["cost_volume"].data) expected')
            return f"(np_isnan3 (cv_cost_volume {self.coq(self.cv)}))", "Q3"
        if fn == "np.min":
            (a,) = self.args(e, 1, ["axis"])
            if intconst(e.keywords[0].value) != 2:
                self.err(e, "np.min(<volume>, axis=2) expected")
            return f"(np_min_axis2 {self.typed(a, 'Q3')[0]})", "MB"
        if fn == "binary_dilation":
            if self.mod.imports.get(fn) != "scipy.ndimage:binary_dilation":
                self.err(e, "binary_dilation is not scipy.ndimage.binary_dilation")
            (a,) = self.args(e, 1, ["structure", "iterations"])
            kw = {k.arg: k.value for k in e.keywords}
            st = kw["structure"]
            if not (isinstance(kw["iterations"], ast.Constant) and kw["iterations"].value == 1 and type(kw["iterations"].value) is int
                    and isinstance(st, ast.Call) and ast.unparse(st.func) == "np.ones" and len(st.args) == 1 and not st.keywords
                    and isinstance(st.args[0], ast.Tuple) and len(st.args[0].elts) == 2):
                self.err(e, "binary_dilation(B, structure=np.ones((a, b)), iterations=1) expected")
            return (f"(scipy_binary_dilation_ones {self.typed(a, 'MB')[0]} {self.typed(st.args[0].elts[0], 'Z')[0]} "
                    f"{self.typed(st.args[0].elts[1], 'Z')[0]})"), "MB"
        if fn == "len":
            (a,) = self.args(e, 1)
            if not (isinstance(a, ast.Call) and ast.unparse(a.func) == "range"):
                self.err(e, "len(range(a, b)) expected")
            lo, hi = self.args(a, 2)
            return f"(py_len_range {self.typed(lo, 'Z')[0]} {self.typed(hi, 'Z')[0]})", "Z"
        if isinstance(e.func, ast.Attribute) and e.func.attr == "astype":
            (a,) = self.args(e, 1)
            if not same(a, "np.uint16"):
                self.err(e, f"astype({ast.unparse(a)}): only np.uint16 is modelled")
            x, t = self.typed(e.func.value, "M", "MB")
            return f"(np_astype_u16 {x if t == 'M' else f'(np_b2i {x})'})", "M"
        if fn in self.mod.sigs and self.mod.sigs[fn][0] == "value":
            return self.call_translated(e, fn), "MB"
        self.err(e, f"call not understood: {ast.unparse(e)}")
        return None

    def call_translated(self, e, fn):
        _, ptypes, takes_mask = self.mod.sigs[fn]
        out = [f"g_{fn}", "K"]
        for a, pt in zip(self.args(e, len(ptypes)), ptypes):
            if pt in ("IMG", "CV"):
                if not (isinstance(a, ast.Name) and self.lookup(a) == pt):
                    self.err(e, f"{fn}: a dataset parameter ({pt}) expected, got {ast.unparse(a)}")
                out.append(self.coq(a.id))
                if pt == "CV" and takes_mask:
                    out.append(self.use_vm(e))
            else:
                out.append(self.typed(a, pt)[0])
        return "(" + " ".join(out) + ")"

    def test(self, e):
        c = e.comparators[0] if isinstance(e, ast.Compare) and len(e.ops) == 1 else None
        if (c is not None and isinstance(e.ops[0], ast.In) and isinstance(e.left, ast.Constant) and e.left.value == "msk"
                and isinstance(c, ast.Attribute) and c.attr == "data_vars" and isinstance(c.value, ast.Name) and self.lookup(c.value) == "IMG"):
            return f"(i_has_msk {self.coq(c.value.id)})"
        if not isinstance(e, ast.Compare):
            self.err(e, f"`if` test that is not a comparison: {ast.unparse(e)}")
        return self.scalar(e, "BOOL")

    def scalar(self, e, typ):
        """an `if` test / a range bound: no partial read"""
        c, _ = self.typed(e, typ)
        if self.guards:
            self.err(e, "partial read v[i] in an `if` test / a range bound")
        return c

    # ------------------------------------------------------------ statements
    def stmt(self, s, ind):
        self.guards = []
        if is_doc(s):
            return []
        if isinstance(s, ast.If):
            return self.stmt_if(s, ind)
        if isinstance(s, ast.For):
            return self.stmt_for(s, ind)
        if isinstance(s, ast.Assign) and len(s.targets) == 1:
            return self.assign(s, s.targets[0], s.value, ind)
        if isinstance(s, ast.AugAssign):
            return [self.augassign(s, ind)]
        if (isinstance(s, ast.Expr) and isinstance(s.value, ast.Call) and isinstance(s.value.func, ast.Name)
                and self.mod.sigs.get(s.value.func.id, ("",))[0] == "mask"):
            fn = s.value.func.id
            _, ptypes, takes_mask = self.mod.sigs[fn]
            if not (takes_mask and ptypes[:1] == ["CV"]):
                self.err(s, f"{fn} does not work in place on the validity mask of its first parameter")
            return [self.let(s, VM, self.call_translated(s.value, fn), "M", ind, None)]
        if isinstance(s, ast.Return):
            self.err(s, "return that is not the last statement of the function")
        self.err(s, f"statement not understood: {ast.unparse(s).splitlines()[0]}")
        return None

    def assign(self, s, t, v, ind):
        pad = "  " * ind
        if isinstance(t, ast.Name):
            if (isinstance(v, ast.Name) and v.id in self.fresh) or self.vm_form(v):
                self.err(s, f"{t.id} would be a second name of an array that is stored into (aliasing)")
            x, ty = self.expr(v)
            return [self.let(s, t.id, x, ty, ind, fresh=isinstance(v, ast.Call) and ast.unparse(v.func) == "np.full")]
        if isinstance(t, ast.Tuple) and len(t.elts) == 2 and all(isinstance(n, ast.Name) for n in t.elts):
            a, b = t.elts
            c = self.coq(self.cv) if self.cv else None
            if c and (same(v, f'{self.cv}.coords["disp"].data[[0, -1]]') or same(v, f'{self.cv}.coords["disp"].data[[0, -1]].astype(int)')):
                return [self.let(s, a.id, f"(cv_disp_first {c})", "Z", ind), self.let(s, b.id, f"(cv_disp_last {c})", "Z", ind)]
            if isinstance(v, ast.Call) and ast.unparse(v.func) == "xr.align":
                x, y = self.args(v, 2)
                if not (a.id == "_" and self.vm_form(x) == "da" and isinstance(y, ast.Subscript) and isinstance(y.value, ast.Name)
                        and self.lookup(y.value) == "IMG" and same(y.slice, '"msk"')):
                    self.err(s, '_, r = xr.align(<cv>["validity_mask"], <img>["msk"]) expected')
                self.use_vm(s)
                return [self.let(s, b.id, f"(xr_align_snd {c} {self.coq(y.value.id)})", "M", ind)]
            if isinstance(v, ast.Call) and ast.unparse(v.func) == "np.where":
                m, _ = self.typed(self.args(v, 1)[0], "MB")
                if self.depth or self.guards or a.id == b.id or f"{a.id}_{b.id}" in self.env:
                    self.err(s, "`a, b = np.where(B)` is understood at the top level of a function only, without partial reads, "
                                "with two names whose join a_b is not a local")
                self.bind(s, a.id, ("PART", (a.id, b.id)), False)
                self.bind(s, b.id, ("PART", (a.id, b.id)), False)
                return [f"{pad}let v_{a.id}_{b.id} := (np_where2 {m}) in"]
        if isinstance(t, ast.Subscript):
            key, x = self.store_base(s, t)
            sl = t.slice.elts if isinstance(t.slice, ast.Tuple) and len(t.slice.elts) == 2 else None
            if sl and all(isinstance(n, ast.Slice) for n in sl):
                bounds = " ".join(self.bound(n, b) for n in sl for b in (n.lower, n.upper))
                return [self.let(s, key, f"(np_setslice2_c {x} {bounds} {self.typed(v, 'Z')[0]})", "M", ind, None)]
            if sl and is_full(sl[0]) and not isinstance(sl[1], ast.Slice):
                idx, _ = self.typed(sl[1], "T1", "V")
                return [self.let(s, key, f"(np_cols_set_c {x} {idx} {self.typed(v, 'Z')[0]})", "M", ind, None)]
            if sl and self.pair(*sl):
                return [self.let(s, key, f"(np_put2 {x} {self.pair(*sl)} {self.typed(v, 'V')[0]})", "M", ind, None)]
        self.err(s, f"assignment not understood: {ast.unparse(s).splitlines()[0]}")
        return None

    def bound(self, sl, b):
        if sl.step is not None:
            self.err(sl, "slice with a step")
        return "None" if b is None else f"(Some {self.typed(b, 'Z')[0]})"

    def store_base(self, s, t):
        """the array X of a store X[...] (op)= e -> (key, coq name); X must be the pseudo-variable or fresh"""
        form = self.vm_form(t.value)
        if form == "data":
            return VM, self.use_vm(s)
        if form == "da":
            self.err(s, "store through the DataArray's own indexing (xarray indexing) is not modelled: .data expected")
        if isinstance(t.value, ast.Name) and self.lookup(t.value) == "M" and t.value.id in self.fresh:
            return t.value.id, self.coq(t.value.id)
        self.err(s, f"store into an array that may be aliased (neither <cv>[\"validity_mask\"].data nor a local np.full): {ast.unparse(t.value)}")
        return None

    def augassign(self, s, ind):
        if not isinstance(s.op, ast.Add):
            self.err(s, f"augmented assignment with the operator {type(s.op).__name__}: only += is modelled")
        t = s.target
        if self.vm_form(t):
            return self.let(s, VM, f"(np_iadd_mm {self.use_vm(s)} {self.typed(s.value, 'M')[0]})", "M", ind, None)
        if isinstance(t, ast.Subscript):
            key, x = self.store_base(s, t)
            sl = t.slice
            if isinstance(sl, ast.Tuple) and len(sl.elts) == 2 and is_full(sl.elts[0]) and not isinstance(sl.elts[1], ast.Slice):
                idx, _ = self.typed(sl.elts[1], "T1", "V")
                v, vt = self.typed(s.value, "Z", "M", "MB")
                rhs = (f"(np_cols_iadd_c {x} {idx} {v})" if vt == "Z" else
                       f"(np_cols_iadd_m {x} {idx} {v if vt == 'M' else f'(np_b2i {v})'})")
                return self.let(s, key, rhs, "M", ind, None)
            if isinstance(sl, ast.Call) and ast.unparse(sl.func) == "np.where":
                m, _ = self.typed(self.args(sl, 1)[0], "MB")
                return self.let(s, key, f"(np_iadd_where {x} {m} {self.typed(s.value, 'Z')[0]})", "M", ind, None)
        self.err(s, f"store not understood: {ast.unparse(s).splitlines()[0]}")
        return None

    def block(self, stmts, ind):
        """a nested block, from the current environment -> (keys assigned, lines, environment and fresh set at its end)"""
        saved, self.log = self.log, []
        self.depth += 1
        lines = [l for s in stmts for l in self.stmt(s, ind)]
        self.depth -= 1
        log, self.log = self.log, saved
        return log, lines, dict(self.env), set(self.fresh)

    def tuple_of(self, keys):
        return self.coq(keys[0]) if len(keys) == 1 else "(" + ", ".join(self.coq(k) for k in keys) + ")"

    def stmt_if(self, s, ind):
        pad = "  " * ind
        c = self.test(s.test)
        env0, fresh0 = dict(self.env), set(self.fresh)
        log_b, lines_b, env_b, fresh_b = self.block(s.body, ind + 2)
        self.env, self.fresh = dict(env0), set(fresh0)
        log_o, lines_o, env_o, fresh_o = self.block(s.orelse, ind + 2)
        keys = log_b + [k for k in log_o if k not in log_b]
        if not keys:
            self.err(s, "`if` that assigns nothing")
        self.env, self.fresh = env0, fresh0
        for k in keys:
            if k not in env_b or k not in env_o:
                self.err(s, f"{k} is not bound before the `if` and is assigned in one branch only")
            if env_b[k] != env_o[k] or env_b[k] not in BINDABLE:
                self.err(s, f"{k} has type {env_b[k]} after one branch and {env_o[k]} after the other")
            self.bind(s, k, env_b[k], (k in fresh_b and k in fresh_o) if k != VM else None)
        tup = self.tuple_of(keys)
        return ([f"{pad}let {tup if len(keys) == 1 else chr(39) + tup} :=", f"{pad}  if {c} then"] + lines_b
                + [f"{pad}    {tup}", f"{pad}  else"] + lines_o + [f"{pad}    {tup} in"])

    def stmt_for(self, s, ind):
        pad = "  " * ind
        it = s.iter
        if not (isinstance(s.target, ast.Name) and not s.orelse and isinstance(it, ast.Call) and ast.unparse(it.func) == "range"):
            self.err(s, "for <name> in range(a, b): (without else) expected")
        if self.loopvars:
            self.err(s, "nested for")
        var = s.target.id
        if var in self.env or var in self.mod.reserved or not var.isascii():
            self.err(s, f"the loop variable {var} is already bound")
        lo, hi = [self.scalar(a, "Z") for a in self.args(it, 2)]
        env0, fresh0 = dict(self.env), set(self.fresh)
        self.env[var] = "Z"
        self.loopvars.add(var)
        log, lines, env1, fresh1 = self.block(s.body, ind + 1)
        self.loopvars.discard(var)
        state = [k for k in log if k in env0]
        if not state:
            self.err(s, "loop that assigns no name bound before it")
        self.env, self.fresh = env0, fresh0
        for k in state:
            if env1[k] != env0[k] or env0[k] not in BINDABLE or (k in fresh1) != (k in fresh0):
                self.err(s, f"{k} changes type / freshness in the loop body ({env0[k]} -> {env1[k]})")
            self.bind(s, k, env0[k], None)
        tup = self.tuple_of(state)
        pat = tup if len(state) == 1 else "'" + tup
        return ([f"{pad}let {pat} := fold_left (fun {pat} {self.coq(var)} =>"] + lines
                + [f"{pad}  {tup}) (py_range {lo} {hi}) {tup} in"])

    # ------------------------------------------------------------ the function
    def definition(self):
        name, cv = self.fdef.name, self.cv
        body, lines = list(self.body), []
        if self.creates:
            self.guards = []
            lines.append(self.let(body[0], VM, self.expr(body[0].value.args[0])[0], "M", 1, None))
            body = body[1:]
        last = body[-1] if body and isinstance(body[-1], ast.Return) else None
        for s in (body[:-1] if last else body):
            lines += self.stmt(s, 1)
        if self.kind == "value":
            if not (last and isinstance(last.value, ast.Name) and self.lookup(last.value) == "MB"):
                self.err(last or self.fdef, "`return <name of a 2-D boolean array>` expected as the last statement")
            final, rtype, note = self.coq(last.value.id), "bmat", ""
        else:
            if not cv:
                self.err(self.fdef, "no cost-volume dataset parameter (cv / dataset: xr.Dataset)")
            if last is None:
                if not (isinstance(self.fdef.returns, ast.Constant) and self.fdef.returns.value is None):
                    self.err(self.fdef, "the function falls off its end and is not annotated -> None")
            elif not (last.value is not None and (same(last.value, cv) or self.vm_form(last.value) == "da")):
                self.err(last, f'return {cv} / return {cv}["validity_mask"] expected')
            final, rtype = self.use_vm(last or self.fdef), "imat"
            note = (f' (the result is {cv}["validity_mask"] of the returned dataset)' if self.creates else
                    f' (in place on {cv}["validity_mask"]: the result is that array afterwards)')
        ps = ["(K : cname -> Z)"]
        for p, ty in self.params:
            ps.append(f"({self.coq(p)} : {COQ_TYPE[ty]})")
            if ty == "CV" and self.takes_mask:
                ps.append(f"({W} : imat)")
        self.mod.sigs[name] = (self.kind, [ty for _, ty in self.params], self.takes_mask)
        return (f"(* {REL} {name}{note} *)\nDefinition g_{name} {' '.join(ps)} : {rtype} :=\n"
                + "".join(l + "\n" for l in lines) + f"  {final}.\n")


def main():
    mod = Module()
    parts, sources = [], []
    for name, kind in FUNCS:
        fdef = mod.function(name)
        parts.append(Tr(mod, fdef, kind).definition())
        sources.append(mod.source_info(fdef))
    body = ("From Coq Require Import ZArith List Bool.\nFrom Pandora Require Import Lib.NpCrit Model.Criteria.\n"
            "Import ListNotations.\nOpen Scope Z_scope.\n\n" + "\n".join(parts))
    path, changed = emit("CriteriaFns", body, sources)
    shas = " ".join(f"{n}={src[2][:8]}" for (n, _), src in zip(FUNCS, sources))
    print(f"gen_criteria_fns: {path} {'rewritten' if changed else 'unchanged'} fns={len(parts)} {shas}")


if __name__ == "__main__":
    try:
        main()
    except Exception as exc:  # fail closed, one line for the caller
        print(f"TRANSLATION-ERROR gen_criteria_fns: {type(exc).__name__}: {exc}")
        sys.exit(3)
