"""T-gen: coq/Gen/Tables.v from PandoraMachine._transitions_run/_transitions_check.

The tables are read from the imported class object (robust to harmless
rewrites of the literal), every entry is checked against the shapes the Coq
model knows; anything else is a TranslationError (fail closed)."""
import inspect
import sys

from common import emit, fail, sha1_of, REPO

KINDS = {
    "matching_cost": "MC", "aggregation": "Agg", "semantic_segmentation": "Seg", "optimization": "Opt",
    "disparity": "Dsp", "filter": "Flt", "refinement": "Ref", "validation": "Val", "multiscale": "Msc",
    "cost_volume_confidence": "Cvc",
}
STATES = {"begin": "Begin", "cost_volume": "CostVolume", "disp_map": "DispMap"}
ALLOWED_KEYS = {"trigger", "source", "dest", "prepare", "after", "conditions"}


def expected_callbacks(phase, kind):
    if phase == "PCheck":
        return {"after": kind + "_check_conf"}
    if kind == "multiscale":
        return {"after": "run_multiscale", "conditions": "is_not_last_scale"}
    if kind == "matching_cost":
        return {"after": "matching_cost_run", "prepare": "matching_cost_prepare"}
    return {"after": kind + "_run"}


def translate_table(table, phase, where):
    if not isinstance(table, (list, tuple)):
        fail(where, "table is not a list")
    out = []
    for i, ent in enumerate(table):
        w = f"{where}[{i}]"
        if not isinstance(ent, dict):
            fail(w, "entry is not a dict")
        extra = set(ent) - ALLOWED_KEYS
        if extra:
            fail(w, f"unknown keys {sorted(extra)}")
        for key in ("trigger", "source", "dest"):
            if not isinstance(ent.get(key), str):
                fail(w, f"{key} is not a string")
        trig = ent["trigger"]
        if phase == "PCheck":
            if not trig.startswith("check_"):
                fail(w, f"check trigger without check_ prefix: {trig}")
            trig = trig[len("check_"):]
        if trig not in KINDS:
            fail(w, f"unknown trigger {ent['trigger']}")
        if ent["source"] not in STATES or ent["dest"] not in STATES:
            fail(w, f"unknown state {ent['source']} -> {ent['dest']}")
        cbs = {k: ent[k] for k in ("prepare", "after", "conditions") if k in ent}
        cond = "false"
        if "conditions" in cbs:
            if cbs["conditions"] != "is_not_last_scale":
                fail(w, f"unknown condition {cbs['conditions']}")
            cond = "true"
            exp = dict(expected_callbacks(phase, trig))
            exp["conditions"] = "is_not_last_scale"
            # a condition on another entry than run/multiscale is representable (t_cond), keep it
            if phase == "PRun" and trig == "multiscale":
                pass
        exp = expected_callbacks(phase, trig)
        cbs_no_cond = {k: v for k, v in cbs.items() if k != "conditions"}
        exp_no_cond = {k: v for k, v in exp.items() if k != "conditions"}
        if cbs_no_cond != exp_no_cond:
            fail(w, f"callbacks {cbs_no_cond} differ from the wiring the model assumes {exp_no_cond}")
        out.append(f"mkT {phase} {KINDS[trig]} {STATES[ent['source']]} {STATES[ent['dest']]} {cond}")
    return out


def main():
    sys.path.insert(0, REPO)
    from pandora.state_machine import PandoraMachine  # pylint: disable=import-outside-toplevel

    src_file = inspect.getsourcefile(PandoraMachine)
    if not src_file.startswith(REPO):
        fail("import", f"pandora imported from {src_file}, not from {REPO}")
    run_t = translate_table(PandoraMachine._transitions_run, "PRun", "_transitions_run")
    chk_t = translate_table(PandoraMachine._transitions_check, "PCheck", "_transitions_check")
    body = "From Pandora Require Import Model.Machine.\nFrom Coq Require Import List.\nImport ListNotations.\n\n"
    body += "Definition run_table : list transition :=\n  [ " + ";\n    ".join(run_t) + " ].\n\n"
    body += "Definition check_table : list transition :=\n  [ " + ";\n    ".join(chk_t) + " ].\n"
    digest = sha1_of(repr(PandoraMachine._transitions_run) + repr(PandoraMachine._transitions_check))
    path, changed = emit("Tables", body, [(src_file, "_transitions_run/_transitions_check (class attributes)", digest)])
    print(f"gen_tables: {path} {'rewritten' if changed else 'unchanged'} run={len(run_t)} check={len(chk_t)}")


if __name__ == "__main__":
    try:
        main()
    except Exception as exc:  # fail closed, one line for the caller
        print(f"TRANSLATION-ERROR gen_tables: {type(exc).__name__}: {exc}")
        sys.exit(3)
