"""T-gen: coq/Gen/MsConst.v -- the constants of the multiscale step that the C15 theorems
instantiate: the chunk size of FixedZoomPyramid.disparity_range (ast: `chunk_size = <int>` and
both np.array_split calls splitting at np.arange(chunk_size, <n>, chunk_size)), the default
num_scales / scale_factor of the class, cst.PANDORA_MSK_PIXEL_INVALID.  Fail closed."""
import ast
import inspect
import sys
import textwrap

from common import emit, fail, sha1_of, REPO


def main():
    sys.path.insert(0, REPO)
    import pandora.constants as cst
    from pandora.multiscale.fixed_zoom_pyramid import FixedZoomPyramid

    path = inspect.getsourcefile(FixedZoomPyramid)
    if not path.startswith(REPO):
        fail("import", f"pandora imported from {path}, not from {REPO}")
    src = inspect.getsource(FixedZoomPyramid.disparity_range)
    lines, first = inspect.getsourcelines(FixedZoomPyramid.disparity_range)
    tree = ast.parse(textwrap.dedent(src))
    chunk = []
    splits = []
    for node in ast.walk(tree):
        if isinstance(node, ast.Assign) and len(node.targets) == 1 and isinstance(node.targets[0], ast.Name) \
                and node.targets[0].id == "chunk_size":
            if not (isinstance(node.value, ast.Constant) and isinstance(node.value.value, int)
                    and not isinstance(node.value.value, bool)):
                fail(f"{path}:{first + node.lineno - 1}", "chunk_size is not an integer literal")
            chunk.append(node.value.value)
        if isinstance(node, ast.Call) and isinstance(node.func, ast.Attribute) and node.func.attr == "array_split":
            where = f"{path}:{first + node.lineno - 1}"
            if len(node.args) != 2:
                fail(where, "np.array_split with an unknown argument shape")
            pts = node.args[1]
            ok = (isinstance(pts, ast.Call) and isinstance(pts.func, ast.Attribute) and pts.func.attr == "arange"
                  and len(pts.args) == 3 and isinstance(pts.args[0], ast.Name) and pts.args[0].id == "chunk_size"
                  and isinstance(pts.args[2], ast.Name) and pts.args[2].id == "chunk_size"
                  and isinstance(pts.args[1], ast.Name))
            if not ok:
                fail(where, "split points are not np.arange(chunk_size, <name>, chunk_size)")
            axis = [k.value.value for k in node.keywords if k.arg == "axis" and isinstance(k.value, ast.Constant)]
            if len(axis) != 1:
                fail(where, "np.array_split without a literal axis")
            splits.append((axis[0], pts.args[1].id))
    if len(chunk) != 1:
        fail(path, f"expected exactly one `chunk_size = <int>` in disparity_range, found {len(chunk)}")
    if sorted(a for a, _ in splits) != [0, 1]:
        fail(path, f"expected one np.array_split per axis in disparity_range, found {splits}")
    vals = {"ms_chunk_size": chunk[0]}
    for name, attr in (("ms_default_num_scales", "_PYRAMID_NUM_SCALES"), ("ms_default_scale_factor", "_PYRAMID_SCALE_FACTOR")):
        if not hasattr(FixedZoomPyramid, attr):
            fail(path, f"class constant {attr} is missing")
        vals[name] = getattr(FixedZoomPyramid, attr)
    vals["ms_invalid_bits"] = getattr(cst, "PANDORA_MSK_PIXEL_INVALID", None)
    body = "From Coq Require Import ZArith.\nOpen Scope Z_scope.\n"
    for k, v in vals.items():
        if not isinstance(v, int) or isinstance(v, bool):
            fail(path, f"{k} is not an int: {v!r}")
        body += f"Definition {k} : Z := {'(%d)' % v if v < 0 else v}.\n"
    _, changed = emit("MsConst", body, [(path, f"FixedZoomPyramid.disparity_range lines {first}-{first + len(lines) - 1}",
                                         sha1_of(src)),
                                        (inspect.getsourcefile(cst), "PANDORA_MSK_PIXEL_INVALID", sha1_of(inspect.getsource(cst)))])
    print(f"Gen/MsConst.v {'written' if changed else 'unchanged'}: {vals}")


if __name__ == "__main__":
    try:
        main()
    except Exception as exc:  # fail closed
        print(f"TranslationError: {exc}")
        sys.exit(3)
