"""T-gen: coq/Gen/BlockLoops.v -- the SKELETON of the hand-written double block loops, as data
(datatype and meaning: coq/Lib/BlockSkeleton.v).  Python `ast` only (pandora is not imported), fail closed.

    pandora/disparity/disparity.py            WinnerTakesAll.argmin_split / argmax_split
    pandora/filter/median.py                  MedianFilter.median_filter
    pandora/filter/bilateral.py               BilateralFilter.filter_bilateral
    pandora/multiscale/fixed_zoom_pyramid.py  FixedZoomPyramid.disparity_range

Each function must contain exactly two `for` loops, nested, the outer one at the top level of the function
(possibly inside `with warnings.catch_warnings():`), of the shape

    L1 = np.array_split(<SRC>, np.arange(<B>, <n1>, <B>), axis=<k1>)      top level, before the outer loop
    for blk_y in L1 | for i, blk_y in enumerate(L1) | for i in np.arange(len(L1)) (chunk = L1[i]):
        L2 = np.array_split(<chunk>, np.arange(<B>, <n2>, <B>), axis=<k2>)
        for blk_x in L2 | ... :
            <scalar> = <expr> | <scalar> += <expr> | <DST>[a:b, c:d] = <kernel>(<chunk>)
        ...

and what is emitted is a TRANSLITERATION, not an interpretation (whether it is the canonical loop is decided
in Coq by BlockSkeleton.skeleton_wf, re-proved by vm_compute at every run):
  * the two splits: source array, literal start / step (through one local `name = <int>`), the np.arange stop
    as <array>.shape[k] (through `a, b = <array>.shape`), the axis;
  * every assignment / augmented assignment to a NUMBERED name -- a name assigned somewhere inside the outer
    loop -- in source order, at the place where it stands: before the outer loop (sk_pre), in the outer body
    before the inner loop (sk_outer_pre), in the inner body (sk_inner_body), in the outer body after the inner
    loop (sk_outer_post).  Names are numbered by first occurrence in the slice bounds of the first write;
  * scalar expressions: integer literals, numbered names, <chunk>.shape[k], +, -, int(e / 2), the window size W
    of the sliding_window the source comes from; a name assigned exactly once outside the loops is replaced by
    its definition (radius, offset, chunk_size);
  * every write <DST>[a:b, c:d] = <value>: the four bounds, the kernel (one of six known shapes) and the array
    the kernel is applied to;
  * arrays are resolved through single-assignment names down to np.zeros / np.full_like / np.copy (fresh
    storage, identified by the variable), sliding_window(a, (W, W)) (a VIEW of a), or an expression over the
    parameters (numbered; `.data` of an xarray object is the object's array).
Any other statement inside the loops, any other loop header, a second assignment to a resolved name, a
numbered name assigned anywhere else (under an `if`, after the loops), an element store into one of the
arrays involved before the end of the loops: TranslationError naming file:line."""
import ast
import os
import sys

from common import emit, fail, sha1_of, REPO

TARGETS = [
    # (coq name, file, class, function)
    ("argmin_split", "pandora/disparity/disparity.py", "WinnerTakesAll", "argmin_split"),
    ("argmax_split", "pandora/disparity/disparity.py", "WinnerTakesAll", "argmax_split"),
    ("median_filter", "pandora/filter/median.py", "MedianFilter", "median_filter"),
    ("filter_bilateral", "pandora/filter/bilateral.py", "BilateralFilter", "filter_bilateral"),
    ("disparity_range", "pandora/multiscale/fixed_zoom_pyramid.py", "FixedZoomPyramid", "disparity_range"),
]


def zlit(n):
    return f"({n})" if n < 0 else str(n)


def is_np(node, name):
    return (isinstance(node, ast.Call) and isinstance(node.func, ast.Attribute) and node.func.attr == name
            and isinstance(node.func.value, ast.Name) and node.func.value.id == "np")


def dump(node):
    return ast.dump(node, annotate_fields=False, include_attributes=False)


class Fn:
    """one function"""

    def __init__(self, path, fdef, src):
        self.path = path
        self.fdef = fdef
        self.src = src
        self.params = [a.arg for a in fdef.args.args + fdef.args.kwonlyargs]
        # every binding of a plain name in the function: name -> [(statement, kind, value)]
        self.bind = {}
        for node in ast.walk(fdef):
            if isinstance(node, ast.Assign):
                for t in node.targets:
                    self._bind_target(t, node, node.value)
            elif isinstance(node, ast.AugAssign):
                if isinstance(node.target, ast.Name):
                    self.bind.setdefault(node.target.id, []).append((node, "aug", node.value))
            elif isinstance(node, ast.AnnAssign):
                if isinstance(node.target, ast.Name):
                    self.bind.setdefault(node.target.id, []).append((node, "other", node.value))
            elif isinstance(node, (ast.For, ast.comprehension)):
                for n in ast.walk(node.target):
                    if isinstance(n, ast.Name):
                        self.bind.setdefault(n.id, []).append((node, "loop", None))
            elif isinstance(node, (ast.With,)):
                for it in node.items:
                    if it.optional_vars is not None:
                        for n in ast.walk(it.optional_vars):
                            if isinstance(n, ast.Name):
                                self.bind.setdefault(n.id, []).append((node, "other", None))
            elif isinstance(node, ast.NamedExpr):
                self.bind.setdefault(node.target.id, []).append((node, "other", node.value))
            elif isinstance(node, (ast.FunctionDef, ast.Lambda, ast.ClassDef, ast.Global, ast.Nonlocal)) and node is not fdef:
                self.err(node, "nested function / class / global declaration")
        self.opaque = []      # texts of the opaque array expressions, index = id
        self.avars = []       # names of the allocated array variables, index = id
        self.win = None       # (dump, text) of the window size W
        self.svars = []       # numbered scalar names

    def _bind_target(self, t, stmt, value):
        if isinstance(t, ast.Name):
            self.bind.setdefault(t.id, []).append((stmt, "plain", value))
        elif isinstance(t, (ast.Tuple, ast.List)):
            for i, e in enumerate(t.elts):
                if isinstance(e, ast.Name):
                    self.bind.setdefault(e.id, []).append((stmt, "unpack", (value, i, len(t.elts))))
                elif not isinstance(e, (ast.Subscript, ast.Attribute)):
                    self.err(stmt, "unsupported assignment target")
        elif isinstance(t, ast.Starred):
            self.err(stmt, "starred assignment target")

    def err(self, node, msg):
        fail(f"{self.path}:{getattr(node, 'lineno', '?')}", msg)

    def text(self, node):
        return ast.unparse(node)

    # ---------------------------------------------------------------- names
    def single(self, name, node):
        """the unique binding of a name that is not a parameter"""
        # the function is straight-line code apart from the two loops: a binding textually after the end of the
        # outer loop cannot reach the loops
        b = [x for x in self.bind.get(name, []) if x[0].lineno <= self.outer.end_lineno]
        if name in self.params:
            if b:
                self.err(b[0][0], f"parameter {name} is re-assigned")
            return None
        if len(b) != 1:
            self.err(node, f"name {name} is bound {len(b)} times before the end of the loops (exactly one plain assignment expected)")
        return b[0]

    # ---------------------------------------------------------------- arrays
    def opaque_id(self, node):
        t = self.text(node)
        for n in ast.walk(node):
            if isinstance(n, ast.Name) and n.id not in self.params and n.id not in ("self", "np"):
                # a local name inside an opaque expression: it must itself be bound once (so the text denotes one value)
                self.single(n.id, node)
        if t not in self.opaque:
            self.opaque.append(t)
        return self.opaque.index(t)

    def avar_id(self, name):
        if name not in self.avars:
            self.avars.append(name)
        return self.avars.index(name)

    def array(self, node, chunks):
        """aexp of an array expression; chunks: {'outer': matcher, 'inner': matcher}"""
        for which, m in chunks.items():
            if m is not None and m(node):
                return f"(AChunk {'COuter' if which == 'outer' else 'CInner'})"
        if isinstance(node, ast.Attribute) and node.attr == "data":
            return self.array(node.value, chunks)
        if isinstance(node, ast.Name):
            b = self.single(node.id, node)
            if b is None:
                return f"(AOpaque {self.opaque_id(node)})"
            stmt, kind, value = b
            if kind != "plain":
                self.err(stmt, f"array name {node.id} is not bound by a plain assignment")
            return self.alloc(node.id, value, chunks)
        if isinstance(node, (ast.Subscript, ast.Attribute, ast.Call)):
            return f"(AOpaque {self.opaque_id(node)})"
        self.err(node, f"unsupported array expression {self.text(node)}")
        return None

    def alloc(self, name, value, chunks):
        if is_np(value, "copy") and len(value.args) == 1 and not value.keywords:
            return f"(ACopy {self.avar_id(name)} {self.array(value.args[0], chunks)})"
        if (isinstance(value, ast.Call) and isinstance(value.func, ast.Attribute) and value.func.attr == "copy"
                and not value.args and not value.keywords):
            return f"(ACopy {self.avar_id(name)} {self.array(value.func.value, chunks)})"
        if is_np(value, "zeros"):
            return f"(AZeros {self.avar_id(name)})"
        if is_np(value, "full_like"):
            return f"(AFullLike {self.avar_id(name)})"
        if isinstance(value, ast.Call) and isinstance(value.func, ast.Name) and value.func.id == "sliding_window":
            if len(value.args) != 2 or value.keywords or not isinstance(value.args[1], ast.Tuple) \
                    or len(value.args[1].elts) != 2:
                self.err(value, "sliding_window(a, (W, W)) expected")
            w0, w1 = value.args[1].elts
            if dump(w0) != dump(w1):
                self.err(value, "sliding_window with a non-square window")
            if self.win is not None and self.win[0] != dump(w0):
                self.err(value, "two sliding_window calls with different window sizes")
            self.win = (dump(w0), self.text(w0))
            return f"(AWindows {self.array(value.args[0], chunks)})"
        if isinstance(value, ast.Name) or (isinstance(value, ast.Attribute) and value.attr == "data"):
            return self.array(value, chunks)       # an alias
        return f"(AOpaque {self.opaque_id(value)})"

    def array_root_names(self, node, acc):
        """the local / parameter names an array expression goes through (for the element-store check)"""
        if isinstance(node, ast.Attribute) and node.attr == "data":
            self.array_root_names(node.value, acc)
        elif isinstance(node, ast.Name):
            if node.id in acc:
                return
            acc.add(node.id)
            b = [x for x in self.bind.get(node.id, []) if x[0].lineno <= self.outer.end_lineno]
            if len(b) == 1 and b[0][1] == "plain" and b[0][2] is not None:
                v = b[0][2]
                if isinstance(v, ast.Call):
                    for a in v.args[:1]:
                        self.array_root_names(a, acc)
                    if isinstance(v.func, ast.Attribute) and v.func.attr == "copy":
                        self.array_root_names(v.func.value, acc)
                else:
                    self.array_root_names(v, acc)
        else:
            for n in ast.walk(node):
                if isinstance(n, ast.Name) and n.id not in ("np", "self"):
                    acc.add(n.id)

    # ---------------------------------------------------------------- scalars
    def int_literal(self, node):
        if isinstance(node, ast.Constant) and isinstance(node.value, int) and not isinstance(node.value, bool):
            return node.value
        if isinstance(node, ast.Name):
            b = self.single(node.id, node)
            if b is None or b[1] != "plain":
                self.err(node, f"{node.id} is not a local integer literal")
            return self.int_literal(b[2])
        self.err(node, f"integer literal (or a local name for one) expected, found {self.text(node)}")
        return None

    def is_numbered(self, name):
        return name in self.numbered

    def svar(self, name):
        if name not in self.svars:
            self.svars.append(name)
        return self.svars.index(name)

    def expr(self, node, chunks):
        if isinstance(node, ast.Constant) and isinstance(node.value, int) and not isinstance(node.value, bool):
            return f"(EConst {zlit(node.value)})"
        if self.win is not None and dump(node) == self.win[0]:
            return "EWin"
        if isinstance(node, ast.Name):
            if self.is_numbered(node.id):
                return f"(EVar {self.svar(node.id)})"
            b = self.single(node.id, node)
            if b is None:
                self.err(node, f"parameter {node.id} in a bookkeeping expression")
            stmt, kind, value = b
            if kind != "plain":
                self.err(node, f"name {node.id} is not bound by a plain assignment")
            if not stmt.lineno < self.outer.lineno:
                self.err(stmt, f"{node.id} is assigned after the loops start")
            return self.expr(value, chunks)
        if isinstance(node, ast.BinOp) and isinstance(node.op, (ast.Add, ast.Sub)):
            c = "EAdd" if isinstance(node.op, ast.Add) else "ESub"
            return f"({c} {self.expr(node.left, chunks)} {self.expr(node.right, chunks)})"
        if (isinstance(node, ast.Call) and isinstance(node.func, ast.Name) and node.func.id == "int"
                and len(node.args) == 1 and not node.keywords and isinstance(node.args[0], ast.BinOp)
                and isinstance(node.args[0].op, ast.Div) and isinstance(node.args[0].right, ast.Constant)
                and node.args[0].right.value == 2 and not isinstance(node.args[0].right.value, bool)
                and isinstance(node.args[0].right.value, int)):
            return f"(EIntHalf {self.expr(node.args[0].left, chunks)})"
        if (isinstance(node, ast.Subscript) and isinstance(node.value, ast.Attribute) and node.value.attr == "shape"
                and isinstance(node.slice, ast.Constant) and isinstance(node.slice.value, int)
                and not isinstance(node.slice.value, bool) and node.slice.value >= 0):
            for which, m in chunks.items():
                if m is not None and m(node.value.value):
                    return f"(EShape {'COuter' if which == 'outer' else 'CInner'} {node.slice.value})"
        self.err(node, f"unsupported bookkeeping expression {self.text(node)}")
        return None

    def dim(self, node):
        """np.arange stop -> DimShape"""
        if isinstance(node, ast.Name):
            b = self.single(node.id, node)
            if b is None or b[1] != "unpack":
                self.err(node, f"np.arange stop {node.id} is not bound by `a, b = <array>.shape`")
            value, idx, _ = b[2]
            if not (isinstance(value, ast.Attribute) and value.attr == "shape"):
                self.err(b[0], f"{node.id} is not unpacked from <array>.shape")
            return f"(DimShape {self.array(value.value, {})} {idx})"
        if (isinstance(node, ast.Subscript) and isinstance(node.value, ast.Attribute) and node.value.attr == "shape"
                and isinstance(node.slice, ast.Constant) and isinstance(node.slice.value, int)):
            return f"(DimShape {self.array(node.value.value, {})} {node.slice.value})"
        self.err(node, f"np.arange stop {self.text(node)} is not a dimension of an array")
        return None

    def split(self, call, chunks):
        if not is_np(call, "array_split"):
            self.err(call, "np.array_split(...) expected")
        if len(call.args) != 2:
            self.err(call, "np.array_split without exactly two positional arguments")
        pts = call.args[1]
        if not is_np(pts, "arange") or len(pts.args) != 3 or pts.keywords:
            self.err(call, "split points are not np.arange(start, stop, step)")
        if len(call.keywords) != 1 or call.keywords[0].arg != "axis" or not isinstance(call.keywords[0].value, ast.Constant) \
                or not isinstance(call.keywords[0].value.value, int) or isinstance(call.keywords[0].value.value, bool):
            self.err(call, "np.array_split without a literal axis= keyword")
        return (f"(mkSplit {self.array(call.args[0], chunks)} {zlit(self.int_literal(pts.args[0]))} "
                f"{self.dim(pts.args[1])} {zlit(self.int_literal(pts.args[2]))} {zlit(call.keywords[0].value.value)})")

    # ---------------------------------------------------------------- kernels
    def kernel(self, value, chunks):
        """(kernel constructor, aexp of the array it is applied to)"""
        def axis_kw(call, want):
            return (len(call.args) == 1 and len(call.keywords) == 1 and call.keywords[0].arg == "axis"
                    and dump(call.keywords[0].value) == dump(ast.parse(want, mode="eval").body))

        def marge(n):
            return (isinstance(n, ast.Attribute) and n.attr == "_marge" and isinstance(n.value, ast.Name)
                    and n.value.id == "self")

        if isinstance(value, ast.Subscript) and self.text(value.value) == "cost_volume.coords['disp'].data":
            for fn, k in (("argmin", "KArgminLookup"), ("argmax", "KArgmaxLookup")):
                if is_np(value.slice, fn) and axis_kw(value.slice, "2"):
                    return k, self.array(value.slice.args[0], chunks)
        if is_np(value, "nanmedian") and axis_kw(value, "(2, 3)"):
            return "KNanMedian", self.array(value.args[0], chunks)
        if (isinstance(value, ast.Call) and isinstance(value.func, ast.Attribute) and value.func.attr == "bilateral_kernel"
                and isinstance(value.func.value, ast.Name) and value.func.value.id == "self" and len(value.args) == 4
                and not value.keywords):
            for a in value.args[1:]:
                for n in ast.walk(a):
                    if isinstance(n, ast.Name) and (self.is_numbered(n.id) or any(
                            m is not None and m(n) for m in chunks.values())):
                        self.err(value, "bilateral_kernel given a loop variable beside the chunk")
            return "KBilateral", self.array(value.args[0], chunks)
        if isinstance(value, ast.BinOp) and marge(value.right):
            if isinstance(value.op, ast.Sub) and is_np(value.left, "nanmin") and axis_kw(value.left, "(2, 3)"):
                return "KNanMinMinusMarge", self.array(value.left.args[0], chunks)
            if isinstance(value.op, ast.Add) and is_np(value.left, "nanmax") and axis_kw(value.left, "(2, 3)"):
                return "KNanMaxPlusMarge", self.array(value.left.args[0], chunks)
        self.err(value, f"unknown kernel expression {self.text(value)}")
        return None


def flatten(body, fn):
    """top-level statements, `with warnings.catch_warnings():` being transparent"""
    out = []
    for s in body:
        if isinstance(s, ast.With):
            ok = (len(s.items) == 1 and s.items[0].optional_vars is None
                  and ast.unparse(s.items[0].context_expr) == "warnings.catch_warnings()")
            if not ok and any(isinstance(n, ast.For) for n in ast.walk(s)):
                fn.err(s, "a loop inside an unknown `with` block")
            if ok:
                out += flatten(s.body, fn)
                continue
        out.append(s)
    return out


def ignorable(s):
    """statements of a loop body that are no part of the bookkeeping"""
    if isinstance(s, ast.Expr) and isinstance(s.value, ast.Constant) and isinstance(s.value.value, str):
        return True
    if isinstance(s, ast.Expr) and ast.unparse(s.value).startswith("warnings.filterwarnings("):
        return True
    return isinstance(s, ast.Pass)


def loop_header(fn, loop):
    """(list name, chunk matcher, names bound by the header)"""
    if loop.orelse:
        fn.err(loop, "for ... else")
    it, tg = loop.iter, loop.target
    if isinstance(it, ast.Name) and isinstance(tg, ast.Name):
        name = tg.id
        return it.id, (lambda n: isinstance(n, ast.Name) and n.id == name), [name]
    if (isinstance(it, ast.Call) and isinstance(it.func, ast.Name) and it.func.id == "enumerate" and len(it.args) == 1
            and not it.keywords and isinstance(it.args[0], ast.Name) and isinstance(tg, ast.Tuple) and len(tg.elts) == 2
            and all(isinstance(e, ast.Name) for e in tg.elts)):
        name = tg.elts[1].id
        return it.args[0].id, (lambda n: isinstance(n, ast.Name) and n.id == name), [tg.elts[0].id, name]
    rng = (is_np(it, "arange") or (isinstance(it, ast.Call) and isinstance(it.func, ast.Name) and it.func.id == "range"))
    if (rng and len(it.args) == 1 and not it.keywords and isinstance(it.args[0], ast.Call)
            and isinstance(it.args[0].func, ast.Name) and it.args[0].func.id == "len" and len(it.args[0].args) == 1
            and isinstance(it.args[0].args[0], ast.Name) and isinstance(tg, ast.Name)):
        lst, idx = it.args[0].args[0].id, tg.id
        return lst, (lambda n: isinstance(n, ast.Subscript) and isinstance(n.value, ast.Name) and n.value.id == lst
                     and isinstance(n.slice, ast.Name) and n.slice.id == idx), [idx]
    fn.err(loop, f"unknown loop header `for {ast.unparse(tg)} in {ast.unparse(it)}` (a loop over the list returned by "
                 f"np.array_split expected)")
    return None


def scalar_stmt(fn, s, chunks):
    """SAssign / SAug of a numbered name, else None"""
    if isinstance(s, ast.Assign) and len(s.targets) == 1 and isinstance(s.targets[0], ast.Name) \
            and fn.is_numbered(s.targets[0].id):
        return f"SAssign {fn.svar(s.targets[0].id)} {fn.expr(s.value, chunks)}"
    if isinstance(s, ast.AugAssign) and isinstance(s.target, ast.Name) and fn.is_numbered(s.target.id):
        if not isinstance(s.op, ast.Add):
            fn.err(s, "augmented assignment other than +=")
        return f"SAug {fn.svar(s.target.id)} {fn.expr(s.value, chunks)}"
    return None


def translate(path, cls, fname):
    full = os.path.join(REPO, path)
    with open(full) as f:
        src = f.read()
    tree = ast.parse(src)
    fdef = None
    for node in tree.body:
        if isinstance(node, ast.ClassDef) and node.name == cls:
            for sub in node.body:
                if isinstance(sub, ast.FunctionDef) and sub.name == fname:
                    fdef = sub
    if fdef is None:
        fail(path, f"function {cls}.{fname} not found")
    fn = Fn(path, fdef, src)
    loops = [n for n in ast.walk(fdef) if isinstance(n, (ast.For, ast.While, ast.AsyncFor))]
    comps = [n for n in ast.walk(fdef) if isinstance(n, (ast.ListComp, ast.GeneratorExp, ast.SetComp, ast.DictComp))]
    if comps:
        fn.err(comps[0], "comprehension in a block-loop function")
    top = flatten(fdef.body, fn)
    outers = [s for s in top if isinstance(s, ast.For)]
    if len(loops) != 2 or len(outers) != 1:
        fn.err(fdef, f"expected exactly two nested `for` loops with the outer one at the top level of the function, found "
                     f"{len(loops)} loop(s), {len(outers)} at the top level"
                     + "".join(f"; line {l.lineno}: for {ast.unparse(l.target)} in {ast.unparse(l.iter)}"
                               for l in loops if isinstance(l, ast.For)))
    outer = outers[0]
    fn.outer = outer
    inners = [s for s in outer.body if isinstance(s, ast.For)]
    if len(inners) != 1:
        fn.err(outer, "the outer loop body does not contain exactly one `for` loop at its top level")
    inner = inners[0]
    # numbered names: assigned somewhere inside the outer loop (loop targets excluded), or by an augmented assignment
    olist, ochunk, obound = loop_header(fn, outer)
    ilist, ichunk, ibound = loop_header(fn, inner)
    fn.numbered = set()
    for name, bs in fn.bind.items():
        for stmt, kind, _ in bs:
            inside = outer.lineno <= stmt.lineno <= outer.end_lineno
            if kind == "aug" or (inside and kind in ("plain", "unpack", "other")):
                fn.numbered.add(name)
    if ilist in fn.numbered:
        fn.numbered.discard(ilist)
    for n in obound + ibound:
        if len([x for x in fn.bind.get(n, []) if x[0].lineno <= outer.end_lineno]) != 1:
            fn.err(outer, f"loop variable {n} is bound elsewhere too")
    chunks_outer = {"outer": ochunk, "inner": None}
    chunks_inner = {"outer": ochunk, "inner": ichunk}

    # the outer split: top level, before the outer loop
    ob = fn.single(olist, outer)
    if ob is None or ob[1] != "plain" or ob[0] not in top or not ob[0].lineno < outer.lineno:
        fn.err(outer, f"{olist} is not assigned once, at the top level, before the loop")
    outer_split = fn.split(ob[2], {})
    # the inner split: in the outer body, before the inner loop
    ib = fn.single(ilist, inner)
    if ib is None or ib[1] != "plain" or ib[0] not in outer.body or not ib[0].lineno < inner.lineno:
        fn.err(inner, f"{ilist} is not assigned once, in the outer loop body, before the inner loop")
    inner_split = fn.split(ib[2], chunks_outer)

    # the writes first (they number the names)
    writes = {}
    for s in inner.body:
        if isinstance(s, ast.Assign) and len(s.targets) == 1 and isinstance(s.targets[0], ast.Subscript):
            t = s.targets[0]
            sl = t.slice
            if not (isinstance(sl, ast.Tuple) and len(sl.elts) == 2 and all(
                    isinstance(e, ast.Slice) and e.lower is not None and e.upper is not None and e.step is None
                    for e in sl.elts)):
                fn.err(s, "write target is not <array>[a:b, c:d]")
            bounds = [fn.expr(e, chunks_inner) for e in (sl.elts[0].lower, sl.elts[0].upper, sl.elts[1].lower, sl.elts[1].upper)]
            target = fn.array(t.value, chunks_inner)
            k, arg = fn.kernel(s.value, chunks_inner)
            writes[id(s)] = f"SWrite (mkWrite {target} {' '.join(bounds)} {k} {arg})"
    if not writes:
        fn.err(inner, "no slice write <array>[a:b, c:d] = ... in the inner loop body")

    def body_stmts(stmts, chunks, skip, where):
        out = []
        for s in stmts:
            if s in skip or ignorable(s):
                continue
            if id(s) in writes:
                out.append(writes[id(s)])
                continue
            t = scalar_stmt(fn, s, chunks)
            if t is None:
                fn.err(s, f"unsupported statement in the {where}: {ast.unparse(s).splitlines()[0]}")
            out.append(t)
        return out

    inner_body = body_stmts(inner.body, chunks_inner, [], "inner loop body")
    k_inner = outer.body.index(inner)
    outer_pre = body_stmts(outer.body[:k_inner], chunks_outer, [ib[0]], "outer loop body")
    outer_post = body_stmts(outer.body[k_inner + 1:], chunks_inner, [], "outer loop body")
    pre = []
    k_outer = top.index(outer)
    placed = set()
    for s in top[:k_outer]:
        t = scalar_stmt(fn, s, {})
        if t is not None:
            pre.append(t)
            placed.add(id(s))
    for s in list(inner.body) + list(outer.body):
        placed.add(id(s))
    # every binding of a numbered name stands at one of the four places
    for name in sorted(fn.numbered):
        for stmt, kind, _ in fn.bind[name]:
            if id(stmt) not in placed and stmt.lineno <= outer.end_lineno:
                fn.err(stmt, f"{name} is assigned at a place the skeleton does not describe (under an if / with)")
    # no element store into an array involved, before the end of the loops, other than the recognised writes
    involved = set()
    fn.array_root_names(ob[2].args[0], involved)
    for s in inner.body:
        if id(s) in writes:
            fn.array_root_names(s.targets[0].value, involved)
    for node in ast.walk(fdef):
        tg = []
        if isinstance(node, ast.Assign):
            tg = node.targets
        elif isinstance(node, ast.AugAssign):
            tg = [node.target]
        for t in tg:
            for e in (t.elts if isinstance(t, (ast.Tuple, ast.List)) else [t]):
                if isinstance(e, (ast.Subscript, ast.Attribute)) and id(node) not in writes \
                        and node.lineno <= outer.end_lineno:
                    base = e
                    while isinstance(base, (ast.Subscript, ast.Attribute)):
                        base = base.value
                    if isinstance(base, ast.Name) and base.id in involved:
                        fn.err(node, f"element store into {base.id} before the end of the block loops")
    seg = ast.get_source_segment(src, fdef) or ""
    lst = lambda l: "[" + "; ".join(l) + "]"  # noqa: E731
    term = (f"mkSkeleton\n    {outer_split}\n    {inner_split}\n    {lst(pre)}\n    {lst(outer_pre)}\n"
            f"    {lst(inner_body)}\n    {lst(outer_post)}")
    legend = (f"   numbered names: {', '.join(f'{i} = {n}' for i, n in enumerate(fn.svars)) or '-'}\n"
              f"   allocated arrays: {', '.join(f'{i} = {n}' for i, n in enumerate(fn.avars)) or '-'}\n"
              f"   opaque arrays: {', '.join(f'{i} = {n}' for i, n in enumerate(fn.opaque)) or '-'}\n"
              f"   window size W: {fn.win[1] if fn.win else '-'}")
    legend = legend.replace("(*", "( *").replace("*)", "* )")
    return term, legend, (full, f"{cls}.{fname} lines {fdef.lineno}-{fdef.end_lineno}", sha1_of(seg)), len(writes)


def main():
    body = ("From Coq Require Import ZArith List.\nFrom Pandora Require Import Lib.BlockSkeleton.\n"
            "Import ListNotations.\nOpen Scope Z_scope.\n")
    sources = []
    summary = []
    for name, path, cls, fname in TARGETS:
        term, legend, srcinfo, nw = translate(path, cls, fname)
        body += f"\n(* {path} {cls}.{fname}\n{legend} *)\nDefinition {name} : skeleton :=\n  {term}.\n"
        sources.append(srcinfo)
        summary.append(f"{name}:{nw}w")
    path, changed = emit("BlockLoops", body, sources)
    print(f"gen_block_loops: {path} {'rewritten' if changed else 'unchanged'} {' '.join(summary)}")


if __name__ == "__main__":
    try:
        main()
    except Exception as exc:  # fail closed, one line for the caller
        print(f"TRANSLATION-ERROR gen_block_loops: {type(exc).__name__}: {exc}")
        sys.exit(3)
