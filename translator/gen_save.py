"""T-gen: coq/Gen/SavePlan.v from pandora/common.py save_results (ast: the sequence of
write_data_array calls with their guards and keyword arguments), the default dtype of
write_data_array (signature) and pandora/output_tree_design.py OTD (import).
Fail closed on every statement / argument shape that is not known."""
import ast
import inspect
import sys
import textwrap

from common import emit, fail, sha1_of, REPO

SIDES = {"left": "SLeft", "right": "SRight"}
VARS = {"disparity_map": "VDisp", "confidence_measure": "VConf", "validity_mask": "VMask"}
DTYPES = {"float32": "F32", "uint16": "U16"}


def coq_str(s):
    if not isinstance(s, str) or any(ord(c) < 32 or ord(c) > 126 or c == '"' for c in s):
        fail("string", f"not a plain ASCII string: {s!r}")
    return '"' + s + '"'


def side_var(node, where):
    """<side>["<var>"] -> (side, var)"""
    if not (isinstance(node, ast.Subscript) and isinstance(node.value, ast.Name) and node.value.id in SIDES
            and isinstance(node.slice, ast.Constant) and node.slice.value in VARS):
        fail(where, f"expected left|right[\"<variable>\"], got {ast.unparse(node)}")
    return node.value.id, node.slice.value


def attrs_of(node, what, where):
    """<side>.attrs["<what>"] -> side"""
    if not (isinstance(node, ast.Subscript) and isinstance(node.slice, ast.Constant) and node.slice.value == what
            and isinstance(node.value, ast.Attribute) and node.value.attr == "attrs"
            and isinstance(node.value.value, ast.Name) and node.value.value.id in SIDES):
        fail(where, f"expected <side>.attrs[\"{what}\"], got {ast.unparse(node)}")
    return node.value.value.id


def dtype_of(node, where):
    name = node.attr if isinstance(node, ast.Attribute) else (node.value if isinstance(node, ast.Constant) else None)
    if name not in DTYPES:
        fail(where, f"unknown dtype {ast.unparse(node)}")
    return name


def parse_call(node, default_dtype, guard, right_guard, path):
    where = f"{path}:{node.lineno}"
    if not (isinstance(node, ast.Call) and isinstance(node.func, ast.Name) and node.func.id == "write_data_array"):
        fail(where, f"expected a write_data_array call, got {ast.unparse(node)}")
    if len(node.args) != 2:
        fail(where, "expected two positional arguments (data_array, filename)")
    side, var = side_var(node.args[0], where)
    fn = node.args[1]
    ok = (isinstance(fn, ast.Call) and ast.unparse(fn.func) == "os.path.join" and len(fn.args) == 2 and not fn.keywords
          and isinstance(fn.args[0], ast.Name) and fn.args[0].id == "output"
          and isinstance(fn.args[1], ast.Call) and ast.unparse(fn.args[1].func) == "get_out_file_path"
          and len(fn.args[1].args) == 1 and isinstance(fn.args[1].args[0], ast.Constant)
          and isinstance(fn.args[1].args[0].value, str))
    if not ok:
        fail(where, f"expected os.path.join(output, get_out_file_path(\"<key>\")), got {ast.unparse(fn)}")
    key = fn.args[1].args[0].value
    dtype, names, crs, transform = default_dtype, False, None, None
    for kw in node.keywords:
        if kw.arg == "dtype":
            dtype = dtype_of(kw.value, where)
        elif kw.arg == "crs":
            crs = attrs_of(kw.value, "crs", where)
        elif kw.arg == "transform":
            transform = attrs_of(kw.value, "transform", where)
        elif kw.arg == "band_names":
            v = kw.value
            if not (isinstance(v, ast.Attribute) and v.attr == "data" and isinstance(v.value, ast.Subscript)
                    and isinstance(v.value.slice, ast.Constant) and v.value.slice.value == "indicator"
                    and side_var(v.value.value, where) == (side, var)):
                fail(where, f"expected band_names={side}[\"{var}\"][\"indicator\"].data, got {ast.unparse(v)}")
            names = True
        else:
            fail(where, f"unknown keyword {kw.arg}")
    if crs is None or transform is None or crs != transform:
        fail(where, "crs= and transform= must both be given, from the same dataset")
    if guard is not None and guard[0] != side:
        fail(where, f"guard tests {guard[0]} but the call writes {side}")
    g = f"(Some {VARS[guard[1]]})" if guard is not None else "None"
    return (f"mkCall {SIDES[side]} {VARS[var]} {coq_str(key)} {DTYPES[dtype]} {'true' if names else 'false'} "
            f"{SIDES[crs]} {g} {'true' if right_guard else 'false'}")


def walk(stmts, default_dtype, guard, right_guard, path, out):
    for st in stmts:
        where = f"{path}:{st.lineno}"
        if isinstance(st, ast.Expr) and isinstance(st.value, ast.Constant) and isinstance(st.value.value, str):
            continue  # docstring
        if isinstance(st, ast.Expr) and isinstance(st.value, ast.Call) and ast.unparse(st.value) == "mkdir_p(output)":
            continue
        if isinstance(st, ast.Expr):
            out.append(parse_call(st.value, default_dtype, guard, right_guard, path))
            continue
        if isinstance(st, ast.If) and not st.orelse:
            t = st.test
            if (isinstance(t, ast.Compare) and len(t.ops) == 1 and isinstance(t.ops[0], ast.In)
                    and isinstance(t.left, ast.Constant) and t.left.value in VARS
                    and isinstance(t.comparators[0], ast.Name) and t.comparators[0].id in SIDES):
                if guard is not None:
                    fail(where, "nested variable guards")
                walk(st.body, default_dtype, (t.comparators[0].id, t.left.value), right_guard, path, out)
                continue
            if ast.unparse(t) == "len(right.sizes) != 0":
                if guard is not None or right_guard:
                    fail(where, "nested right-dataset guards")
                walk(st.body, default_dtype, guard, True, path, out)
                continue
        fail(where, f"unknown statement in save_results: {ast.unparse(st)[:120]}")


def main():
    sys.path.insert(0, REPO)
    import pandora.common as common
    import pandora.output_tree_design as otd

    path = inspect.getsourcefile(common)
    if not path.startswith(REPO):
        fail("import", f"pandora imported from {path}, not from {REPO}")
    src = textwrap.dedent(inspect.getsource(common.save_results))
    fn = ast.parse(src).body[0]
    if [a.arg for a in fn.args.args] != ["left", "right", "output"]:
        fail(path, "save_results(left, right, output) expected")
    sig = inspect.signature(common.write_data_array)
    dflt = sig.parameters["dtype"].default
    if dflt not in DTYPES:
        fail(path, f"default dtype of write_data_array is {dflt!r}")
    if sig.parameters["band_names"].default is not None:
        fail(path, "default band_names of write_data_array is not None")
    calls = []
    walk(fn.body, dflt, None, False, path, calls)

    opath = inspect.getsourcefile(otd)
    if not isinstance(otd.OTD, dict):
        fail(opath, "OTD is not a dict")
    body = ("From Coq Require Import List String.\nFrom Pandora Require Import Model.Save.\n"
            "Import ListNotations.\nOpen Scope string_scope.\n\n")
    body += "Definition otd : list (string * string) :=\n  [" + ";\n   ".join(
        f"({coq_str(k)}, {coq_str(v)})" for k, v in otd.OTD.items()) + "].\n\n"
    body += "Definition save_calls : list call :=\n  [" + ";\n   ".join(calls) + "].\n"
    _, changed = emit("SavePlan", body, [(path, "save_results", sha1_of(src)),
                                         (path, "write_data_array signature", sha1_of(str(sig))),
                                         (opath, "OTD", sha1_of(repr(otd.OTD)))])
    print(f"Gen/SavePlan.v {'written' if changed else 'unchanged'}: {len(calls)} write calls, {len(otd.OTD)} tree entries")


if __name__ == "__main__":
    try:
        main()
    except Exception as exc:  # fail closed
        print(f"TranslationError: {exc}")
        sys.exit(3)
