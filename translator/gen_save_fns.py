"""T-gen: coq/Gen/SaveFns.v -- statement-by-statement translation (Python `ast`, fail closed) of

    pandora/output_tree_design.py   get_out_dir, get_out_file_path
    pandora/common.py               write_data_array, save_results, save_config
    pandora/check_configuration.py  read_config_file
    pandora/__init__.py             main

into Gallina terms over the primitives of coq/Model/SavePrims.v (the semantics of the numpy / xarray / rasterio /
json / dict constructs met).  Every generated function lives in the error monad (None = a statement raises):

    x = e                      ->  let x := e in ...            (x <- e ;; ... when e can raise: d[k], a[:, :, k], -v, ...)
    a, b = x.shape             ->  st_ <- unpack2 (xda_shape x) ;; let '(a, b) := st_ in ...
    with rasterio_open(p, mode=, driver=, width=, height=, count=, dtype=, crs=, transform=) as ds: B
                               ->  ds <- rio_open_w p mode driver width height count dtype crs transform ;; B ;;
                                   let fx_ := fx_ ++ [FTif (rio_close ds)] in ...      (fx_ = the files closed so far)
    ds.write(a, i)             ->  ds <- rio_write rnd ds a i ;; ...
    ds.descriptions = n        ->  ds <- rio_set_descriptions ds n ;; ...
    for i in range(a, b): B    ->  s <- for_each (zrange a b) s (fun i s => B ;; Some s) ;; ...   (s = variables B assigns)
    if t: A else: B            ->  s <- (if t then A ;; Some s else B ;; Some s) ;; ...           (s = variables A or B assign)
    if x is not None: A        ->  match x with Some x => A | None => ... end                     (optional parameter)
    f(...) (a translated procedure)  ->  t <- f ... ;; let fx_ := fx_ ++ t in ...   (defaults of f read from its signature)
    with open(p, "w") as f: json.dump(v, f, indent=n)  ->  f <- open_w p "w" ;; f <- json_dump v f (Some n) ;; fx_ ++ [close_text f]
    v[k] = x  (dictionary)     ->  v <- jv_set v k x ;; ...

Aliasing of dictionaries is tracked: after `y = x[k1][k2]` the variable y REFERS to a part of x; a store y[k] = v is
translated as the store it is, x <- jv_set_path x [k1; k2] k v (and y is read again); `dict(y)` is a new object; where
the translator cannot tell (a variable that refers to a part of x on one path only) any later use after x changed
is refused.  Stored values must be new objects.  Callees are identified BY OBJECT in the imported modules (so
`from json import dump` is the same, another `json` is not).  pandora.run, check_conf, create_dataset_from_inputs,
check_datasets, PandoraMachine and machine.margins.to_dict are the fields of the record [env] (they are the subject
of the other properties); run(machine, l, r, cfg) returns the machine and cfg as they are after the call.
mkdir_p / import_plugin / setup_logging statements are skipped.  Python names are kept (suffix _py when they clash
with a name of the generated text), so renaming a local is harmless.  Anything else is a TranslationError naming
file:line.  Per-run obligations: Proofs/SaveGenP.v (generated = hand-written model, for all inputs) and Props/C19.v."""
import ast
import builtins
import inspect
import json
import os
import re
import sys
import textwrap

from common import emit, fail, sha1_of, REPO

COQ = {"STR": "string", "Z": "Z", "B": "bool", "XDA": "xda", "ARR": "arr", "DTYPE": "dtype", "NAMES": "list string",
       "ONAMES": "option (list string)", "CRS": "C", "TRANSFORM": "T", "XDS": "xds C T", "W": "wfile C T", "JV": "jv",
       "MACH": "M", "IMG": "IMG", "WT": "wtext", "RTXT": "string", "SHAPE": "list Z", "SIZES": "list (string * Z)",
       "FX": "list (effect C T)", "STRMAP": "list (string * string)"}

# (module, function, parameter types by position, result type, takes the environment)
FUNCS = [
    ("pandora.output_tree_design", "get_out_dir", ["STR"], "STR", False),
    ("pandora.output_tree_design", "get_out_file_path", ["STR"], "STR", False),
    ("pandora.common", "write_data_array", ["XDA", "STR", "DTYPE", "ONAMES", "CRS", "TRANSFORM"], "FX", False),
    ("pandora.common", "save_results", ["XDS", "XDS", "STR"], "FX", False),
    ("pandora.common", "save_config", ["STR", "JV"], "FX", False),
    ("pandora.check_configuration", "read_config_file", ["STR"], "JV", True),
    ("pandora", "main", ["STR", "STR", "B"], "FX", True),
]

RESERVED = set("""left right inl inr O S nil cons eq_refl Lt Gt Eq xH xI xO Z0 Zpos Zneg Qmake String EmptyString Ascii
exist conj I N0 Npos inleft inright existT ex_intro or_introl or_intror at as cofix else end exists exists2 fix for forall fun if IF in let match mod return Set Prop SProp
Type then using where with Some None true false negb andb orb fst snd pair Z Q nat list option bool string unit tt map
app length nth seq repeat bind py_len zrange for_each unpack2 unpack3 map_get starts_with_slash ends_with_slash path_join
ncols arr_shape nd_slice_last xda mkXda xa_arr xa_indicator xda_shape xda_data xda_coord jv JInt JFloat JNan JInf JStr
JBool JNull JList JDict dict lookup set_key jv_get jv_idx jv_is_none jv_is_str jv_neg jv_dict_copy jv_set jv_set_path
jv_get_path wtext mkWt t_path t_text open_w json_dump json_load print parse xds ds_get ds_has ds_sizes ds_attr_crs
ds_attr_transform wfile mkW w_path w_width w_height w_count w_dtype w_crs w_transform w_writes w_desc rio_open_w rect
rio_write rio_set_descriptions last_write zero_px zero_band band_of rio_close effect FTif FText close_text env mkEnv
e_read_file e_new_machine e_check_conf e_create_dataset e_check_datasets e_run e_margins_to_dict open_r dtype F32 U16
side SLeft SRight var VDisp VConf VMask px PF PI arr A2 A3 tif mkTif product mkProduct p_disp p_mask p_conf p_geo cast
slice3 otd save_calls call mkCall otd_lookup out_path rnd C T M IMG E fx_ st_""".split()) | {f[1] for f in FUNCS}


class Tr:
    """translation of one function"""

    def __init__(self, gen, spec, fn_ast, fname, line0, module):
        self.gen = gen
        self.modname, self.name, self.ptypes, self.rtype, self.uses_env = spec
        self.fn = fn_ast
        self.fname = fname
        self.line0 = line0
        self.module = module
        self.env = {}       # python name -> type
        self.alias = {}     # python name -> ("alias", root, [keys]) | ("maybe", root)
        self.poison = {}    # python name -> reason
        self.tmp = 0
        self.names = {}     # python name -> coq name

    # ------------------------------------------------------------------ utilities
    def where(self, node):
        return f"{self.fname}:{self.line0 + getattr(node, 'lineno', 1) - 1}"

    def refuse(self, node, msg):
        text = ast.unparse(node) if isinstance(node, ast.AST) else str(node)
        fail(self.where(node), f"{self.name}: {msg}: {text[:160]}")

    def cname(self, name):
        if name not in self.names:
            c = name + "_py" if (name in RESERVED or re.fullmatch(r"t\d+_", name)) else name
            if c in self.names.values() or c in RESERVED:
                fail(self.fname, f"{self.name}: cannot give a Coq name to the Python name {name}")
            self.names[name] = c
        return self.names[name]

    def fresh(self):
        self.tmp += 1
        return f"t{self.tmp}_"

    def resolve(self, node):
        """the Python object a Name / dotted name denotes in the module (None when it starts at a local)"""
        parts = []
        n = node
        while isinstance(n, ast.Attribute):
            parts.append(n.attr)
            n = n.value
        if not isinstance(n, ast.Name) or n.id in self.env:
            return None
        if n.id in self.module.__dict__:
            obj = self.module.__dict__[n.id]
        elif hasattr(builtins, n.id):
            obj = getattr(builtins, n.id)
        else:
            return None
        for a in reversed(parts):
            if not hasattr(obj, a):
                return None
            obj = getattr(obj, a)
        return obj

    def coerce(self, node, tv, want):
        text, ty = tv
        if ty == want:
            return text
        if ty == "NONE" and want == "ONAMES":
            return "None"
        if ty == "NONE" and want == "JV":
            return "JNull"
        if ty == "NAMES" and want == "ONAMES":
            return f"(Some {text})"
        self.refuse(node, f"a value of type {ty} where {want} is expected")

    def read_var(self, node, name):
        if name in self.poison:
            self.refuse(node, f"{name} {self.poison[name]}")
        if name not in self.env:
            self.refuse(node, f"unknown name {name}")
        return self.cname(name), self.env[name]

    # ------------------------------------------------------------------ expressions: (binds, text, type)
    def ex(self, e):
        binds = []
        text, ty = self._ex(e, binds)
        return binds, text, ty

    def sub(self, e, binds, want=None):
        text, ty = self._ex(e, binds)
        if want is not None:
            return self.coerce(e, (text, ty), want)
        return text, ty

    def partial(self, binds, text):
        t = self.fresh()
        binds.append((t, text))
        return t

    @staticmethod
    def cstr(s):
        if not isinstance(s, str) or any(ord(c) < 32 or ord(c) > 126 or c == '"' for c in s):
            raise ValueError(s)
        return '"' + s + '"%string'

    def const_str(self, node):
        if isinstance(node, ast.Constant) and isinstance(node.value, str):
            try:
                return self.cstr(node.value)
            except ValueError:
                self.refuse(node, "not a plain ASCII string")
        return None

    def _ex(self, e, binds):
        if isinstance(e, ast.Constant):
            if e.value is None:
                return "None", "NONE"
            if isinstance(e.value, bool):
                return ("true" if e.value else "false"), "B"
            if isinstance(e.value, int):
                return (f"({e.value})" if e.value < 0 else str(e.value)), "Z"
            s = self.const_str(e)
            if s is not None:
                return s, "STR"
            self.refuse(e, "literal not supported")
        if isinstance(e, ast.Name):
            if e.id in self.env or e.id in self.poison:
                return self.read_var(e, e.id)
            obj = self.resolve(e)
            if obj is not None and obj is self.gen.otd_obj:
                return "otd", "STRMAP"
            self.refuse(e, "unknown name")
        if isinstance(e, ast.UnaryOp):
            if isinstance(e.op, ast.Not):
                return f"(negb {self.sub(e.operand, binds, 'B')})", "B"
            if isinstance(e.op, ast.USub):
                text, ty = self.sub(e.operand, binds)
                if ty == "Z":
                    return f"(- {text})", "Z"
                if ty == "JV":
                    return self.partial(binds, f"jv_neg {text}"), "JV"
            self.refuse(e, "unary operator not supported")
        if isinstance(e, ast.BinOp):
            ops = {ast.Add: "+", ast.Sub: "-", ast.Mult: "*"}
            if type(e.op) not in ops:
                self.refuse(e, "operator not supported")
            a = self.sub(e.left, binds, "Z")
            b = self.sub(e.right, binds, "Z")
            return f"({a} {ops[type(e.op)]} {b})", "Z"
        if isinstance(e, ast.BoolOp):
            # short-circuit: the operands after the first are evaluated only when needed
            is_and = isinstance(e.op, ast.And)
            text = self.sub(e.values[0], binds, "B")
            for v in e.values[1:]:
                b2 = []
                t2 = self.sub(v, b2, "B")
                if not b2:
                    text = f"({text} && {t2})" if is_and else f"({text} || {t2})"
                else:
                    inner = "".join(f"{n} <- {x} ;; " for n, x in b2) + f"Some {t2}"
                    if is_and:
                        text = self.partial(binds, f"(if {text} then ({inner}) else Some false)")
                    else:
                        text = self.partial(binds, f"(if {text} then Some true else ({inner}))")
            return text, "B"
        if isinstance(e, ast.Compare):
            if len(e.ops) != 1:
                self.refuse(e, "chained comparison")
            op, right = e.ops[0], e.comparators[0]
            if isinstance(op, (ast.Is, ast.IsNot)):
                if not (isinstance(right, ast.Constant) and right.value is None):
                    self.refuse(e, "`is` is only supported against None")
                text = self.sub(e.left, binds, "JV")
                return (f"(jv_is_none {text})" if isinstance(op, ast.Is) else f"(negb (jv_is_none {text}))"), "B"
            if isinstance(op, (ast.In, ast.NotIn)):
                k = self.const_str(e.left)
                if k is None:
                    self.refuse(e, "`in` needs a literal key")
                text = self.sub(right, binds, "XDS")
                return (f"(ds_has {text} {k})" if isinstance(op, ast.In) else f"(negb (ds_has {text} {k}))"), "B"
            cmp = {ast.Eq: "{a} =? {b}", ast.NotEq: "negb ({a} =? {b})", ast.Lt: "{a} <? {b}", ast.LtE: "{a} <=? {b}",
                   ast.Gt: "{b} <? {a}", ast.GtE: "{b} <=? {a}"}
            if type(op) not in cmp:
                self.refuse(e, "comparison not supported")
            a = self.sub(e.left, binds, "Z")
            b = self.sub(right, binds, "Z")
            return "(" + cmp[type(op)].format(a=a, b=b) + ")", "B"
        if isinstance(e, ast.List):
            items = [self.sub(x, binds, "JV") for x in e.elts]
            return "(JList [" + "; ".join(items) + "])", "JV"
        if isinstance(e, ast.Attribute):
            obj = self.resolve(e)
            if obj is not None:
                if isinstance(obj, str) and obj == "float32":
                    return "F32", "DTYPE"
                if isinstance(obj, str) and obj == "uint16":
                    return "U16", "DTYPE"
                self.refuse(e, "unknown module attribute")
            text, ty = self.sub(e.value, binds)
            if e.attr == "shape" and ty == "XDA":
                return f"(xda_shape {text})", "SHAPE"
            if e.attr == "data" and ty == "XDA":
                return f"(xda_data {text})", "ARR"
            if e.attr == "data" and ty == "COORD":
                return text, "NAMES"
            if e.attr == "sizes" and ty == "XDS":
                return f"(ds_sizes {text})", "SIZES"
            self.refuse(e, f"attribute .{e.attr} of a value of type {ty}")
        if isinstance(e, ast.Subscript):
            return self.subscript(e, binds)
        if isinstance(e, ast.Call):
            return self.call_expr(e, binds)
        self.refuse(e, "expression not supported")

    def subscript(self, e, binds):
        s = e.slice
        # ds.attrs["crs"]
        if isinstance(e.value, ast.Attribute) and e.value.attr == "attrs":
            text, ty = self.sub(e.value.value, binds)
            if ty == "XDS" and isinstance(s, ast.Constant) and s.value == "crs":
                return self.partial(binds, f"ds_attr_crs {text}"), "CRS"
            if ty == "XDS" and isinstance(s, ast.Constant) and s.value == "transform":
                return self.partial(binds, f"ds_attr_transform {text}"), "TRANSFORM"
            self.refuse(e, "only <dataset>.attrs[\"crs\"|\"transform\"] is known")
        text, ty = self.sub(e.value, binds)
        if isinstance(s, ast.Tuple):
            if (ty == "ARR" and len(s.elts) == 3
                    and all(isinstance(x, ast.Slice) and x.lower is None and x.upper is None and x.step is None
                            for x in s.elts[:2])):
                k = self.sub(s.elts[2], binds, "Z")
                return self.partial(binds, f"nd_slice_last {text} {k}"), "ARR"
            self.refuse(e, "only a[:, :, k] is known")
        if isinstance(s, ast.Slice):
            self.refuse(e, "slice not supported")
        k = self.const_str(s)
        if ty == "XDS" and k is not None:
            return self.partial(binds, f"ds_get {text} {k}"), "XDA"
        if ty == "XDA" and k is not None:
            return self.partial(binds, f"xda_coord {text} {k}"), "COORD"
        if ty == "JV" and k is not None:
            return self.partial(binds, f"jv_get {text} {k}"), "JV"
        if ty == "JV":
            i = self.sub(s, binds, "Z")
            return self.partial(binds, f"jv_idx {text} {i}"), "JV"
        if ty == "STRMAP":
            key = self.sub(s, binds, "STR")
            return self.partial(binds, f"map_get {text} {key}"), "STR"
        self.refuse(e, f"subscript of a value of type {ty}")

    def plain_args(self, e, n=None):
        if e.keywords or any(isinstance(a, ast.Starred) for a in e.args):
            self.refuse(e, "keyword / starred arguments not expected here")
        if n is not None and len(e.args) != n:
            self.refuse(e, f"{n} positional argument(s) expected")
        return e.args

    def bound_args(self, e, obj):
        """{parameter name: ast} of a call, by the signature of the real callee"""
        if any(isinstance(a, ast.Starred) for a in e.args) or any(k.arg is None for k in e.keywords):
            self.refuse(e, "* / ** arguments")
        try:
            ba = inspect.signature(obj).bind(*e.args, **{k.arg: k.value for k in e.keywords})
        except TypeError as exc:
            self.refuse(e, f"arguments do not fit the signature ({exc})")
        return dict(ba.arguments)

    def positional(self, e, obj, n, what):
        """the first n parameters of the real callee, by position (their names are free), nothing else given"""
        ba = self.bound_args(e, obj)
        params = list(inspect.signature(obj).parameters)[:n]
        if len(params) != n or set(ba) != set(params):
            self.refuse(e, f"{what} expected")
        return [ba[p] for p in params]

    def call_expr(self, e, binds):
        G = self.gen
        f = e.func
        # method calls on local values
        if isinstance(f, ast.Attribute) and self.resolve(f) is None:
            if (f.attr == "to_dict" and isinstance(f.value, ast.Attribute) and f.value.attr == "margins"
                    and not e.args and not e.keywords):
                m = self.sub(f.value.value, binds, "MACH")
                return f"(e_margins_to_dict E {m})", "JV"
            self.refuse(e, "method call not supported in an expression")
        obj = self.resolve(f)
        if obj is None:
            self.refuse(e, "unknown callee")
        if obj is builtins.len:
            (a,) = self.plain_args(e, 1)
            text, ty = self.sub(a, binds)
            if ty not in ("SHAPE", "SIZES", "NAMES"):
                self.refuse(e, f"len of a value of type {ty}")
            return f"(py_len {text})", "Z"
        if obj is builtins.isinstance:
            a, t = self.plain_args(e, 2)
            if self.resolve(t) is not builtins.str:
                self.refuse(e, "isinstance is only known against str")
            return f"(jv_is_str {self.sub(a, binds, 'JV')})", "B"
        if obj is builtins.dict:
            (a,) = self.plain_args(e, 1)
            return self.partial(binds, f"jv_dict_copy {self.sub(a, binds, 'JV')}"), "JV"
        if obj is os.path.join:
            a, b = self.plain_args(e, 2)
            return f"(path_join {self.sub(a, binds, 'STR')} {self.sub(b, binds, 'STR')})", "STR"
        if obj is json.load:
            (a,) = self.plain_args(e, 1)
            return self.partial(binds, f"json_load {self.sub(a, binds, 'RTXT')}"), "JV"
        if obj is G.obj["PandoraMachine"]:
            self.plain_args(e, 0)
            self.need_env(e)
            return "(e_new_machine E)", "MACH"
        if obj is G.obj["create_dataset_from_inputs"]:
            (a,) = self.positional(e, obj, 1, "create_dataset_from_inputs(input_config) without roi")
            self.need_env(e)
            return self.partial(binds, f"e_create_dataset E {self.sub(a, binds, 'JV')}"), "IMG"
        for spec in G.done:
            if obj is G.pyfun[spec[1]]:
                if spec[3] == "FX":
                    self.refuse(e, "a procedure used as a value")
                return self.partial(binds, self.gen_call(e, spec, binds)), spec[3]
        self.refuse(e, "unknown callee")

    def need_env(self, node):
        if not self.uses_env:
            self.refuse(node, "this function is not given the environment")

    def gen_call(self, e, spec, binds):
        """text of a call of an already translated function (defaults from its signature)"""
        _, name, ptypes, _, uses_env = spec
        fn_ast = self.gen.asts[name]
        params = [a.arg for a in fn_ast.args.args]
        defaults = dict(zip(params[len(params) - len(fn_ast.args.defaults):], fn_ast.args.defaults))
        ba = self.bound_args(e, self.gen.pyfun[name])
        args = []
        for p, ty in zip(params, ptypes):
            if p in ba:
                args.append(self.sub(ba[p], binds, ty))
            elif p in defaults:
                d = Tr(self.gen, spec, fn_ast, self.gen.files[name][0], self.gen.files[name][1], self.gen.mods[name])
                db = []
                text = d.sub(defaults[p], db, ty)
                if db:
                    self.refuse(e, f"default of {p} is not a constant")
                args.append(text)
            else:
                self.refuse(e, f"argument {p} is missing")
        if uses_env:
            self.need_env(e)
        return name + (" E" if uses_env else "") + "".join(" " + a for a in args)

    # ------------------------------------------------------------------ statements
    @staticmethod
    def emit_binds(binds):
        return "".join(f"{n} <- {x} ;;\n" for n, x in binds)

    def assign_var(self, node, name, ty):
        """(re)binding of a Python variable"""
        if name in self.env and self.env[name] != ty:
            self.refuse(node, f"{name} re-assigned with another type ({self.env[name]} -> {ty})")
        for a, info in list(self.alias.items()):
            if info[1] == name and a != name:
                self.alias.pop(a)
                self.poison[a] = f"referred to a part of {name}, which was assigned since"
        self.alias.pop(name, None)
        self.poison.pop(name, None)
        self.env[name] = ty
        self.assigned.add(name)
        return self.cname(name)

    def refresh_aliases(self, root):
        """root changed: variables that refer to a part of it are read again; the uncertain ones are unusable"""
        out = ""
        for a, info in list(self.alias.items()):
            if info[1] != root:
                continue
            if info[0] == "alias":
                path = "[" + "; ".join(info[2]) + "]"
                out += f"{self.cname(a)} <- jv_get_path {self.cname(root)} {path} ;;\n"
                self.assigned.add(a)
            else:
                self.alias.pop(a)
                self.poison[a] = f"may refer to a part of {root}, which was modified since"
        return out

    def fresh_value(self, e):
        if isinstance(e, ast.Constant):
            return True
        if isinstance(e, ast.UnaryOp) and isinstance(e.op, ast.USub):
            return True
        if isinstance(e, ast.List):
            return all(self.fresh_value(x) for x in e.elts)
        if isinstance(e, ast.Call):
            return True
        return False

    def jv_chain(self, e):
        """e = name[k1]...[kn] with literal keys on a dictionary variable -> (name, [keys]) else None"""
        keys = []
        n = e
        while isinstance(n, ast.Subscript):
            k = self.const_str(n.slice)
            if k is None:
                return None
            keys.append(k)
            n = n.value
        if isinstance(n, ast.Name) and self.env.get(n.id) == "JV":
            return n.id, list(reversed(keys))
        return None

    def block(self, stmts, tail):
        """translate a statement list; `tail` is a function giving the final term"""
        out = ""
        for i, st in enumerate(stmts):
            if isinstance(st, ast.Expr) and isinstance(st.value, ast.Constant) and isinstance(st.value.value, str):
                continue
            if isinstance(st, ast.Return):
                if i != len(stmts) - 1 or self.rtype == "FX" or self.depth != 0:
                    self.refuse(st, "return is only supported as the last statement of a function that returns a value")
                if st.value is None:
                    self.refuse(st, "return without a value")
                binds, text, ty = self.ex(st.value)
                self.returned = True
                return out + self.emit_binds(binds) + f"Some {self.coerce(st, (text, ty), self.rtype)}"
            out += self.stmt(st)
        return out + tail()

    def stmt(self, st):
        if isinstance(st, ast.Expr) and isinstance(st.value, ast.Call):
            return self.call_stmt(st.value)
        if isinstance(st, ast.Assign):
            if len(st.targets) != 1:
                self.refuse(st, "chained assignment")
            return self.assign(st, st.targets[0], st.value)
        if isinstance(st, ast.With):
            return self.with_stmt(st)
        if isinstance(st, ast.For):
            return self.for_stmt(st)
        if isinstance(st, ast.If):
            return self.if_stmt(st)
        self.refuse(st, "statement not supported")

    def add_fx(self, text):
        self.assigned.add("fx_")
        return f"let fx_ := (fx_ ++ {text})%list in\n"

    def call_stmt(self, e):
        G = self.gen
        f = e.func
        if isinstance(f, ast.Attribute) and self.resolve(f) is None:
            # ds.write(a, i)
            if f.attr == "write" and isinstance(f.value, ast.Name) and self.env.get(f.value.id) == "W":
                a, i = self.plain_args(e, 2)
                binds = []
                at = self.sub(a, binds, "ARR")
                it = self.sub(i, binds, "Z")
                ds = self.assign_var(e, f.value.id, "W")
                return self.emit_binds(binds) + f"{ds} <- rio_write rnd {ds} {at} {it} ;;\n"
            self.refuse(e, "method call not supported")
        obj = self.resolve(f)
        if obj is None:
            self.refuse(e, "unknown callee")
        if obj in (G.obj["mkdir_p"], G.obj["import_plugin"], G.obj["setup_logging"]):
            return "(* skipped: " + re.sub(r"[^A-Za-z0-9_ .,()=\[\]']", "?", ast.unparse(e)[:80]).replace("(?", "( ?") + " *)\n"
        if obj is json.dump:
            ba = self.bound_args(e, json.dump)
            if not set(ba) <= {"obj", "fp", "indent"} or "obj" not in ba or "fp" not in ba:
                self.refuse(e, "json.dump(obj, fp[, indent=n]) is the only form modelled")
            if not (isinstance(ba["fp"], ast.Name) and self.env.get(ba["fp"].id) == "WT"):
                self.refuse(e, "json.dump into something that is not a text file opened for writing")
            binds = []
            v = self.sub(ba["obj"], binds, "JV")
            indent = "None"
            if "indent" in ba:
                n = ba["indent"]
                if isinstance(n, ast.Constant) and n.value is None:
                    indent = "None"
                elif isinstance(n, ast.Constant) and isinstance(n.value, int) and not isinstance(n.value, bool) and n.value >= 0:
                    indent = f"(Some {n.value})"
                else:
                    self.refuse(e, "indent must be a literal integer")
            fp = self.assign_var(e, ba["fp"].id, "WT")
            return self.emit_binds(binds) + f"{fp} <- json_dump {v} {fp} {indent} ;;\n"
        if obj is G.obj["check_datasets"]:
            a, b = self.plain_args(e, 2)
            binds = []
            at = self.sub(a, binds, "IMG")
            bt = self.sub(b, binds, "IMG")
            self.need_env(e)
            return self.emit_binds(binds) + f"{self.fresh()} <- e_check_datasets E {at} {bt} ;;\n"
        for spec in G.done:
            if obj is G.pyfun[spec[1]]:
                if spec[3] != "FX":
                    self.refuse(e, "the value of a call is dropped")
                binds = []
                text = self.gen_call(e, spec, binds)
                t = self.fresh()
                return self.emit_binds(binds) + f"{t} <- {text} ;;\n" + self.add_fx(t)
        self.refuse(e, "unknown callee")

    def assign(self, st, target, value):
        G = self.gen
        # a, b = ...
        if isinstance(target, ast.Tuple):
            if not all(isinstance(x, ast.Name) for x in target.elts):
                self.refuse(st, "tuple target")
            names = [x.id for x in target.elts]
            if isinstance(value, ast.Call) and self.resolve(value.func) is G.obj["run"]:
                if len(names) != 2:
                    self.refuse(st, "left, right = run(machine, img_left, img_right, cfg) expected")
                a_m, a_l, a_r, a_c = self.positional(value, G.obj["run"], 4, "run(machine, img_left, img_right, cfg)")
                ba = {"pandora_machine": a_m, "img_left": a_l, "img_right": a_r, "cfg": a_c}
                for k in ("pandora_machine", "cfg"):
                    if not isinstance(ba[k], ast.Name):
                        self.refuse(st, f"the {k} given to run must be a variable (run modifies it)")
                mname, cname_ = ba["pandora_machine"].id, ba["cfg"].id
                if cname_ in self.alias:
                    self.refuse(st, f"{cname_} refers to a part of another dictionary and is modified by run")
                binds = []
                m = self.sub(ba["pandora_machine"], binds, "MACH")
                il = self.sub(ba["img_left"], binds, "IMG")
                ir = self.sub(ba["img_right"], binds, "IMG")
                c = self.sub(ba["cfg"], binds, "JV")
                self.need_env(st)
                lv = self.assign_var(st, names[0], "XDS")
                rv = self.assign_var(st, names[1], "XDS")
                self.assigned.update([mname, cname_])
                out = (self.emit_binds(binds) + f"st_ <- e_run E {m} {il} {ir} {c} ;;\n"
                       f"let '({lv}, {rv}, {m}, {c}) := st_ in\n")
                return out + self.refresh_aliases(cname_)
            binds, text, ty = self.ex(value)
            if ty == "SHAPE" and len(names) in (2, 3):
                vs = [self.assign_var(st, n, "Z") for n in names]
                return (self.emit_binds(binds) + f"st_ <- unpack{len(names)} {text} ;;\n"
                        f"let '({', '.join(vs)}) := st_ in\n")
            self.refuse(st, "tuple assignment not supported")
        # x[k] = v
        if isinstance(target, ast.Subscript):
            if not isinstance(target.value, ast.Name):
                self.refuse(st, "only <variable>[key] = value is supported")
            x = target.value.id
            k = self.const_str(target.slice)
            if self.env.get(x) != "JV" or k is None:
                self.refuse(st, "only <dictionary variable>[\"literal\"] = value is supported")
            if x in self.poison:
                self.refuse(st, f"{x} {self.poison[x]}")
            if not self.fresh_value(value):
                self.refuse(st, "the stored value is an existing object (it would be shared)")
            binds = []
            v = self.sub(value, binds, "JV")
            info = self.alias.get(x)
            if info is None:
                cx = self.cname(x)
                self.assigned.add(x)
                return self.emit_binds(binds) + f"{cx} <- jv_set {cx} {k} {v} ;;\n" + self.refresh_aliases(x)
            if info[0] != "alias":
                self.refuse(st, f"{x} may or may not refer to a part of {info[1]}")
            root = info[1]
            cr = self.cname(root)
            self.assigned.add(root)
            path = "[" + "; ".join(info[2]) + "]"
            return (self.emit_binds(binds) + f"{cr} <- jv_set_path {cr} {path} {k} {v} ;;\n"
                    + self.refresh_aliases(root))
        # ds.descriptions = names
        if isinstance(target, ast.Attribute):
            if (target.attr == "descriptions" and isinstance(target.value, ast.Name)
                    and self.env.get(target.value.id) == "W"):
                binds = []
                v = self.sub(value, binds, "NAMES")
                ds = self.assign_var(st, target.value.id, "W")
                return self.emit_binds(binds) + f"{ds} <- rio_set_descriptions {ds} {v} ;;\n"
            self.refuse(st, "attribute assignment not supported")
        if not isinstance(target, ast.Name):
            self.refuse(st, "assignment target not supported")
        name = target.id
        # cfg = check_conf(user_cfg, machine)
        if isinstance(value, ast.Call) and self.resolve(value.func) is G.obj["check_conf"]:
            a_u, a_m = self.positional(value, G.obj["check_conf"], 2, "check_conf(user_cfg, machine)")
            ba = {"user_cfg": a_u, "pandora_machine": a_m}
            if not isinstance(ba["pandora_machine"], ast.Name):
                self.refuse(st, "cfg = check_conf(user_cfg, machine variable) expected")
            binds = []
            u = self.sub(ba["user_cfg"], binds, "JV")
            m = self.sub(ba["pandora_machine"], binds, "MACH")
            self.need_env(st)
            self.assigned.add(ba["pandora_machine"].id)
            c = self.assign_var(st, name, "JV")
            return self.emit_binds(binds) + f"st_ <- e_check_conf E {u} {m} ;;\nlet '({c}, {m}) := st_ in\n"
        chain = self.jv_chain(value) if isinstance(value, (ast.Subscript, ast.Name)) else None
        binds, text, ty = self.ex(value)
        if ty in ("NONE", "COORD"):
            self.refuse(st, f"a variable of type {ty}")
        new_alias = None
        if chain is not None and ty == "JV":
            root, keys = chain
            if root in self.alias:
                info = self.alias[root]
                if info[0] != "alias":
                    self.refuse(st, f"{root} may or may not refer to a part of {info[1]}")
                root, keys = info[1], info[2] + keys
            if root == name:
                self.refuse(st, "a variable re-assigned to a part of itself")
            new_alias = ("alias", root, keys)
        c = self.assign_var(st, name, ty)
        if new_alias:
            self.alias[name] = new_alias
        return self.emit_binds(binds) + f"let {c} := {text} in\n"

    def with_stmt(self, st):
        G = self.gen
        if len(st.items) != 1 or not isinstance(st.items[0].optional_vars, ast.Name):
            self.refuse(st, "with <one context manager> as <name> expected")
        ctx, name = st.items[0].context_expr, st.items[0].optional_vars.id
        if not isinstance(ctx, ast.Call):
            self.refuse(st, "context manager not supported")
        obj = self.resolve(ctx.func)
        binds = []
        if obj is G.obj["rasterio_open"]:
            if len(ctx.args) != 1 or any(k.arg is None for k in ctx.keywords):
                self.refuse(st, "rasterio_open(path, mode=, driver=, width=, height=, count=, dtype=, crs=, transform=)")
            kw = {k.arg: k.value for k in ctx.keywords}
            order = [("mode", "STR"), ("driver", "STR"), ("width", "Z"), ("height", "Z"), ("count", "Z"),
                     ("dtype", "DTYPE"), ("crs", "CRS"), ("transform", "TRANSFORM")]
            if set(kw) != {k for k, _ in order}:
                self.refuse(st, f"rasterio_open keywords must be exactly {[k for k, _ in order]}")
            args = [self.sub(ctx.args[0], binds, "STR")] + [self.sub(kw[k], binds, t) for k, t in order]
            v = self.assign_var(st, name, "W")
            out = self.emit_binds(binds) + f"{v} <- rio_open_w " + " ".join(args) + " ;;\n"
            close = lambda: self.add_fx(f"[FTif (rio_close {self.cname(name)})]")
        elif obj is builtins.open:
            a = self.plain_args(ctx, 2)
            if not (isinstance(a[1], ast.Constant) and a[1].value in ("w", "r")):
                self.refuse(st, "open(path, \"w\" | \"r\") expected")
            p = self.sub(a[0], binds, "STR")
            if a[1].value == "w":
                v = self.assign_var(st, name, "WT")
                out = self.emit_binds(binds) + f"{v} <- open_w {p} \"w\"%string ;;\n"
                close = lambda: self.add_fx(f"[close_text {self.cname(name)}]")
            else:
                self.need_env(st)
                v = self.assign_var(st, name, "RTXT")
                out = self.emit_binds(binds) + f"{v} <- open_r E {p} \"r\"%string ;;\n"
                close = lambda: ""
        else:
            self.refuse(st, "context manager not supported")
        for s in st.body:
            if isinstance(s, ast.Return):
                self.refuse(s, "return inside a with block")
            out += self.stmt(s)
        out += close()
        self.env.pop(name, None)   # the file is closed
        return out

    def sub_block(self, stmts, extra_env=None, retype=None):
        """translate a nested block in a copy of the state -> (text without tail, assigned, state after)"""
        saved = (dict(self.env), dict(self.alias), dict(self.poison), self.assigned)
        self.assigned = set()
        self.depth += 1
        if extra_env:
            self.env.update(extra_env)
        if retype:
            self.env.update(retype)
        text = ""
        for s in stmts:
            if isinstance(s, ast.Return):
                self.refuse(s, "return inside a nested block")
            if isinstance(s, ast.Expr) and isinstance(s.value, ast.Constant):
                continue
            text += self.stmt(s)
        self.depth -= 1
        after = (self.env, self.alias, self.poison, self.assigned)
        self.env, self.alias, self.poison, self.assigned = saved
        return text, after

    def threaded(self, *assigned_sets):
        names = set().union(*assigned_sets)
        order = ["fx_"] + list(self.env)
        return [n for n in order if n in names and (n == "fx_" or n in self.env)]

    def tuple_of(self, names):
        cs = [n if n == "fx_" else self.cname(n) for n in names]
        return cs[0] if len(cs) == 1 else "(" + ", ".join(cs) + ")"

    def merge_after(self, states):
        """alias / poison information after a branch point"""
        for (_, alias, poison, _) in states:
            for n, why in poison.items():
                if n in self.env:
                    self.poison[n] = why
        for n in list(self.env):
            infos = [s[1].get(n) for s in states]
            if all(i == infos[0] for i in infos):
                if infos[0] is None:
                    self.alias.pop(n, None)
                else:
                    self.alias[n] = infos[0]
            else:
                roots = {i[1] for i in infos if i is not None}
                if len(roots) != 1:
                    self.alias.pop(n, None)
                    self.poison[n] = "refers to parts of different dictionaries depending on the path taken"
                else:
                    self.alias[n] = ("maybe", roots.pop())

    def bind_threaded(self, names, term):
        if not names:
            return f"{self.fresh()} <- {term} ;;\n"
        if len(names) == 1:
            return f"{self.tuple_of(names)} <- {term} ;;\n"
        return f"st_ <- {term} ;;\nlet '{self.tuple_of(names)} := st_ in\n"

    def some_threaded(self, names):
        return "Some " + (self.tuple_of(names) if names else "tt")

    def if_stmt(self, st):
        t = st.test
        # optional parameter: if x is not None
        if (isinstance(t, ast.Compare) and len(t.ops) == 1 and isinstance(t.ops[0], (ast.Is, ast.IsNot))
                and isinstance(t.left, ast.Name) and self.env.get(t.left.id) == "ONAMES"
                and isinstance(t.comparators[0], ast.Constant) and t.comparators[0].value is None):
            x = t.left.id
            some_b, none_b = (st.body, st.orelse) if isinstance(t.ops[0], ast.IsNot) else (st.orelse, st.body)
            ts, s_after = self.sub_block(some_b, retype={x: "NAMES"})
            tn, n_after = self.sub_block(none_b)
            if x in s_after[3] or x in n_after[3]:
                self.refuse(st, f"{x} is assigned under the test of {x}")
            names = self.threaded(s_after[3], n_after[3])
            self.merge_after([s_after, n_after])
            self.assigned.update(names)
            cx = self.cname(x)
            term = (f"(match {cx} with\n| Some {cx} =>\n{indent(ts + self.some_threaded(names))}\n"
                    f"| None =>\n{indent(tn + self.some_threaded(names))}\nend)")
            return self.bind_threaded(names, term)
        binds, text, ty = self.ex(t)
        if ty != "B":
            self.refuse(t, f"a test of type {ty}")
        ta, a_after = self.sub_block(st.body)
        tb, b_after = self.sub_block(st.orelse)
        names = self.threaded(a_after[3], b_after[3])
        for n in names:
            for after in (a_after, b_after):
                if n != "fx_" and after[0].get(n) != self.env[n]:
                    self.refuse(st, f"{n} changes type in a branch")
        self.merge_after([a_after, b_after])
        self.assigned.update(names)
        term = (f"(if {text} then\n{indent(ta + self.some_threaded(names))}\nelse\n"
                f"{indent(tb + self.some_threaded(names))})")
        return self.emit_binds(binds) + self.bind_threaded(names, term)

    def for_stmt(self, st):
        if st.orelse or not isinstance(st.target, ast.Name):
            self.refuse(st, "for <name> in range(a, b) expected")
        it = st.iter
        if not (isinstance(it, ast.Call) and self.resolve(it.func) is builtins.range and len(it.args) == 2
                and not it.keywords):
            self.refuse(st, "for <name> in range(a, b) expected")
        if st.target.id in self.env:
            self.refuse(st, "the loop variable re-uses a name")
        binds = []
        a = self.sub(it.args[0], binds, "Z")
        b = self.sub(it.args[1], binds, "Z")
        i = st.target.id
        body, after = self.sub_block(st.body, extra_env={i: "Z"})
        names = self.threaded(after[3])
        if not names:
            self.refuse(st, "a loop that assigns nothing")
        for n in names:
            if n != "fx_" and (after[1].get(n) != self.alias.get(n) or n in after[2]):
                self.refuse(st, f"{n}: dictionary references change inside the loop")
        self.assigned.update(names)
        ci = self.cname(i)
        self.names.pop(i, None)
        if len(names) == 1:
            fun = f"(fun {ci} {self.tuple_of(names)} =>\n{indent(body + self.some_threaded(names))})"
        else:
            fun = (f"(fun {ci} st_ =>\n  let '{self.tuple_of(names)} := st_ in\n"
                   f"{indent(body + self.some_threaded(names))})")
        term = f"for_each (zrange {a} {b}) {self.tuple_of(names)} {fun}"
        return self.emit_binds(binds) + self.bind_threaded(names, term)

    # ------------------------------------------------------------------ the function
    def translate(self):
        fn = self.fn
        a = fn.args
        if a.vararg or a.kwarg or a.kwonlyargs or a.posonlyargs or fn.decorator_list:
            fail(self.fname, f"{self.name}: signature / decorators not supported")
        params = [x.arg for x in a.args]
        if len(params) != len(self.ptypes):
            fail(self.fname, f"{self.name}: {len(self.ptypes)} parameters expected, found {params}")
        self.assigned = set()
        self.depth = 0
        self.returned = False
        for p, ty in zip(params, self.ptypes):
            self.env[p] = ty
        sig = "".join(f" ({self.cname(p)} : {COQ[ty]})" for p, ty in zip(params, self.ptypes))
        if self.uses_env:
            sig = " (E : env C T M IMG)" + sig
        rt = COQ[self.rtype]
        if self.rtype == "FX":
            body = "let fx_ : list (effect C T) := [] in\n" + self.block(fn.body, lambda: "Some fx_")
        else:
            body = self.block(fn.body, lambda: fail(self.fname, f"{self.name}: no return statement at the end"))
        return f"Definition {self.name}{sig} : option ({rt}) :=\n{indent(body)}.\n"


def indent(text):
    return "\n".join("  " + ln if ln else ln for ln in text.rstrip("\n").split("\n"))


class Gen:
    pass


def main():
    sys.path.insert(0, REPO)
    import importlib
    import pandora
    import pandora.common
    import pandora.check_configuration
    import pandora.img_tools
    import pandora.output_tree_design
    import pandora.state_machine

    G = Gen()
    G.obj = {
        "PandoraMachine": pandora.state_machine.PandoraMachine,
        "create_dataset_from_inputs": pandora.img_tools.create_dataset_from_inputs,
        "check_conf": pandora.check_configuration.check_conf,
        "check_datasets": pandora.check_configuration.check_datasets,
        "run": pandora.run,
        "mkdir_p": pandora.common.mkdir_p,
        "import_plugin": pandora.import_plugin,
        "setup_logging": pandora.setup_logging,
        "rasterio_open": pandora.img_tools.rasterio_open,
    }
    G.otd_obj = pandora.output_tree_design.OTD
    G.done, G.pyfun, G.asts, G.files, G.mods = [], {}, {}, {}, {}
    sources, defs = [], []
    for spec in FUNCS:
        modname, name = spec[0], spec[1]
        mod = importlib.import_module(modname)
        obj = getattr(mod, name, None)
        if not inspect.isfunction(obj) or obj.__module__ != modname:
            fail(modname, f"{name} is not a function defined in {modname}")
        fname = inspect.getsourcefile(obj)
        if not os.path.abspath(fname).startswith(os.path.abspath(REPO)):
            fail("import", f"{modname} imported from {fname}, not from {REPO}")
        lines, line0 = inspect.getsourcelines(obj)
        src = textwrap.dedent("".join(lines))
        fn_ast = ast.parse(src).body[0]
        if not isinstance(fn_ast, ast.FunctionDef):
            fail(fname, f"{name}: not a plain function definition")
        G.pyfun[name], G.asts[name], G.files[name], G.mods[name] = obj, fn_ast, (fname, line0), mod
        tr = Tr(G, spec, fn_ast, fname, line0, mod)
        text = tr.translate()
        defs.append(f"(* {modname}.{name}, {os.path.relpath(fname, REPO)} lines {line0}-{line0 + len(lines) - 1} *)\n{text}")
        sources.append((fname, f"lines {line0}-{line0 + len(lines) - 1} ({name})", sha1_of(src)))
        G.done.append(spec)
    body = ("From Coq Require Import ZArith QArith List Bool String.\n"
            "From Pandora Require Import Model.Json Model.JsonText Model.Save Model.SavePrims Gen.SavePlan.\n"
            "Import ListNotations.\nOpen Scope Z_scope.\n\n"
            "Section Gen.\n"
            "Variable rnd : Q -> Q.\nVariables C T M IMG : Type.\n\n" + "\n".join(defs) + "\nEnd Gen.\n")
    _, changed = emit("SaveFns", body, sources)
    print(f"Gen/SaveFns.v {'written' if changed else 'unchanged'}: {len(defs)} functions")


if __name__ == "__main__":
    try:
        main()
    except Exception as exc:  # fail closed
        print(f"TranslationError: {exc}")
        sys.exit(3)
