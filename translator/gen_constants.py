"""T-gen: coq/Gen/Constants.v -- the literal block sizes of the block loops and the
validity-mask constants.

Block sizes are read with Python `ast` from the functions that contain the loops:
    pandora/disparity/disparity.py  WinnerTakesAll.argmin_split / argmax_split   (100)
    pandora/filter/median.py        MedianFilter.median_filter                   (100)
    pandora/filter/bilateral.py     BilateralFilter.filter_bilateral             (50)
Each of these functions must contain exactly two calls
    np.array_split(<array>, np.arange(B, <name>, B), axis=0|1)
(one per axis), B being the same positive integer literal in both, written either in place
or through ONE local `name = <int literal>` assignment (chunk_size).  Anything else is a
TranslationError (fail closed): the theorems hold for every B >= 1, but the statement
"instantiated at the code's constant" is only emitted when the constant was really found.

Mask constants are read from the imported pandora.constants module."""
import ast
import os
import sys

from common import emit, fail, sha1_of, REPO

TARGETS = [
    # (coq name, file, class, function)
    ("wta_argmin_block", "pandora/disparity/disparity.py", "WinnerTakesAll", "argmin_split"),
    ("wta_argmax_block", "pandora/disparity/disparity.py", "WinnerTakesAll", "argmax_split"),
    ("median_block", "pandora/filter/median.py", "MedianFilter", "median_filter"),
    ("bilateral_block", "pandora/filter/bilateral.py", "BilateralFilter", "filter_bilateral"),
]


def is_np_call(node, name):
    return (isinstance(node, ast.Call) and isinstance(node.func, ast.Attribute) and node.func.attr == name
            and isinstance(node.func.value, ast.Name) and node.func.value.id == "np")


def find_function(tree, cls, fn, where):
    for node in tree.body:
        if isinstance(node, ast.ClassDef) and node.name == cls:
            for sub in node.body:
                if isinstance(sub, ast.FunctionDef) and sub.name == fn:
                    return sub
    fail(where, f"function {cls}.{fn} not found")
    return None


def literal_of(node, fdef, where):
    """positive int literal, directly or through one local `name = literal` assignment"""
    if isinstance(node, ast.Constant) and isinstance(node.value, int) and not isinstance(node.value, bool):
        return node.value
    if isinstance(node, ast.Name):
        vals = []
        for sub in ast.walk(fdef):
            targets = []
            if isinstance(sub, ast.Assign):
                targets = sub.targets
            elif isinstance(sub, (ast.AugAssign, ast.AnnAssign)):
                targets = [sub.target]
            for t in targets:
                for n in ast.walk(t):
                    if isinstance(n, ast.Name) and n.id == node.id:
                        vals.append(sub)
        if len(vals) != 1 or not isinstance(vals[0], ast.Assign):
            fail(f"{where}:{node.lineno}", f"block size name {node.id} is not assigned exactly once by a plain assignment")
        v = vals[0].value
        if isinstance(v, ast.Constant) and isinstance(v.value, int) and not isinstance(v.value, bool):
            return v.value
        fail(f"{where}:{vals[0].lineno}", f"{node.id} is not an integer literal")
    fail(f"{where}:{getattr(node, 'lineno', '?')}", "block size is neither an integer literal nor a local name")
    return None


def block_size(path, cls, fn):
    full = os.path.join(REPO, path)
    with open(full) as f:
        src = f.read()
    tree = ast.parse(src)
    fdef = find_function(tree, cls, fn, path)
    where = f"{path}:{cls}.{fn}"
    found = []
    for node in ast.walk(fdef):
        if is_np_call(node, "array_split"):
            if len(node.args) != 2:
                fail(f"{path}:{node.lineno}", "np.array_split without exactly two positional arguments")
            pts = node.args[1]
            if not is_np_call(pts, "arange") or len(pts.args) != 3 or pts.keywords:
                fail(f"{path}:{node.lineno}", "split points are not np.arange(B, n, B)")
            b0 = literal_of(pts.args[0], fdef, path)
            b1 = literal_of(pts.args[2], fdef, path)
            if b0 != b1:
                fail(f"{path}:{node.lineno}", f"np.arange start {b0} differs from step {b1}")
            if not isinstance(pts.args[1], ast.Name):
                fail(f"{path}:{node.lineno}", "np.arange stop is not a plain name")
            axis = [k.value.value for k in node.keywords
                    if k.arg == "axis" and isinstance(k.value, ast.Constant)]
            if len(axis) != 1 or len(node.keywords) != 1:
                fail(f"{path}:{node.lineno}", "np.array_split without a literal axis= keyword")
            found.append((axis[0], b0, pts.args[1].id, node.lineno))
    if sorted(a for a, _, _, _ in found) != [0, 1]:
        fail(where, f"expected one np.array_split per axis (0 and 1), found axes {[a for a, _, _, _ in found]}")
    if found[0][1] != found[1][1]:
        fail(where, f"different block sizes on the two axes: {found[0][1]} / {found[1][1]}")
    if found[0][1] < 1:
        fail(where, f"block size {found[0][1]} < 1")
    seg = ast.get_source_segment(src, fdef) or ""
    return found[0][1], (full, f"{cls}.{fn} lines {fdef.lineno}-{fdef.end_lineno}", sha1_of(seg)), found


def main():
    sys.path.insert(0, REPO)
    import pandora.constants as cst  # pylint: disable=import-outside-toplevel

    if not os.path.realpath(cst.__file__).startswith(os.path.realpath(REPO)):
        fail("import", f"pandora imported from {cst.__file__}, not from {REPO}")
    body = "From Coq Require Import ZArith.\nOpen Scope Z_scope.\n\n"
    sources = []
    summary = []
    body += "(* block sizes: the literal B of np.array_split(x, np.arange(B, n, B), axis) *)\n"
    for name, path, cls, fn in TARGETS:
        b, srcinfo, found = block_size(path, cls, fn)
        body += f"Definition {name} : Z := {b}.\n"
        sources.append(srcinfo)
        summary.append(f"{name}={b}")
    body += "\n(* validity-mask constants (pandora/constants.py) *)\n"
    names = sorted(n for n in dir(cst) if n.startswith("PANDORA_MSK_PIXEL_"))
    for required in ("PANDORA_MSK_PIXEL_INVALID", "PANDORA_MSK_PIXEL_INTERVAL_REGULARIZED"):
        if required not in names:
            fail("pandora/constants.py", f"{required} missing")
    vals = []
    for n in names:
        v = getattr(cst, n)
        if not isinstance(v, int) or isinstance(v, bool) or v < 0:
            fail("pandora/constants.py", f"{n} is not a non-negative int: {v!r}")
        body += f"Definition {n.lower()[len('pandora_'):]} : Z := {v}.\n"
        vals.append((n, v))
    with open(cst.__file__) as f:
        sources.append((cst.__file__, "PANDORA_MSK_PIXEL_* (module attributes)", sha1_of(repr(vals))))
    path, changed = emit("Constants", body, sources)
    print(f"gen_constants: {path} {'rewritten' if changed else 'unchanged'} {' '.join(summary)} masks={len(vals)}")


if __name__ == "__main__":
    try:
        main()
    except Exception as exc:  # fail closed, one line for the caller
        print(f"TRANSLATION-ERROR gen_constants: {type(exc).__name__}: {exc}")
        sys.exit(3)
